#!/usr/bin/env python3
"""Merge partial selftest runs (SELFTEST_PART=<file> tools/selftest.py quick <id-prefix ...>) into selftest_results.json:
entries are replaced by (kind, id); totals recomputed.  usage: tools/selftest_merge.py part1.json part2.json ..."""
import json, subprocess, sys
base = json.load(open("/verif/selftest_results.json"))
by = {(r["kind"], r["id"]): r for r in base["results"]}
for f in sys.argv[1:]:
    try:
        part = json.load(open(f))
    except Exception as e:
        print("skip", f, e)
        continue
    for r in part["results"]:
        r["repo_head"] = part.get("repo_head")
        by[(r["kind"], r["id"])] = r
res = sorted(by.values(), key=lambda r: (r["kind"], r["id"]))
head = subprocess.run(["git", "-C", "/repo", "rev-parse", "--short", "HEAD"], capture_output=True, text=True).stdout.strip()
out = {"repo_head": head, "tier": base.get("tier", "quick"), "total": len(res), "caught": sum(1 for r in res if r["caught"]),
       "missed": [r["id"] for r in res if not r["caught"]], "results": res,
       "note": "entries carrying their own repo_head were re-run in a partial selftest after the check was strengthened"}
json.dump(out, open("/verif/selftest_results.json", "w"), indent=1)
print(f"selftest merged: {out['caught']}/{out['total']} caught; missed: {out['missed']}")
