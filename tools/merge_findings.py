#!/usr/bin/env python3
"""tools/merge_findings.py <proposed.jsonl> [id=commit ...]: merge a builder's proposed finding lines into known_findings.jsonl
(same id = replace in place, new id = append). `id=commit` marks that id fixed by that /repo commit."""
import json, sys
path = sys.argv[1]
fixed = dict(a.split("=", 1) for a in sys.argv[2:])
L = [json.loads(l) for l in open("/verif/known_findings.jsonl") if l.strip()]
idx = {f["id"]: i for i, f in enumerate(L)}
for line in open(path):
    line = line.strip()
    if not line or line.startswith("#"):
        continue
    f = json.loads(line)
    f = {k: v for k, v in f.items() if k in ("property", "id", "status", "what", "match", "commit", "repro")}
    if f["id"] in idx:
        L[idx[f["id"]]] = f
        print("replaced", f["id"])
    else:
        idx[f["id"]] = len(L)
        L.append(f)
        print("added", f["id"])
for fid, sha in fixed.items():
    f = L[idx[fid]]
    f["status"] = "fixed"
    f["commit"] = sha
    if not f["what"].startswith("fixed:"):
        f["what"] = f"fixed: property={f['property']} {sha} " + f["what"]
    print("fixed", fid, sha)
with open("/verif/known_findings.jsonl", "w") as o:
    for f in L:
        o.write(json.dumps(f) + "\n")
