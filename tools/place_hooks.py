#!/usr/bin/env python3
"""One-off helper used to add the lib.VerifPoint call sites to /repo (add-only).
Each entry: (file, anchor line (stripped), occurrence (1-up), where, site)
where = 'before' | 'after'.  Kept for the record; the hooks live in /repo's git history."""
import re, sys, os
REPO = "/repo"
S = [
 ("pkg/stream/stream.go", "retval = ierr", 1, "before", "stream.select.ierr"),
 ("pkg/stream/stream.go", "retval = derr", 1, "before", "stream.select.derr"),
 ("pkg/stream/stream.go", "done = true", 1, "before", "stream.select.done"),
 ("pkg/stream/stream.go", "if retval == nil {", 1, "before", "stream.drain"),
 ("pkg/stream/stream.go", "if err := bufferedOutputStream.Flush(); err != nil && retval == nil {", 1, "before", "stream.flush"),

 ("pkg/transformers/aaa_chain_transformer.go", "recordsAndContexts := <-inputRecordChannel", 1, "after", "chain.recv"),
 ("pkg/transformers/aaa_chain_transformer.go", "case outputDownstreamDoneChannel <- true:", 1, "BEFORE_SELECT", "chain.upstream.done"),
 ("pkg/transformers/aaa_chain_transformer.go", "case dataProcessingErrorChannel <- err:", 1, "BEFORE_SELECT", "chain.err.post"),
 ("pkg/transformers/aaa_chain_transformer.go", "outputRecordsAndContexts = append(outputRecordsAndContexts,", 1, "before", "chain.eos.forward"),
 ("pkg/transformers/aaa_chain_transformer.go", "outputRecordChannel <- outputRecordsAndContexts", 2, "before", "chain.send"),

 ("pkg/transformers/aaa_record_transformer.go", "outputDownstreamDoneChannel <- b", 1, "before", "dd.forward"),
 ("pkg/transformers/head.go", "outputDownstreamDoneChannel <- true", 1, "before", "head.done.send"),
 ("pkg/transformers/seqgen.go", "outputRecordChannel <- batch", 1, "before", "seqgen.batch.send"),
 ("pkg/transformers/seqgen.go", "outputDownstreamDoneChannel <- b", 2, "before", "seqgen.done.forward"),
 ("pkg/transformers/seqgen.go", "outputRecordChannel <- batch", 2, "before", "seqgen.batch.send"),

 ("pkg/input/line_reader.go", "if i%recordsPerBatch == 0 {", 1, "after", "lines.poll"),
 ("pkg/input/line_reader.go", "linesChannel <- lines", 1, "before", "lines.send"),
 ("pkg/input/line_reader.go", "linesChannel <- lines", 2, "before", "lines.eof"),

 ("pkg/output/channel_writer.go", "recordsAndContexts := <-writerChannel", 1, "after", "writer.recv"),
 ("pkg/output/channel_writer.go", "case dataProcessingErrorChannel <- errors.New(\"exiting due to data error\"):", 1, "BEFORE_SELECT", "writer.err.post"),
 ("pkg/output/channel_writer.go", "doneChannel <- true", 1, "before", "writer.done"),
 ("pkg/output/channel_writer.go", "doneChannel <- true", 2, "before", "writer.done"),
 ("pkg/output/channel_writer.go", "err := recordWriter.Write(record, context, bufferedOutputStream, outputIsStdout)", 1, "before", "writer.record"),

 ("pkg/output/file_output_handlers.go", "mgr.mu.Lock()", 1, "before", "fo.lookup"),
 ("pkg/output/file_output_handlers.go", "tail := mgr.lruTail", 1, "before", "fo.evict"),
 ("pkg/output/file_output_handlers.go", "delete(mgr.evictedFilenames, filename)", 1, "before", "fo.reopen"),
 ("pkg/output/file_output_handlers.go", "handler.recordOutputChannel <- []*types.RecordAndContext{outrecAndContext}", 1, "before", "fo.send"),
 ("pkg/output/file_output_handlers.go", "handler.recordOutputChannel <- types.NewEndOfStreamMarkerList(&emptyContext)", 1, "before", "fo.close"),

 ("pkg/entrypoint/entrypoint.go", "if _, err := os.Stat(fileName); os.IsNotExist(err) {", 1, "before", "inplace.begin"),
 ("pkg/entrypoint/entrypoint.go", "tempFileName := handle.Name()", 1, "after", "inplace.temp.created"),
 ("pkg/entrypoint/entrypoint.go", "err = stream.Stream([]string{fileName}, options, recordTransformers, wrappedHandle, false)", 1, "after", "inplace.streamed"),
 ("pkg/entrypoint/entrypoint.go", "err = handle.Close()", 1, "before", "inplace.wrapped.closed"),
 ("pkg/entrypoint/entrypoint.go", "err = os.Rename(tempFileName, fileName)", 1, "before", "inplace.closed"),
 ("pkg/entrypoint/entrypoint.go", "err = os.Chmod(fileName, originalMode)", 1, "before", "inplace.renamed"),
 ("pkg/entrypoint/entrypoint.go", "err = os.Chmod(fileName, originalMode)", 1, "AFTER_IFBLOCK", "inplace.chmodded"),
]
IMPORT = '\t"github.com/johnkerl/miller/v6/pkg/lib"\n'

def main():
    byfile = {}
    for e in S:
        byfile.setdefault(e[0], []).append(e)
    for f, entries in byfile.items():
        p = os.path.join(REPO, f)
        lines = open(p).read().split("\n")
        inserts = []  # (index, text)
        for (_, anchor, occ, where, site) in entries:
            idxs = [i for i, l in enumerate(lines) if l.strip() == anchor]
            if len(idxs) < occ:
                sys.exit(f"{f}: anchor not found: {anchor!r} occ {occ} (found {len(idxs)})")
            i = idxs[occ - 1]
            indent = re.match(r"\s*", lines[i]).group(0)
            if where == "before":
                inserts.append((i, indent + f'lib.VerifPoint("{site}")'))
            elif where == "after":
                inserts.append((i + 1, indent + f'lib.VerifPoint("{site}")'))
            elif where == "BEFORE_SELECT":
                j = i
                while lines[j].strip() != "select {":
                    j -= 1
                indent = re.match(r"\s*", lines[j]).group(0)
                inserts.append((j, indent + f'lib.VerifPoint("{site}")'))
            elif where == "AFTER_IFBLOCK":
                j = i + 1
                assert lines[j].strip().startswith("if err != nil {")
                while lines[j].strip() != "}":
                    j += 1
                inserts.append((j + 1, indent + f'lib.VerifPoint("{site}")'))
        for i, text in sorted(inserts, key=lambda x: -x[0]):
            lines.insert(i, text)
        src = "\n".join(lines)
        if "miller/v6/pkg/lib\"" not in src:
            # add import after the first miller import line
            m = re.search(r'\t"github.com/johnkerl/miller/v6/pkg/[a-z/]+"\n', src)
            src = src[:m.start()] + IMPORT + src[m.start():]
        open(p, "w").write(src)
        print("patched", f, len(entries))
main()
