#!/bin/bash
# Silence sweep: every claimed check's quick tier at several seeds, from a fresh process each; prints one line per run.
# usage: tools/sweep.sh "1 2 3 7 1234" [Cxx ...]
cd /verif
SEEDS=${1:-"1 2 3"}; shift
PROPS=${@:-$(python3 -c "import json; print(' '.join(c['property_id'] for c in json.load(open('MANIFEST.json'))['checks']))")}
D=$(mktemp -d /tmp/sweep.XXXXXX)
for s in $SEEDS; do for p in $PROPS; do
  t0=$(date +%s)
  VERIF_SEED=$s VERIF_EVID_DIR=$D/ev ./check $p --tier quick > $D/$p.$s.out 2> $D/$p.$s.err; rc=$?
  nv=$(grep -c '^VIOLATION' $D/$p.$s.out); nk=$(grep -c '^KNOWN-FINDING' $D/$p.$s.out)
  echo "seed=$s $p exit=$rc violations=$nv known=$nk wall=$(( $(date +%s) - t0 ))s $(grep -m1 'violation:' $D/$p.$s.err | cut -c1-200)"
done; done
rm -rf $D
