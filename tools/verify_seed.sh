#!/bin/bash
# Confirm a seeded change independently: in a scratch worktree of /repo HEAD, build unchanged and changed binaries,
# run the demo against both (must pass / must fail), run the pinned test packages with the change applied.
# usage: tools/verify_seed.sh <dir with patch.diff demo.sh meta.json> <seed-id e.g. C15-a>   -> writes /verif/seeded/<id>/
set -u
SRC=$(realpath "$1"); ID=$2
W=$(mktemp -d /tmp/vseed.XXXXXX); WT=$W/wt
export GOFLAGS=-mod=mod GOPROXY=off
git -C /repo worktree add --detach "$WT" HEAD >/dev/null 2>&1 || { echo "worktree failed"; exit 2; }
cleanup() { git -C /repo worktree remove --force "$WT" >/dev/null 2>&1; rm -rf "$W"; }
trap cleanup EXIT
cp /verif/.cache/parser-*.go "$WT/pkg/parsing/parser/parser.go"
git -C "$WT" update-index --assume-unchanged pkg/parsing/parser/parser.go
(cd "$WT" && go build -o "$W/mlr-base" ./cmd/mlr) || { echo "base build failed"; exit 2; }
git -C "$WT" apply --3way "$SRC/patch.diff" 2>/dev/null || git -C "$WT" apply "$SRC/patch.diff" || { echo "RESULT $ID: patch does not apply to current HEAD"; exit 3; }
(cd "$WT" && go build -o "$W/mlr-seed" ./cmd/mlr) || { echo "RESULT $ID: seeded tree does not compile"; exit 3; }
(cd "$WT" && go test -vet=off -count=1 ./pkg/bifs/ ./pkg/cli/ ./pkg/dkvpx/ ./pkg/input/ ./pkg/lib/ ./pkg/mlrval/ ./pkg/output/ ./pkg/pbnjay-strptime/ ./pkg/scan/ ./pkg/transformers/utils/ > "$W/tests.out" 2>&1); TESTS=$?
ulimit -t 120 -v 8000000 -f 400000
bash "$SRC/demo.sh" "$W/mlr-base" > "$W/demo-base.out" 2>&1; DB=$?
bash "$SRC/demo.sh" "$W/mlr-seed" > "$W/demo-seed.out" 2>&1; DS=$?
echo "RESULT $ID: pinned_tests_rc=$TESTS demo_on_unchanged_rc=$DB demo_on_seeded_rc=$DS"
if [ $TESTS -eq 0 ] && [ $DB -eq 0 ] && [ $DS -ne 0 ]; then
  D=/verif/seeded/$ID; mkdir -p "$D"
  git -C "$WT" diff HEAD -- . ':!pkg/parsing/parser/parser.go' > "$D/patch.diff"
  cp "$SRC/demo.sh" "$D/demo.sh"; cp "$SRC/meta.json" "$D/meta.orig.json"
  tail -5 "$W/demo-base.out" > "$D/demo-on-unchanged.out"; tail -15 "$W/demo-seed.out" > "$D/demo-on-seeded.out"
  echo "CONFIRMED $ID -> $D (base commit $(git -C /repo rev-parse --short HEAD))"
else
  echo "NOT CONFIRMED $ID"; tail -5 "$W/tests.out"; tail -5 "$W/demo-base.out"; tail -5 "$W/demo-seed.out"
fi
