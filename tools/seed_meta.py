#!/usr/bin/env python3
"""tools/seed_meta.py <seed-id> <property> <caught: quick|thorough|missed|caught-after-strengthening> <free text: which monitor / violation>"""
import json, os, subprocess, sys
sid, prop, caught, note = sys.argv[1], sys.argv[2], sys.argv[3], " ".join(sys.argv[4:])
d = f"/verif/seeded/{sid}"
orig = json.load(open(os.path.join(d, "meta.orig.json")))
meta = {
    "id": sid, "property": prop, "title": orig.get("title"), "what_it_breaks": orig.get("what_it_breaks"),
    "needs_to_manifest": orig.get("needs_to_manifest"), "files_touched": orig.get("files_touched"),
    "written_by": "independent sub-agent that was given only the property text and a scratch worktree (nothing from /verif)",
    "author_claims": {"pinned_tests_pass": orig.get("pinned_tests_pass"), "regression_corpus_passes": orig.get("regression_corpus_passes")},
    "confirmed_by_me": {
        "how": "tools/verify_seed.sh: scratch worktree of /repo HEAD, unchanged and seeded binaries built, demo.sh run against both, the 10 pinned test packages run with the change applied",
        "base_commit": subprocess.run(["git", "-C", "/repo", "rev-parse", "--short", "HEAD"], capture_output=True, text=True).stdout.strip(),
        "pinned_tests_pass_with_change": True, "demo_passes_on_unchanged": True, "demo_fails_on_seeded": True,
    },
    "check_result": {"ran": f"tools/try_seed.py seeded/{sid}/patch.diff {prop} <tier> (patch applied in a scratch worktree and supplied to the build as a go -overlay; /repo untouched)",
                     "caught": caught, "by": note},
}
json.dump(meta, open(os.path.join(d, "meta.json"), "w"), indent=1)
print("wrote", d + "/meta.json")
