#!/bin/bash
# Run Miller's own regression corpus (mlr regtest, ~4790 cases) against the guard-off binary built
# from /repo's working tree, from a scratch copy of /repo/test so that nothing under /repo is written.
# Used to validate "fix:" commits. Usage: tools/regtest.sh [outfile]
set -e
cd /verif && python3 -m vf.build mlr-plain >/dev/null
S=$(mktemp -d /tmp/regtest.XXXXXX)
trap 'rm -rf "$S"' EXIT
mkdir -p "$S/repo"
rsync -a /repo/test "$S/repo/"
rsync -a /repo/docs/src/example.csv "$S/repo/docs/src/" 2>/dev/null || true
cp /verif/.build/mlr-plain "$S/repo/mlr"
cd "$S/repo"
export PATH="$S/repo:$PATH" MLRRC=__none__
./mlr regtest test/cases 2>&1 | tail -${REGTEST_TAIL:-40}
