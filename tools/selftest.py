#!/usr/bin/env python3
"""Sensitivity self-test of the registered checks (DESIGN section 5, item 2): every mutant in mutants/mutants.json and every
independently seeded change in seeded/<id>/ is built as a `go build -overlay` (never touching /repo) and its property's
check is run; each must report a VIOLATION.  Results go to /verif/selftest_results.json.
usage: tools/selftest.py [quick|thorough] [id-prefix ...]      (VERIF_NPROC limits the workers of each check run)"""
import glob, json, os, re, subprocess, sys, time

tier = sys.argv[1] if len(sys.argv) > 1 else "quick"
sel = sys.argv[2:]
os.chdir("/verif")
results = []


def want(name):
    return not sel or any(name.startswith(s) for s in sel)


for d in sorted(glob.glob("seeded/*/")):
    sid = os.path.basename(d.rstrip("/"))
    if not want(sid) or not os.path.exists(d + "patch.diff"):
        continue
    prop = re.match(r"(C\d\d)", sid).group(1)
    t0 = time.time()
    p = subprocess.run(["python3", "tools/try_seed.py", d + "patch.diff", prop, tier], capture_output=True, text=True)
    m = re.search(r"exit=(\d+) violations=(\d+)", p.stdout)
    nv = int(m.group(2)) if m else -1
    first = next((l for l in p.stdout.splitlines() if "violation:" in l), "")
    results.append({"kind": "seeded", "id": sid, "property": prop, "tier": tier, "exit": p.returncode, "violation_lines": nv,
                    "caught": nv > 0, "first": first[:300], "wall_s": round(time.time() - t0)})
    print(f"{sid}: {'CAUGHT' if nv > 0 else 'MISSED' if nv == 0 else 'BROKEN'} exit={p.returncode} violations={nv} {first[:160]}", flush=True)

if want("mutant") or not sel:
    for m in json.load(open("mutants/mutants.json")):
        if sel and not (want("mutant") or want(m["name"])):
            continue
        t0 = time.time()
        p = subprocess.run(["python3", "tools/mutant.py", m["name"], tier], capture_output=True, text=True)
        line = p.stdout.strip().splitlines()[-1] if p.stdout.strip() else "BROKEN (no output)"
        results.append({"kind": "mutant", "id": m["name"], "property": m["prop"], "tier": tier, "caught": ": CAUGHT" in line,
                        "first": line[:300], "wall_s": round(time.time() - t0)})
        print(line[:240], flush=True)

head = subprocess.run(["git", "-C", "/repo", "rev-parse", "--short", "HEAD"], capture_output=True, text=True).stdout.strip()
out = {"repo_head": head, "tier": tier, "total": len(results), "caught": sum(1 for r in results if r["caught"]),
       "missed": [r["id"] for r in results if not r["caught"]], "results": results}
if not sel:
    json.dump(out, open("selftest_results.json", "w"), indent=1)
elif os.environ.get("SELFTEST_PART"):
    # partial run (selected ids): written aside, merged into selftest_results.json by tools/selftest_merge.py
    json.dump(out, open(os.environ["SELFTEST_PART"], "w"), indent=1)
print(f"selftest: {out['caught']}/{out['total']} caught; missed: {out['missed']}")
sys.exit(0 if not out["missed"] else 1)
