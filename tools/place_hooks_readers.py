#!/usr/bin/env python3
"""One-off helper (see place_hooks.py): reader-side call sites, add-only."""
import re, os, sys
REPO="/repo"
FILES=["record_reader_csv.go","record_reader_tsv.go","record_reader_json.go","record_reader_dkvp_nidx.go",
       "record_reader_csvlite.go","record_reader_xtab.go","record_reader_pprint.go","record_reader_dkvpx.go",
       "record_reader_yaml.go","pseudo_reader_gen.go"]
PAT=[("readerChannel <- types.NewEndOfStreamMarkerList(&context)","reader.eos.send"),
     ("readerChannel <- recordsAndContexts","reader.batch.send"),
     ("errorChannel <- err","reader.err.post")]
for f in FILES:
    p=os.path.join(REPO,"pkg/input",f)
    lines=open(p).read().split("\n")
    out=[];n=0
    for l in lines:
        for pat,site in PAT:
            if l.strip()==pat:
                indent=re.match(r"\s*",l).group(0)
                out.append(indent+f'lib.VerifPoint("{site}")'); n+=1
        out.append(l)
    src="\n".join(out)
    if n and 'miller/v6/pkg/lib"' not in src:
        m=re.search(r'\t"github.com/johnkerl/miller/v6/pkg/[a-z/]+"\n',src)
        src=src[:m.start()]+'\t"github.com/johnkerl/miller/v6/pkg/lib"\n'+src[m.start():]
    open(p,"w").write(src)
    print(f,n)
