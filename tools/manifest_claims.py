# claim(id, category, text, note, technique, design_ref); NA = {id: reason}
NA = {}
