# claim(id, category, text, note, technique, design_ref); NA = {id: reason}
NA = {}
claim("C04", "exploration",
      "Held on the executions observed: differential runs of random verb chains over batch sizes / GOMAXPROCS / CPU mask / seeded perturbation at ~110 hooked sites (stdout and status must equal the reference run), a structured grid of early-exit chains judged by a goroutine-state deadlock classifier (not by timeouts) and a slicing model, --seed repetition, the Go race detector over a stress list aimed at shared state, and an online one-record-at-a-time streaming monitor. Schedules are sampled, not enumerated, so this is exploration; evidence reports hook-site hit counts and distinct interleaving signatures.",
      "Trusts: the Go race detector and runtime.Stack dumps; hooks (build tag verif) only add delays/yields/trace at program points where goroutines are preemptible anyway; Python harness. Known findings C04-F2/F3 (shared random generator) are reported as KNOWN-FINDING lines.",
      "differential runs + hang classifier on goroutine dumps + race detector + online streaming monitor",
      "DESIGN.md section 3, C04")
claim("C17", "fault_enumeration",
      "Every cell of an enumerated fault grid (7 fault kinds x sub-kinds x positions around batch boundaries / file index / verb position / begin-main-end) is executed under schedule variants (batch sizes, GOMAXPROCS=1, perturbation seeds, a forced 30 ms delay at each error-post / marker-forward / done site) and judged by: terminates (goroutine-state deadlock classifier, CPU/output budgets), exit status != 0, an `mlr` diagnostic on stderr (offending path for open-time faults). Each cell's fault-free control run must exit 0 with complete output. Faults are injected for real: directories, damaged compressed streams, strace-injected EIO/ENOSPC (verified to have fired), /dev/full, closed pipes, ENOTDIR/EISDIR targets, pipe commands that stop reading.",
      "Trusts strace's injection and the hang classifier; SIGPIPE on stdout counts as non-zero status by Unix convention; power loss and network inputs out of reach. Fixed defects are listed in known_findings.jsonl as fixed (suppress nothing).",
      "fault injection grid + exit-status/diagnostic/termination oracle over recorded runs",
      "DESIGN.md section 3, C17")
claim("C19", "fault_enumeration",
      "Directory inspection after SIGKILL at every hit of every in-place hook site, after every n-th written record and every flush (hook enumerator), after SIGKILL at entry to the N-th file-system system call for all N until the run completes (hook-free strace enumerator), after failures through the normal error path at file index i, and after success: each named file must be byte-for-byte its original or its transformed content (decompressing .gz/.z), files after the failing one untouched, the prefix property across the file list, no temp file left unless killed, mode preserved, refusals before any modification.",
      "Process crashes only (the file system changes only at system calls); expected content comes from the guard-off binary run without -I on each file alone; known finding C19-F1 (direct os.Exit sites leave the temp file) is reported as KNOWN-FINDING.",
      "crash-point enumeration (hook SIGKILL + strace syscall SIGKILL) + directory-state oracle",
      "DESIGN.md section 3, C19")
