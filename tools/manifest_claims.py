# claim(id, category, text, note, technique, design_ref); NA = {id: reason}
NA = {}
claim("C04", "exploration",
      "Held on the executions observed: differential runs of random verb chains over batch sizes / GOMAXPROCS / CPU mask / seeded perturbation at ~110 hooked sites (stdout and status must equal the reference run), a structured grid of early-exit chains judged by a goroutine-state deadlock classifier (not by timeouts) and a slicing model, --seed repetition, the Go race detector over a stress list aimed at shared state, and an online one-record-at-a-time streaming monitor. Schedules are sampled, not enumerated, so this is exploration; evidence reports hook-site hit counts and distinct interleaving signatures.",
      "Trusts: the Go race detector and runtime.Stack dumps; hooks (build tag verif) only add delays/yields/trace at program points where goroutines are preemptible anyway; Python harness. Known findings C04-F2/F3 (shared random generator) are reported as KNOWN-FINDING lines.",
      "differential runs + hang classifier on goroutine dumps + race detector + online streaming monitor",
      "DESIGN.md section 3, C04")
