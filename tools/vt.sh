#!/bin/bash
# verify + try one seeded change: tools/vt.sh <seed dir id e.g. C20r3> <a|b> <Cxx> [tier]   -> appends to /tmp/vt.out
cd /verif
export GOFLAGS=-mod=mod GOPROXY=off
ID=$1; AB=$2; PROP=$3; TIER=${4:-quick}
{
  echo "=== $ID-$AB ($PROP $TIER) $(date +%T)"
  if [ ! -f seeded/$ID-$AB/patch.diff ]; then tools/verify_seed.sh /tmp/seed/$ID/out/$AB $ID-$AB 2>&1 | tail -6; fi
  if [ -f seeded/$ID-$AB/patch.diff ]; then python3 tools/try_seed.py seeded/$ID-$AB/patch.diff $PROP $TIER 2>&1 | cut -c1-500 | tail -8; fi
  echo "=== end $ID-$AB $(date +%T)"
} >> /tmp/vt.out 2>&1
