#!/usr/bin/env python3
"""Run a check against a seeded change WITHOUT touching /repo's checkout: the patch is applied in a scratch
worktree and supplied to the build as a `go build -overlay` (same sources the compiler would see had the
patch been applied to /repo). usage: tools/try_seed.py <patch.diff> <Cxx> [quick|thorough] [extra check args]"""
import json, os, shutil, subprocess, sys, tempfile
patch, prop = os.path.abspath(sys.argv[1]), sys.argv[2]
tier = sys.argv[3] if len(sys.argv) > 3 else "quick"
extra = sys.argv[4:]
d = tempfile.mkdtemp(prefix="tryseed-", dir="/tmp")
wt = os.path.join(d, "wt")
rc = 2
try:
    subprocess.run(["git", "-C", "/repo", "worktree", "add", "--detach", wt, "HEAD"], check=True, capture_output=True)
    p = subprocess.run(["git", "-C", wt, "apply", "--3way", patch], capture_output=True, text=True)
    if p.returncode != 0:
        p = subprocess.run(["git", "-C", wt, "apply", patch], capture_output=True, text=True)
    if p.returncode != 0:
        print("PATCH DOES NOT APPLY:", p.stderr)
        sys.exit(3)
    files = subprocess.run(["git", "-C", wt, "status", "--porcelain"], capture_output=True, text=True).stdout.splitlines()
    repl = {}
    for l in files:
        f = l[3:].strip()
        if f.endswith(".go") or f.endswith(".bnf"):
            repl["/repo/" + f] = os.path.join(wt, f)
    ov = os.path.join(d, "ov.json")
    json.dump({"Replace": repl}, open(ov, "w"))
    env = dict(os.environ, VERIF_EXTRA_OVERLAY=ov, VERIF_BUILD_DIR=os.path.join(d, "build"), VERIF_EVID_DIR=os.path.join(d, "evidence"))
    print("overlay:", list(repl))
    p = subprocess.run(["./check", prop, "--tier", tier] + extra, cwd="/verif", env=env, capture_output=True, text=True)
    rc = p.returncode
    out = p.stdout.splitlines()
    viol = [l for l in out if l.startswith("VIOLATION")]
    print(f"exit={rc} violations={len(viol)}")
    for l in p.stderr.splitlines():
        if "violation:" in l or "BROKEN" in l or "tier=" in l:
            print(l[:600])
    wdir = os.path.join(d, "evidence", "witness", prop)
    if os.path.isdir(wdir):
        keep = os.path.join(os.path.dirname(patch), "caught_witness")
        shutil.rmtree(keep, ignore_errors=True)
        shutil.copytree(wdir, keep)
finally:
    subprocess.run(["git", "-C", "/repo", "worktree", "remove", "--force", wt], capture_output=True)
    shutil.rmtree(d, ignore_errors=True)
sys.exit(rc)
