#!/usr/bin/env python3
"""Run /repo's pinned test suite with the verif guard OFF and compare with BASELINE.json.
Exit 0 iff every stable_pass test passes."""
import json, os, subprocess, sys
sys.path.insert(0, os.path.dirname(os.path.dirname(os.path.abspath(__file__))))
from vf import build
base = json.load(open("/root/.vp/BASELINE.json"))
want = set(base["stable_pass"])
argv0, env = build.pick_go()
p = subprocess.run([argv0, "test", "-json", "-vet=off", "-count=1", "-timeout", "25m", "./..."],
                   cwd=build.REPO, env=env, capture_output=True, text=True)
passed = set(); failed = set()
for line in p.stdout.splitlines():
    try:
        e = json.loads(line)
    except Exception:
        continue
    if e.get("Test") and e.get("Action") in ("pass", "fail"):
        name = f'{e["Package"]}::{e["Test"]}'
        (passed if e["Action"] == "pass" else failed).add(name)
missing = sorted(want - passed)
print(f"baseline: {len(want)} pinned, {len(want & passed)} passed, {len(missing)} not passed; "
      f"{len(failed)} failures overall (always_fail: {base.get('always_fail')})")
for m in missing[:50]:
    print("  NOT PASSED:", m)
sys.exit(0 if not missing else 1)
