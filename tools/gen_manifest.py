#!/usr/bin/env python3
"""Regenerate MANIFEST.json from the table below (kept in one place so that it stays valid)."""
import json, os, subprocess
HERE = os.path.dirname(os.path.dirname(os.path.abspath(__file__)))
P = {}   # id -> dict(level, text, note, technique, design_ref)

def claim(pid, category, text, note, technique, design_ref):
    P[pid] = dict(category=category, text=text, note=note, technique=technique, design_ref=design_ref)

exec(open(os.path.join(HERE, "tools", "manifest_claims.py")).read())

props = [json.loads(l)["id"] for l in open(os.path.join(HERE, "properties.jsonl"))]
hook_commits = subprocess.run(["git", "-C", "/repo", "log", "--format=%H %s", "--grep=^verif hooks"],
                              capture_output=True, text=True).stdout.strip().splitlines()
m = {
 "version": 1,
 "setup_cmd": "./check --setup",
 "hooks": {
  "guard": "verif",
  "enable": "go build -tags verif -overlay /verif/.build/overlay.json -o /verif/.build/mlr-verif ./cmd/mlr  (vf/build.py; the overlay supplies the regenerated DSL parser, /repo is never written)",
  "baseline_off_cmd": "python3 tools/baseline_off.py",
  "source_commits": [l.split()[0] for l in hook_commits],
  "add_only": True,
 },
 "engines": [
  {"name": "vf", "path": "vf/", "serves_properties": sorted(P), "kind_free_text":
   "runtime monitoring: sandboxed executions of the real mlr binary (hooks on) observed by offline checkers / reference-model monitors / race detector / hang classifier"},
 ],
 "checks": [],
 "not_applicable": [],
 "notes": "All checks rebuild mlr from /repo's working tree (vf/build.py) before running. See DESIGN.md.",
}
for pid in props:
    if pid in P:
        c = P[pid]
        m["checks"].append({
            "property_id": pid,
            "quick_cmd": f"./check {pid} --tier quick",
            "thorough_cmd": f"./check {pid} --tier thorough",
            "evidence_file": f"evidence/{pid}.json",
            "replay_cmd_template": f"./check {pid} --replay {{path}}",
            "engine": "vf",
            "level_claimed": {"category": c["category"], "text": c["text"], "design_ref": c["design_ref"]},
            "level_note": c["note"],
            "technique": c["technique"],
        })
    else:
        m["not_applicable"].append({"property_id": pid, "reason": NA.get(pid, "monitor not built yet in this round; not claimed")})
json.dump(m, open(os.path.join(HERE, "MANIFEST.json"), "w"), indent=1)
print("claimed:", sorted(P), "not claimed:", [p for p in props if p not in P])
