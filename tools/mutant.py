#!/usr/bin/env python3
"""Build one of /verif/mutants/mutants.json as an overlay (never touches /repo) and run its property's check.
usage: tools/mutant.py <name>|--all [quick|thorough] ; prints CAUGHT / MISSED per mutant."""
import json, os, shutil, subprocess, sys, tempfile
M = json.load(open("/verif/mutants/mutants.json"))
sel = sys.argv[1]
tier = sys.argv[2] if len(sys.argv) > 2 else "quick"
extra = sys.argv[3:]
todo = M if sel == "--all" else [m for m in M if m["name"] == sel or m["prop"] == sel]
for m in todo:
    d = tempfile.mkdtemp(prefix="mutant-", dir="/tmp")
    try:
        src = open("/repo/" + m["file"]).read()
        if m["old"] not in src:
            print(f"{m['name']}: STALE (anchor text not found in {m['file']})"); continue
        new = src.replace(m["old"], m["new"], 1)
        if "new_after" in m:
            na = m["new_after"]
            if na["old"] not in new:
                print(f"{m['name']}: STALE (second anchor)"); continue
            new = new.replace(na["old"], na["new"], 1)
        f = os.path.join(d, os.path.basename(m["file"]))
        open(f, "w").write(new)
        ov = os.path.join(d, "ov.json")
        json.dump({"Replace": {"/repo/" + m["file"]: f}}, open(ov, "w"))
        env = dict(os.environ, VERIF_EXTRA_OVERLAY=ov, VERIF_BUILD_DIR=os.path.join(d, "build"), VERIF_EVID_DIR=os.path.join(d, "evidence"))
        p = subprocess.run(["./check", m["prop"], "--tier", tier] + extra, cwd="/verif", env=env, capture_output=True, text=True)
        viol = [l for l in p.stdout.splitlines() if l.startswith("VIOLATION")]
        first = next((l for l in p.stderr.splitlines() if "violation:" in l), "")
        if p.returncode == 2 and not viol:
            print(f"{m['name']}: BROKEN/BUILD (exit 2): {p.stderr[-400:]}")
        else:
            print(f"{m['name']}: {'CAUGHT' if viol else 'MISSED'} exit={p.returncode} violations={len(viol)} {first[:260]}")
    finally:
        shutil.rmtree(d, ignore_errors=True)
