#!/bin/bash
# silence runs of named checks at named seeds, in parallel lanes of one check each: tools/sil.sh "2 3" C04 C11 ...   -> /tmp/sil.out
cd /verif
SEEDS=$1; shift
for p in "$@"; do
  ( for s in $SEEDS; do
      D=$(mktemp -d /tmp/sil.XXXXXX)
      t0=$(date +%s)
      VERIF_SEED=$s VERIF_EVID_DIR=$D/ev ./check $p --tier quick > $D/out 2> $D/err; rc=$?
      echo "seed=$s $p exit=$rc violations=$(grep -c '^VIOLATION' $D/out) known=$(grep -c '^KNOWN-FINDING' $D/out) wall=$(( $(date +%s) - t0 ))s $(grep -m2 'violation:' $D/err | cut -c1-300)" >> /tmp/sil.out
      rm -rf $D
    done ) &
done
wait
echo "sil done $*" >> /tmp/sil.out
