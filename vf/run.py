"""Sandboxed execution of one mlr process: every run is resource-capped, its
stdout/stderr go to files (so an unbounded-output loop dies on RLIMIT_FSIZE
instead of eating memory, and the harness never becomes the thing mlr waits
for), and a run that does not exit is classified on its goroutine state
(vf/hang.py), never on elapsed time alone."""
import os
import resource
import shutil
import signal
import subprocess
import tempfile
import time

from . import build, hang

SCRATCH_ROOT = os.environ.get("VERIF_SCRATCH", "/tmp")

BASE_ENV = {
    "PATH": "/usr/local/bin:/usr/bin:/bin",
    "MLRRC": "__none__",
    "MLR_NO_COLOR": "1",
    "LC_ALL": "C.UTF-8",
    "GOTRACEBACK": "all",
}

MiB = 1 << 20


class Result:
    __slots__ = ("argv", "rc", "signal", "stdout", "stderr", "verdict", "hang_sig",
                 "dump", "wall", "cpu", "cwd", "trace", "race_reports", "stdout_truncated")

    def __init__(self):
        self.rc = None
        self.signal = None
        self.stdout = b""
        self.stderr = b""
        self.verdict = "exited"   # exited | deadlock | cpu | output-cap | slow
        self.hang_sig = None
        self.dump = None
        self.wall = 0.0
        self.cpu = 0.0
        self.trace = None
        self.race_reports = None
        self.stdout_truncated = False

    @property
    def ok(self):
        return self.verdict == "exited" and self.rc == 0

    @property
    def out(self):
        return self.stdout.decode("utf-8", "surrogateescape")

    @property
    def err(self):
        return self.stderr.decode("utf-8", "replace")

    def crashed(self):
        """Go crash trace / fatal signal (the C18 oracle)."""
        e = self.stderr
        if b"panic:" in e or b"fatal error:" in e or b"runtime error" in e or b"goroutine 1 [" in e:
            if self.verdict in ("deadlock", "slow"):
                # the dump we asked for with SIGQUIT is not a crash
                return b"panic:" in e or b"fatal error:" in e
            return True
        if self.signal in (signal.SIGSEGV, signal.SIGABRT, signal.SIGBUS, signal.SIGILL, signal.SIGFPE):
            return True
        return False

    def brief(self, n=400):
        return {"rc": self.rc, "signal": self.signal, "verdict": self.verdict,
                "stdout": self.stdout[:n].decode("utf-8", "replace"),
                "stderr": self.stderr[:n].decode("utf-8", "replace")}


def new_scratch(prefix="vf-"):
    return tempfile.mkdtemp(prefix=prefix, dir=SCRATCH_ROOT)


def _limits(cpu_s, fsize, as_bytes, nofile):
    def f():
        os.setsid()
        resource.setrlimit(resource.RLIMIT_CPU, (cpu_s, cpu_s + 2))
        resource.setrlimit(resource.RLIMIT_FSIZE, (fsize, fsize))
        if as_bytes:
            resource.setrlimit(resource.RLIMIT_AS, (as_bytes, as_bytes))
        resource.setrlimit(resource.RLIMIT_NOFILE, (nofile, nofile))
        resource.setrlimit(resource.RLIMIT_CORE, (0, 0))
    return f


def has_live_children(pid):
    """Is any process (not thread) alive whose parent is pid, or in pid's session other than itself?"""
    try:
        for d in os.listdir("/proc"):
            if not d.isdigit():
                continue
            try:
                with open(f"/proc/{d}/stat", "rb") as f:
                    s = f.read().decode("latin1")
            except OSError:
                continue
            rp = s.rfind(")")
            fields = s[rp + 2:].split()
            state, ppid, sess = fields[0], int(fields[1]), int(fields[3])
            if int(d) != pid and (ppid == pid or sess == pid) and state != "Z":
                return True
    except OSError:
        pass
    return False


def mlr(args, stdin=b"", binary="mlr-verif", cwd=None, env=None, cpu_s=20, watchdog=60.0,
        fsize=64 * MiB, as_bytes=4 << 30, nofile=1024, files=None, keep_cwd=False,
        trace=False, race_log=False, checkpoints=(2.0, 5.0, 15.0), stdin_file=None,
        out_cap=64 * MiB, wrapper=None, stdout_to=None, wait_children=0.0):
    """Run one mlr process. `args` excludes argv[0]. `files` = {relative name: bytes}
    created in the scratch cwd first. Returns Result (with .cwd left in place iff keep_cwd)."""
    own_cwd = cwd is None
    if own_cwd:
        cwd = new_scratch()
    if files:
        for name, data in files.items():
            p = os.path.join(cwd, name)
            d = os.path.dirname(p)
            if d and not os.path.isdir(d):
                os.makedirs(d, exist_ok=True)
            with open(p, "wb") as f:
                f.write(data if isinstance(data, bytes) else data.encode("utf-8", "surrogateescape"))
    meta = tempfile.mkdtemp(prefix="vfm-", dir=SCRATCH_ROOT)
    e = dict(BASE_ENV)
    e["HOME"] = meta
    e["MLR_VERIF_DUMP"] = os.path.join(meta, "dump")
    if trace:
        e["MLR_VERIF_TRACE"] = os.path.join(meta, "trace")
    if race_log or binary == "mlr-race":
        e["GORACE"] = f"halt_on_error=0 atexit_sleep_ms=0 log_path={meta}/race"
    if env:
        e.update(env)
    exe = binary if os.path.isabs(binary) else build.binpath(binary)
    argv = [exe] + [a if isinstance(a, str) else a.decode("utf-8", "surrogateescape") for a in args]
    if wrapper:
        argv = list(wrapper) + argv
    r = Result()
    r.argv = argv
    r.cwd = cwd
    so_path = os.path.join(meta, "stdout")
    se_path = os.path.join(meta, "stderr")
    if isinstance(stdout_to, int):
        so = os.fdopen(os.dup(stdout_to), "wb")
    else:
        so = open(stdout_to, "wb") if stdout_to else open(so_path, "wb")
    se = open(se_path, "wb")
    if stdin_file is not None:
        si = open(stdin_file, "rb")
    else:
        si_path = os.path.join(meta, "stdin")
        with open(si_path, "wb") as f:
            f.write(stdin if isinstance(stdin, bytes) else stdin.encode("utf-8", "surrogateescape"))
        si = open(si_path, "rb")
    t0 = time.time()
    try:
        p = subprocess.Popen(argv, stdin=si, stdout=so, stderr=se, cwd=cwd, env=e,
                             preexec_fn=_limits(cpu_s, fsize, as_bytes, nofile), close_fds=True)
    except OSError as ex:
        so.close(); se.close(); si.close()
        shutil.rmtree(meta, ignore_errors=True)
        if own_cwd and not keep_cwd:
            shutil.rmtree(cwd, ignore_errors=True)
        raise
    cps = [c for c in checkpoints if c < watchdog] + [watchdog]
    status = None
    ru = None
    for i, cp in enumerate(cps):
        remaining = t0 + cp - time.time()
        try:
            status = _wait(p, max(0.0, remaining))
        except subprocess.TimeoutExpired:
            status = None
        if status is not None:
            break
        # still running at this check-point: look at its logical state
        is_last = (i == len(cps) - 1)
        use_usr1 = (wrapper is None) and not os.path.basename(exe).startswith("mlr-plain")
        v, sig, dump = hang.classify(p.pid, e["MLR_VERIF_DUMP"], has_live_children, use_usr1=use_usr1)
        if v == "deadlock":
            r.verdict, r.hang_sig, r.dump = "deadlock", sig, dump
            _killpg(p)
            status = _wait(p, 10)
            break
        if is_last:
            r.verdict, r.dump = "slow", dump
            _killpg(p)
            status = _wait(p, 10)
            break
    r.wall = time.time() - t0
    so.close(); se.close(); si.close()
    rc = p.returncode
    if rc is not None and rc < 0:
        r.signal = -rc
        r.rc = None
        if r.verdict == "exited":
            if r.signal == signal.SIGXCPU:
                r.verdict = "cpu"
            elif r.signal == signal.SIGXFSZ:
                r.verdict = "output-cap"
            elif r.signal == signal.SIGKILL and wrapper is None and "MLR_VERIF_CRASH" not in e:
                # the harness kills only after a deadlock/slow verdict; the Go runtime survives SIGXCPU at the soft
                # limit, so a SIGKILL here is the kernel enforcing the hard RLIMIT_CPU
                r.verdict = "cpu"
    else:
        r.rc = rc
    # mlr does not wait for its pipe-to children; give them a bounded chance to finish reading what
    # they were sent (they see EOF once mlr has exited) before the session is cleaned up
    if wait_children and r.verdict == "exited":
        t1 = time.time()
        while time.time() - t1 < wait_children and has_live_children(p.pid):
            time.sleep(0.02)
    # also kill stragglers in the session (children of pipes etc.)
    _killpg(p)
    try:
        if stdout_to is None:
            with open(so_path, "rb") as f:
                r.stdout = f.read(out_cap + 1)
            if len(r.stdout) > out_cap:
                r.stdout_truncated = True
        with open(se_path, "rb") as f:
            r.stderr = f.read(8 * MiB)
        if trace and os.path.exists(e["MLR_VERIF_TRACE"]):
            with open(e["MLR_VERIF_TRACE"], "r", errors="replace") as f:
                r.trace = f.read().splitlines()
        if "GORACE" in e:
            reps = []
            for fn in os.listdir(meta):
                if fn.startswith("race."):
                    with open(os.path.join(meta, fn), "r", errors="replace") as f:
                        reps.append(f.read())
            r.race_reports = reps
    finally:
        shutil.rmtree(meta, ignore_errors=True)
        if own_cwd and not keep_cwd:
            shutil.rmtree(cwd, ignore_errors=True)
            r.cwd = None
    return r


def _wait(p, timeout):
    try:
        return p.wait(timeout=timeout)
    except subprocess.TimeoutExpired:
        return None


def _killpg(p):
    try:
        os.killpg(p.pid, signal.SIGKILL)
    except (ProcessLookupError, PermissionError):
        pass


def read_files(cwd, exclude=()):
    """All regular files under cwd -> {relative name: bytes}."""
    out = {}
    for d, dirs, fs in os.walk(cwd):
        for f in fs:
            p = os.path.join(d, f)
            rel = os.path.relpath(p, cwd)
            if rel in exclude:
                continue
            if os.path.islink(p) or not os.path.isfile(p):
                continue    # e.g. a symlink to /dev/full planted by a fault scenario: reading it never ends
            try:
                with open(p, "rb") as fh:
                    out[rel] = fh.read()
            except OSError:
                pass
    return out
