"""Check harness: case fan-out over worker processes, three-valued verdict
bookkeeping, known-finding matching, witness files, evidence writing."""
import hashlib
import json
import multiprocessing as mp
import os
import random
import re
import shutil
import sys
import time
import traceback

from . import build

VERIF = build.VERIF
EVID = os.environ.get("VERIF_EVID_DIR") or os.path.join(VERIF, "evidence")   # override only for mutant/seed trials
FINDINGS = os.path.join(VERIF, "known_findings.jsonl")
NPROC = int(os.environ.get("VERIF_NPROC", "16"))


def case_result(key, nontrivial=False, evals=1):
    return {"key": key, "nontrivial": bool(nontrivial), "viol": [], "inconc": 0, "skipped": 0,
            "stats": {}, "sample": None, "evals": evals}


def add_violation(res, sig, what, detail=None):
    """sig: small dict identifying the *kind* of failure (matched against known findings);
    detail: everything needed to replay (argv, stdin, files, expected, got)."""
    res["viol"].append({"sig": sig, "what": what, "detail": detail or {}})


def bump(res, name, n=1):
    res["stats"][name] = res["stats"].get(name, 0) + n


def _jsonable(o):
    if isinstance(o, bytes):
        try:
            return o.decode("utf-8")
        except UnicodeDecodeError:
            return {"__bytes_hex__": o.hex()}
    if isinstance(o, dict):
        return {str(k): _jsonable(v) for k, v in o.items()}
    if isinstance(o, (list, tuple, set)):
        return [_jsonable(v) for v in o]
    if isinstance(o, float):
        if o != o or o in (float("inf"), float("-inf")):
            return repr(o)
        return o
    if isinstance(o, (str, int, bool)) or o is None:
        return o
    return repr(o)


def load_findings(prop):
    out = []
    paths = [FINDINGS]
    if os.environ.get("VERIF_EXTRA_FINDINGS"):   # development aid only; registered commands never set it
        paths.append(os.environ["VERIF_EXTRA_FINDINGS"])
    for path in paths:
        if not os.path.exists(path):
            continue
        with open(path) as f:
            for line in f:
                line = line.strip()
                if not line or line.startswith("#"):
                    continue
                e = json.loads(line)
                if e.get("property") == prop:
                    # an entry of the (development-only) extra file replaces the listed entry with the same id
                    out = [x for x in out if x.get("id") != e.get("id")]
                    out.append(e)
    return out


def _match_one(pat, val):
    if isinstance(pat, list):
        return any(_match_one(p, val) for p in pat)
    if isinstance(pat, str) and pat.startswith("re:"):
        return re.fullmatch(pat[3:], str(val), re.S) is not None
    return pat == val


def finding_matches(finding, sig):
    if finding.get("status") != "open":
        return False
    m = finding.get("match") or {}
    if not m:
        return False
    for k, v in m.items():
        if k not in sig:
            return False
        if not _match_one(v, sig[k]):
            return False
    return True


def _worker(payload):
    func, case = payload
    try:
        return func(case)
    except Exception:
        r = case_result("harness-exception:" + hashlib.sha1(repr(case)[:2000].encode()).hexdigest())
        r["exception"] = traceback.format_exc()
        r["case"] = repr(case)[:2000]
        return r


class Check:
    def __init__(self, prop, tier, seed, level="exploration"):
        self.prop = prop
        self.tier = tier
        self.seed = seed
        self.level = level
        self.t0 = time.time()
        self.evaluations = 0
        self.keys_nontrivial = set()
        self.keys_all = set()
        self.violations = []      # unlisted
        self.known_hits = {}      # finding id -> (finding, count, example)
        self.inconclusive = 0
        self.skipped = 0
        self.stats = {}
        self.monitors = {}        # pmap label -> {cases, inconclusive_cases, cases_without_any_run}
        self.samples = []
        self.sample_cap = 5
        self.extra = {}
        self.assumptions = []
        self.rule = ""
        self.exceptions = []
        self.findings = load_findings(prop)
        self.exhaustive = None
        self._pool = None

    # ---- randomness -------------------------------------------------------------------
    def rng(self, stream=""):
        return random.Random(f"{self.seed}/{self.prop}/{self.tier}/{stream}")

    def quick(self):
        return self.tier == "quick"

    def pick(self, quick, thorough):
        return quick if self.tier == "quick" else thorough

    # ---- fan-out ----------------------------------------------------------------------
    def pool(self):
        if self._pool is None:
            self._pool = mp.get_context("fork").Pool(NPROC)
        return self._pool

    def pmap(self, func, cases, chunksize=1, label=None):
        """Run func(case) -> case_result dict for every case, in worker processes; aggregate."""
        cases = list(cases)
        n = 0
        if not cases:
            return []
        results = []
        if NPROC <= 1 or len(cases) == 1:
            it = (_worker((func, c)) for c in cases)
        else:
            it = self.pool().imap_unordered(_worker, [(func, c) for c in cases], chunksize)
        n_inconc = n_dead = 0
        for r in it:
            self.absorb(r)
            results.append(r)
            n += 1
            if r.get("inconc", 0) > 0:
                n_inconc += 1
            if r.get("evals", 1) == 0 and not r.get("skipped", 0):
                n_dead += 1
        # a monitor most of whose cases are inconclusive (or ran nothing) has decided nothing: that is never "held"
        mon = self.monitors.setdefault(label or getattr(func, "__name__", "?"), {"cases": 0, "inconclusive_cases": 0, "cases_without_any_run": 0})
        mon["cases"] += n
        mon["inconclusive_cases"] += n_inconc
        mon["cases_without_any_run"] += n_dead
        if label:
            print(f"[{self.prop}] {label}: {n} cases, {time.time()-self.t0:.0f}s elapsed, "
                  f"{len(self.violations)} unlisted violations, {sum(c for _, c, _ in self.known_hits.values())} known hits",
                  file=sys.stderr)
        return results

    def absorb(self, r):
        self.evaluations += r.get("evals", 1)
        k = r.get("key")
        if k is not None:
            self.keys_all.add(k)
            if r.get("nontrivial"):
                self.keys_nontrivial.add(k)
        for nk in r.get("nontrivial_keys", ()):  # a case may carry many distinct sub-cases
            self.keys_nontrivial.add(nk)
        self.inconclusive += r.get("inconc", 0)
        self.skipped += r.get("skipped", 0)
        for s, c in r.get("stats", {}).items():
            if isinstance(c, (int, float)):
                self.stats[s] = self.stats.get(s, 0) + c
            elif isinstance(c, (list, set, tuple)):
                self.stats.setdefault(s, set())
                self.stats[s] |= set(c)
        if r.get("sample") is not None and len(self.samples) < self.sample_cap:
            self.samples.append(_jsonable(r["sample"]))
        if r.get("exception"):
            self.exceptions.append((r.get("case"), r["exception"]))
        for v in r.get("viol", []):
            self.add_violation(v["sig"], v["what"], v.get("detail"))

    def add_violation(self, sig, what, detail=None):
        for f in self.findings:
            if finding_matches(f, sig):
                fid = f["id"]
                if fid in self.known_hits:
                    ff, c, ex = self.known_hits[fid]
                    self.known_hits[fid] = (ff, c + 1, ex)
                else:
                    self.known_hits[fid] = (f, 1, {"sig": sig, "what": what})
                return
        self.violations.append({"sig": sig, "what": what, "detail": detail or {}})

    def note_sample(self, s):
        if len(self.samples) < self.sample_cap:
            self.samples.append(_jsonable(s))

    # ---- finish -----------------------------------------------------------------------
    def finish(self):
        if self._pool is not None:
            self._pool.close()
            self._pool.join()
        wall = time.time() - self.t0
        wdir = os.path.join(EVID, "witness", self.prop)
        shutil.rmtree(wdir, ignore_errors=True)
        lines = []
        for fid, (f, c, ex) in sorted(self.known_hits.items()):
            lines.append(f"KNOWN-FINDING: property={self.prop} {fid} {f['what']} (seen {c}x this run)")
        # distinct unlisted violations by signature
        bysig = {}
        for v in self.violations:
            k = json.dumps(_jsonable(v["sig"]), sort_keys=True)
            bysig.setdefault(k, []).append(v)
        n = 0
        for k, vs in list(bysig.items())[:25]:
            os.makedirs(wdir, exist_ok=True)
            path = os.path.join(wdir, f"{n:03d}.json")
            with open(path, "w") as fh:
                json.dump(_jsonable({"property": self.prop, "sig": vs[0]["sig"], "what": vs[0]["what"],
                                     "count_same_sig": len(vs), "detail": vs[0]["detail"],
                                     "seed": self.seed, "tier": self.tier}), fh, indent=1)
            lines.append(f"VIOLATION property={self.prop} replay={path}")
            print(f"[{self.prop}] violation: {vs[0]['what']}  sig={k} (x{len(vs)})", file=sys.stderr)
            n += 1
        for case, exc in self.exceptions[:5]:
            print(f"[{self.prop}] HARNESS EXCEPTION in case {case}:\n{exc}", file=sys.stderr)

        stats = {k: (sorted(v) if isinstance(v, set) else v) for k, v in self.stats.items()}
        cov = {
            "evaluations": int(self.evaluations),
            "distinct_nontrivial": len(self.keys_nontrivial),
            "distinct_cases": len(self.keys_all),
            "rule": self.rule,
            "samples": self.samples[: self.sample_cap] or ["(none)"],
            "inconclusive": int(self.inconclusive),
            "skipped_out_of_domain": int(self.skipped),
            "known_findings_hit": {fid: c for fid, (f, c, ex) in self.known_hits.items()},
            "unlisted_violation_signatures": len(bysig),
            "observed": _jsonable(stats),
            "monitors": _jsonable(self.monitors),
        }
        if self.exhaustive is not None:
            cov["exhaustive"] = bool(self.exhaustive)
        cov.update(_jsonable(self.extra))
        ev = {
            "property_id": self.prop,
            "tier": self.tier,
            "seed": int(self.seed),
            "level": self.level,
            "coverage": cov,
            "assumptions": self.assumptions,
            "wall_s": round(wall, 2),
            "violations": len(self.violations),
        }
        os.makedirs(EVID, exist_ok=True)
        tmp = os.path.join(EVID, f".{self.prop}.json.tmp")
        with open(tmp, "w") as fh:
            json.dump(ev, fh, indent=1)
        os.replace(tmp, os.path.join(EVID, f"{self.prop}.json"))

        for l in lines:
            print(l)
        sys.stdout.flush()
        print(f"[{self.prop}] tier={self.tier} seed={self.seed} evaluations={self.evaluations} "
              f"distinct_nontrivial={len(self.keys_nontrivial)} inconclusive={self.inconclusive} "
              f"skipped={self.skipped} violations={len(self.violations)} known={len(self.known_hits)} "
              f"wall={wall:.0f}s", file=sys.stderr)
        if self.violations:
            return 1
        if self.exceptions:
            print(f"[{self.prop}] BROKEN: {len(self.exceptions)} harness exceptions", file=sys.stderr)
            return 2
        for name, mon in self.monitors.items():
            if mon["cases"] >= 10 and mon["inconclusive_cases"] * 2 > mon["cases"]:
                print(f"[{self.prop}] BROKEN: monitor '{name}' was inconclusive in {mon['inconclusive_cases']} of {mon['cases']} cases "
                      f"(no verdict; re-run on a quieter machine)", file=sys.stderr)
                return 2
        if self.evaluations == 0 or len(self.keys_nontrivial) < 2:
            print(f"[{self.prop}] BROKEN: the run observed nothing non-trivial", file=sys.stderr)
            return 2
        return 0
