"""Build mlr from /repo's current working tree (never writes into /repo).

parser.go in /repo is an emptied file; it is regenerated from mlr.bnf with the
pgpg generators in the module cache, cached by content hash under
/verif/.cache, and substituted with `go build -overlay`.
"""
import fcntl
import hashlib
import json
import os
import subprocess
import sys
import time

VERIF = os.path.dirname(os.path.dirname(os.path.abspath(__file__)))
REPO = os.environ.get("VERIF_REPO", "/repo")
BUILD = os.environ.get("VERIF_BUILD_DIR") or os.path.join(VERIF, ".build")
CACHE = os.path.join(VERIF, ".cache")

PARSER_GO = "pkg/parsing/parser/parser.go"
BNF = "pkg/parsing/mlr.bnf"
PGPG = "github.com/johnkerl/pgpg/go/generators/cmd"

BINARIES = {
    # name: (extra go build flags)
    "mlr-verif": ["-tags", "verif"],
    "mlr-race": ["-race", "-tags", "verif"],
    "mlr-plain": [],
}


class BuildError(Exception):
    pass


def goenv():
    env = dict(os.environ)
    env["GOFLAGS"] = "-mod=mod"
    env["GOPROXY"] = "off"
    env.pop("GOSUMDB", None)
    env.pop("GOTOOLCHAIN", None)
    env["GOCACHE"] = os.environ.get("GOCACHE", os.path.expanduser("~/.cache/go-build"))
    env["CGO_ENABLED"] = env.get("CGO_ENABLED", "1")
    return env


def goenv_local():
    env = goenv()
    env["GOTOOLCHAIN"] = "local"
    env["GOSUMDB"] = "off"
    return env


def _go_candidates():
    # (argv0, env) in order of preference
    return [("go", goenv()), ("go1.26.8", goenv_local())]


_GO = None


def pick_go():
    """Find a go command that can build in /repo offline."""
    global _GO
    if _GO is not None:
        return _GO
    last = ""
    for argv0, env in _go_candidates():
        try:
            p = subprocess.run([argv0, "list", "-m"], cwd=REPO, env=env,
                               capture_output=True, text=True, timeout=300)
        except FileNotFoundError as e:
            last = str(e)
            continue
        if p.returncode == 0:
            _GO = (argv0, env)
            return _GO
        last = p.stderr
    raise BuildError("no usable go toolchain: " + last)


def _sha(paths):
    h = hashlib.sha256()
    for p in paths:
        with open(p, "rb") as f:
            h.update(f.read())
        h.update(b"\0")
    h.update(b"pgpg-v1.0.0")
    return h.hexdigest()[:24]


def ensure_parser(log=sys.stderr):
    """Return path of a non-empty parser.go (either /repo's or a generated one)."""
    repo_parser = os.path.join(REPO, PARSER_GO)
    if os.path.exists(repo_parser) and os.path.getsize(repo_parser) > 1000:
        return None  # tree has its own parser; no overlay needed
    key = _sha([os.path.join(REPO, BNF)])
    out_go = os.path.join(CACHE, f"parser-{key}.go")
    if os.path.exists(out_go) and os.path.getsize(out_go) > 1000:
        return out_go
    os.makedirs(CACHE, exist_ok=True)
    argv0, env = pick_go()
    tmp_json = os.path.join(CACHE, f"parser-{key}.json.tmp")
    tmp_go = out_go + ".tmp"
    t0 = time.time()
    print(f"[build] generating parser from mlr.bnf (key {key}) ...", file=log)
    p = subprocess.run([argv0, "run", f"{PGPG}/parsegen-tables", "-o", tmp_json,
                        os.path.join(REPO, BNF)], cwd=REPO, env=env,
                       capture_output=True, text=True)
    if p.returncode != 0:
        raise BuildError("parsegen-tables failed:\n" + p.stdout + p.stderr)
    p = subprocess.run([argv0, "run", f"{PGPG}/parsegen-code", "-o", tmp_go,
                        "-package", "parser", "-type", "MlrParser", tmp_json],
                       cwd=REPO, env=env, capture_output=True, text=True)
    if p.returncode != 0:
        raise BuildError("parsegen-code failed:\n" + p.stdout + p.stderr)
    os.rename(tmp_go, out_go)
    try:
        os.unlink(tmp_json)
    except OSError:
        pass
    print(f"[build] parser generated in {time.time()-t0:.0f}s", file=log)
    return out_go


def _tree_stamp():
    """Cheap fingerprint of /repo's Go sources (mtime+size), to skip no-op builds."""
    h = hashlib.sha256()
    for root in ("cmd", "pkg"):
        for d, dirs, files in os.walk(os.path.join(REPO, root)):
            dirs.sort()
            for f in sorted(files):
                if f.endswith((".go", ".bnf", ".json")):
                    p = os.path.join(d, f)
                    try:
                        st = os.stat(p)
                    except OSError:
                        continue
                    h.update(f"{p}:{st.st_mtime_ns}:{st.st_size}\n".encode())
    for f in ("go.mod", "go.sum"):
        try:
            st = os.stat(os.path.join(REPO, f))
            h.update(f"{f}:{st.st_mtime_ns}:{st.st_size}\n".encode())
        except OSError:
            pass
    extra = os.environ.get("VERIF_EXTRA_OVERLAY", "")
    h.update(extra.encode())
    if extra and os.path.exists(extra):
        try:
            with open(extra) as f:
                ov = json.load(f)
            for k, v in sorted(ov.get("Replace", {}).items()):
                st = os.stat(v)
                h.update(f"{k}:{v}:{st.st_mtime_ns}:{st.st_size}\n".encode())
        except (OSError, ValueError):
            pass
    return h.hexdigest()


def ensure_built(which=("mlr-verif",), log=sys.stderr):
    """Build the named binaries from /repo's working tree. Returns dict name->path."""
    os.makedirs(BUILD, exist_ok=True)
    lockf = open(os.path.join(BUILD, "lock"), "w")
    fcntl.flock(lockf, fcntl.LOCK_EX)
    try:
        parser = ensure_parser(log)
        overlay = {"Replace": {}}
        if parser:
            overlay["Replace"][os.path.join(REPO, PARSER_GO)] = parser
        extra = os.environ.get("VERIF_EXTRA_OVERLAY")
        if extra:
            with open(extra) as f:
                overlay["Replace"].update(json.load(f).get("Replace", {}))
        ov_path = os.path.join(BUILD, "overlay.json")
        with open(ov_path, "w") as f:
            json.dump(overlay, f)
        stamp = _tree_stamp()
        argv0, env = pick_go()
        out = {}
        for name in which:
            flags = BINARIES[name]
            dst = os.path.join(BUILD, name)
            stamp_file = dst + ".stamp"
            if os.path.exists(dst) and os.path.exists(stamp_file):
                if open(stamp_file).read() == stamp:
                    out[name] = dst
                    continue
            t0 = time.time()
            cmd = [argv0, "build"] + flags + ["-overlay", ov_path, "-o", dst + ".new", "./cmd/mlr"]
            p = subprocess.run(cmd, cwd=REPO, env=env, capture_output=True, text=True)
            if p.returncode != 0:
                raise BuildError(f"go build {name} failed:\n{p.stdout}{p.stderr}")
            os.replace(dst + ".new", dst)
            with open(stamp_file, "w") as f:
                f.write(stamp)
            print(f"[build] {name} built in {time.time()-t0:.0f}s", file=log)
            out[name] = dst
        return out
    finally:
        fcntl.flock(lockf, fcntl.LOCK_UN)
        lockf.close()


def binpath(name):
    return os.path.join(BUILD, name)


if __name__ == "__main__":
    try:
        r = ensure_built(tuple(sys.argv[1:]) or tuple(BINARIES))
        print(json.dumps(r, indent=1))
    except BuildError as e:
        print(str(e), file=sys.stderr)
        sys.exit(2)
