"""C13 - join pairs exactly the matching records and accounts for every record once.

Monitors (DESIGN.md section 3, C13):
  a  random (L, R, options) cases: the output SEQUENCE of unsorted `join` must equal a Python
     nested-loop join written from reference-verbs.md#join / questions-about-joins.md / `join --help`
     (pairing by key TEXT, composition join-fields / left non-join / right non-join with
     --lp/--rp/--lk, -l/-r/-j renaming, unpaired emission, --np, --ignore-empty, left-file formats,
     batch sizes, right stream on stdin / 1 file / 2 files);
     plus a set-based relational / exactly-once check over unique lid/rid ids that does not use the
     model's composition code;
     plus, on key-sorted inputs, `-s` output == default output as multisets (per-identity equality).
  g  grid: all 2^5 combinations of {np, ul, ur, s, ignore-empty} x (L, R) pairs (one pair multi-batch).
  b  batch-boundary / bucket-transition runs: sorted sides with multiplicities {0,1,2,many} per key and side,
     runs ending on / next to / across each reader-batch boundary; -s, default mode and -u.
  n  -s on unsorted input: only the order-independent obligations (see assumptions).
  d  doc-replay of the join examples in reference-verbs.md and questions-about-joins.md.
"""
import hashlib
import json
import random

from .. import gen
from .. import run as R
from ..harness import add_violation, bump, case_result
from ..model import docblocks as docreplay

BINARIES = ("mlr-verif",)
LEVEL = "exploration"


def _h(*xs):
    return hashlib.sha1(repr(xs).encode()).hexdigest()[:16]


# ==========================================================================================
# reference model (ordered lists of (name, value-text) pairs; no Miller code consulted)

class Opts:
    """j/l/r: output / left / right join-field names (equal length); lp/rp: prefix or None;
    lk: list of left field names to keep or None; np/ul/ur/ie/s: flags."""

    def __init__(self, j, l=None, r=None, lp=None, rp=None, lk=None, np=False, ul=False, ur=False,
                 ie=False, s=False):
        self.j = list(j)
        self.l = list(l) if l is not None else list(j)
        self.r = list(r) if r is not None else list(j)
        self.lp, self.rp, self.lk = lp, rp, lk
        self.np, self.ul, self.ur, self.ie, self.s = np, ul, ur, ie, s
        self.joined = False     # diagnostic variant only: keys collide when their comma-joined texts are equal


def _key(rec, names, ie):
    d = dict(rec)
    vals = []
    for n in names:
        if n not in d:
            return None
        if ie and d[n] == "":
            return None
        vals.append(d[n])
    return tuple(vals)


def _put(out, name, value):
    """Ordered-dict put: an existing name keeps its position and gets the new value."""
    for i, (n, _) in enumerate(out):
        if n == name:
            out[i] = (name, value)
            return
    out.append((name, value))


def _left_keep(rec, o):
    if o.lk is None:
        return list(rec)
    keep = set(o.lk) | set(o.l)
    return [(n, v) for n, v in rec if n in keep]


def _unpaired(rec, side_names, o, prefix):
    out = []
    for n, v in rec:
        if n in side_names:
            _put(out, o.j[side_names.index(n)], v)
        else:
            _put(out, (prefix or "") + n, v)
    return out


def _pair(lrec, rrec, key, o):
    out = []
    ld = dict(lrec)
    for i, jn in enumerate(o.j):
        _put(out, jn, ld[o.l[i]])
    for n, v in lrec:
        if n not in o.l:
            _put(out, (o.lp or "") + n, v)
    for n, v in rrec:
        if n not in o.r:
            _put(out, (o.rp or "") + n, v)
    return out


def join_model(L, Rr, o):
    """-> list of (ident, record) in the documented unsorted-mode emission order.
    ident = ("P", li, ri) | ("L", li) | ("R", ri) with li/ri = input positions."""
    buckets = {}          # key -> [paired?, [(li, rec)...]]   (dict keeps first-appearance order)
    keyless = []
    if o.joined:
        def keyf(rec, names, ie):    # diagnostic variant
            k = _key(rec, names, ie)
            return None if k is None else (",".join(k),)
    else:
        keyf = _key
    for li, rec in enumerate(L):
        rec2 = _left_keep(rec, o)
        k = keyf(rec, o.l, o.ie)
        if k is None:
            keyless.append((li, rec2))
        else:
            buckets.setdefault(k, [False, []])[1].append((li, rec2))
    out = []
    for ri, rec in enumerate(Rr):
        k = keyf(rec, o.r, o.ie)
        if k is not None and k in buckets:
            b = buckets[k]
            b[0] = True
            if not o.np:
                for li, lrec in b[1]:
                    out.append((("P", li, ri), _pair(lrec, rec, k, o)))
        elif o.ur:
            out.append((("R", ri), _unpaired(rec, o.r, o, o.rp)))
    if o.ul:
        for k, (paired, recs) in buckets.items():
            if not paired:
                for li, lrec in recs:
                    out.append((("L", li), _unpaired(lrec, o.l, o, o.lp)))
        for li, lrec in keyless:
            out.append((("L", li), _unpaired(lrec, o.l, o, o.lp)))
    return out


# ==========================================================================================
# generators

KEY_ATOMS = [
    ["1", "2", "3", "4", "5", "6"],
    ["a", "b", "c", "d", "e", "f"],
    ["1", "01", "1.0", "1e0", "0x1", "+1"],          # numerically equal, textually distinct
    ["x", "X", "xx", "x.", "-", "0"],
    ["pan", "Pan", "pa", "pan_", "0.10", "0.1"],
    ["true", "TRUE", "NaN", "-0", "0", "0.0"],
    ["é", "é", "中", "z", "Z", "\U0001F600"],
]
COMMA_ATOMS = ["a,b", "a", "b,c", "c", "b", "a,b,c", ",", ""]
SHARED = ["a", "b", "c", "v", "w"]
LEFT_ONLY = ["p", "q"]
RIGHT_ONLY = ["s", "t"]
VALS = ["1", "2", "x", "", "0.50", "7", "hello", "0xff", "-3", "yy"]
PLAIN_LFMTS = ("nidx", "xtab", "pprint", "markdown")


def _nonjoin_names(rng, names_pool, extra_names, jnames, width, idprefix):
    """Non-join, non-id field names of one record (or of a homogeneous side's layout).
    width["target"] = exact number of such names (with >= 1 name shared between the sides), so that the composed
    paired record lands on a chosen width around the 12-field key-index threshold."""
    t = width.get("target")
    if t is not None:
        nn = rng.sample(SHARED, max(1, min(len(SHARED), t, rng.randint(1, 4)))) if t > 0 else []
        nn += [f"{idprefix}f{i}" for i in range(t - len(nn))]
        rng.shuffle(nn)
    else:
        nn = rng.sample(names_pool, rng.randint(0, min(4, len(names_pool))))
    # sometimes a field named like the OTHER side's join field, or like an OUTPUT join field
    # (a plain non-join field on this side)
    for on, p in extra_names:
        if on not in jnames and on not in nn and rng.random() < p:
            nn.append(on)
    return nn


def _gen_side(rng, n, jnames, extra_names, pool, idname, idprefix, own, homog, miss_p, empty_p, width,
              vals=None, keyseq=None):
    """Records for one side.  extra_names = [(name, probability)] of non-join names beyond the pools;
    width = {"pad": k extra fields | 0, "target": exact number of non-join names | None};
    keyseq = optional list of {join name: value} dicts (one per record, possibly partial) instead of random keys."""
    names_pool = SHARED + own
    vals = vals or VALS
    pad = width.get("pad", 0)
    recs = []
    if keyseq is not None:
        n = len(keyseq)
    # homogeneous sides fix a layout once
    layout = None
    if homog:
        nn = _nonjoin_names(rng, names_pool, [(on, min(1.0, p * 4)) for on, p in extra_names], jnames, width, idprefix)
        layout = list(jnames) + nn + [idname]
        layout += [f"{idprefix}w{i}" for i in range(pad)]
        rng.shuffle(layout)
    for i in range(n):
        fields = []
        keyvals = {}
        if keyseq is not None:
            keyvals = dict(keyseq[i])
        else:
            for jn in jnames:
                if not homog and rng.random() < miss_p:
                    continue
                keyvals[jn] = "" if rng.random() < empty_p else rng.choice(pool)
        if homog:
            for nm in layout:
                if nm in keyvals:
                    fields.append((nm, keyvals[nm]))
                elif nm in jnames:
                    fields.append((nm, rng.choice(pool)))
                elif nm == idname:
                    fields.append((nm, f"{idprefix}{i+1}"))
                else:
                    fields.append((nm, rng.choice(vals)))
        else:
            nn = _nonjoin_names(rng, names_pool, extra_names, jnames, width, idprefix)
            items = [(nm, rng.choice(vals)) for nm in nn] + [(idname, f"{idprefix}{i+1}")]
            if pad and rng.random() < 0.5:
                items += [(f"{idprefix}w{k}", str(rng.randint(0, 9))) for k in range(pad)]
            items += list(keyvals.items())
            rng.shuffle(items)
            # join fields are usually first, as in real data, but not always
            if rng.random() < 0.5:
                items.sort(key=lambda kv: 0 if kv[0] in keyvals else 1)
            fields = items
        recs.append(fields)
    return recs


def _sort_by_key(recs, names):
    """Stable sort of the keyed records by key tuple (lexical = code point = UTF-8 byte order);
    key-less records keep their positions relative to their neighbours' slots."""
    keyed_idx = [i for i, r in enumerate(recs) if _key(r, names, False) is not None]
    keyed = sorted((recs[i] for i in keyed_idx), key=lambda r: _key(r, names, False))
    out = list(recs)
    for slot, rec in zip(keyed_idx, keyed):
        out[slot] = rec
    return out


def _render(recs, fmt):
    """Left/right file text in a format; fmt is a dict(kind=..., ifs=..., ips=...)."""
    kind = fmt["kind"]
    if kind == "dkvp":
        return gen.dkvp(recs, ofs=fmt.get("ifs", ","), ops=fmt.get("ips", "="))
    if kind == "json":
        if not recs and fmt.get("empty_as_nothing"):
            return ""
        return gen.json_text(recs)
    if kind in ("csv", "tsv"):
        sep = "," if kind == "csv" else "\t"
        if not recs:
            return ""
        lines = []
        if not fmt.get("implicit"):
            lines.append(sep.join(k for k, _ in recs[0]))
        for r in recs:
            lines.append(sep.join(v for _, v in r))
        return "\n".join(lines) + "\n"
    if kind == "csvlite":
        # schema change = blank line + new header (file-formats.md, "CSV-lite ... schema change")
        lines = []
        prev = None
        for r in recs:
            hdr = [k for k, _ in r]
            if hdr != prev:
                if prev is not None:
                    lines.append("")
                lines.append(",".join(hdr))
                prev = hdr
            lines.append(",".join(v for _, v in r))
        return "\n".join(lines) + "\n" if lines else ""
    if kind == "nidx":
        return "".join(" ".join(v for _, v in r) + "\n" for r in recs)
    if kind == "xtab":
        # one "name value" line per field, records separated by a blank line; aligned or not
        blocks = []
        for r in recs:
            w = max(len(k) for k, _ in r) if fmt.get("align") else 0
            blocks.append("".join(f"{k.ljust(w)} {v}\n" for k, v in r))
        return "\n".join(blocks)
    if kind == "pprint":
        # like CSV-lite with runs of spaces; schema change = blank line + new header
        groups = []
        for r in recs:
            hdr = [k for k, _ in r]
            if not groups or groups[-1][0] != hdr:
                groups.append((hdr, []))
            groups[-1][1].append([v for _, v in r])
        blocks = []
        for hdr, rows in groups:
            if fmt.get("align"):
                ws = [max(len(x[i]) for x in [hdr] + rows) for i in range(len(hdr))]
                blocks.append("".join(" ".join(x[i].ljust(ws[i]) for i in range(len(hdr))).rstrip(" ") + "\n"
                                      for x in [hdr] + rows))
            else:
                blocks.append("".join(" ".join(x) + "\n" for x in [hdr] + rows))
        return "\n".join(blocks)
    if kind == "markdown":
        if not recs:
            return ""
        hdr = [k for k, _ in recs[0]]
        lines = ["| " + " | ".join(hdr) + " |", "| " + " | ".join("---" for _ in hdr) + " |"]
        for r in recs:
            lines.append("| " + " | ".join(v for _, v in r) + " |")
        return "\n".join(lines) + "\n"
    raise ValueError(kind)


def _plain_ok(recs, kind):
    """nidx / xtab / pprint / markdown carry neither an empty record nor empty or space-bearing texts;
    "-" is PPRINT's spelling of an empty value."""
    for r in recs:
        if not r:
            return False
        for k, v in r:
            if k == "" or v == "" or " " in k + v or "|" in k + v:
                return False
            if kind == "pprint" and (v == "-" or k == "-"):
                return False
    return True


def _csvlite_ok(recs):
    """csvlite cannot carry a record with no fields, nor a data line that is entirely empty."""
    for r in recs:
        if not r:
            return False
        if len(r) == 1 and r[0][1] == "":
            return False
    return True


def build_case(rng, forced=None):
    """One (L, R, options, formats) case as plain data.  forced: dict of flag overrides (grid)."""
    forced = forced or {}
    nkeys = rng.choices([1, 2, 0], [72, 24, 4])[0]
    comma = rng.random() < 0.07
    if comma:
        nkeys = rng.choice([2, 2, 2, 1])
    mode = rng.choice(["j", "j", "j", "lj", "rj", "lrj", "lrj"])
    jn = ["k", "k2"][:nkeys]
    ln = ["lk", "lk2"][:nkeys] if mode in ("lj", "lrj") else None
    rn = ["rk", "rk2"][:nkeys] if mode in ("rj", "lrj") else None
    if nkeys == 2 and mode != "j" and rng.random() < 0.3:
        # rename only one of the two
        if ln:
            ln = [ln[0], jn[1]]
        if rn:
            rn = [jn[0], rn[1]]
    if nkeys == 0:
        ln = rn = None
    l_eff = ln if ln is not None else jn
    r_eff = rn if rn is not None else jn
    pool_size = rng.randint(1, 6)
    atoms = rng.choice(KEY_ATOMS)
    if comma:
        # key texts containing the comma: only JSON can carry them on both sides here
        atoms = COMMA_ATOMS
        pool_size = rng.randint(3, 6)
    pool = rng.sample(atoms, pool_size)
    nl = rng.choice([0, 1, 2, 3, 5, 8, 13, 21, 40]) if rng.random() < 0.5 else rng.randint(0, 40)
    nr = rng.choice([0, 1, 2, 3, 5, 8, 13, 21, 40]) if rng.random() < 0.5 else rng.randint(0, 40)
    if nkeys and (forced.get("big") or ("big" not in forced and rng.random() < 0.03)):
        # spans several reader batches on both sides (left-file reader of -s included)
        nl, nr = rng.randint(400, 1300), rng.randint(400, 1300)
        pool = [a + b for a in atoms for b in atoms] + [a + "~" + b for a in atoms for b in atoms[:3]]
    miss_p = rng.choice([0, 0.15, 0.15, 0.3])
    empty_p = rng.choice([0, 0.10, 0.10, 0.3])

    lfmt_name = rng.choice(["inherit"] * 8 + ["dkvp", "json", "csv", "csvlite", "tsv", "dkvp-seps", "csv-implicit",
                                              "csv-noimplicit", "nidx", "xtab", "pprint", "markdown"])
    main_fmt = rng.choice(["dkvp"] * 5 + ["json", "json", "csvlite"])
    if comma:
        main_fmt = "json"
        lfmt_name = rng.choice(["inherit", "json"])
    if "lfmt" in forced:
        lfmt_name = forced["lfmt"]
    if "main_fmt" in forced:
        main_fmt = forced["main_fmt"]
    if lfmt_name == "csv-noimplicit" and main_fmt == "csvlite":
        main_fmt = "dkvp"         # the main-level headerless flag used there would also strip the right stream's header
    l_homog = lfmt_name in ("csv", "tsv", "csv-implicit", "csv-noimplicit", "nidx", "markdown")
    vals = VALS
    if lfmt_name in PLAIN_LFMTS:
        # formats that cannot spell an empty text (and "-" is PPRINT's empty): keep both sides' texts plain
        empty_p = 0
        vals = [v for v in VALS if v]
        pool = [x for x in pool if x not in ("", "-")] or ["1"]
    # widths: `pad` extra fields per side (a side alone below / at / above the 12-field key-index threshold),
    # or exact widths so that the COMPOSED paired record has 10..16 fields before collisions
    lwidth, rwidth = {"pad": 0, "target": None}, {"pad": 0, "target": None}
    wsel = rng.random()
    if wsel < 0.15:
        lwidth["pad"] = rwidth["pad"] = rng.choice([5, 7, 8, 9, 10, 12])
    elif wsel < 0.30 or forced.get("cross12"):
        total = rng.choice([10, 11, 12, 12, 13, 13, 14, 15, 16])
        room = max(2, total - nkeys - 2)          # minus join fields and the two id fields
        ln_ = rng.randint(1, room - 1)
        lwidth["target"], rwidth["target"] = ln_, room - ln_
    # a non-join field NAMED like an output join field (only possible on a side whose join field is renamed)
    collide = nkeys and mode != "j" and (forced.get("collide") or rng.random() < 0.2)
    lextra = [(x, 0.12) for x in r_eff] + ([(x, 0.35) for x in jn] if collide else [])
    rextra = [(x, 0.12) for x in l_eff] + ([(x, 0.35) for x in jn] if collide else [])
    L = _gen_side(rng, nl, l_eff, lextra, pool, "lid", "l", LEFT_ONLY, l_homog, miss_p, empty_p, lwidth, vals)
    Rr = _gen_side(rng, nr, r_eff, rextra, pool, "rid", "r", RIGHT_ONLY, False, miss_p, empty_p, rwidth, vals)

    o = {"j": jn, "l": ln, "r": rn, "lp": None, "rp": None, "lk": None,
         "np": rng.random() < 0.25, "ul": rng.random() < 0.6, "ur": rng.random() < 0.6,
         "ie": rng.random() < 0.35, "s": rng.random() < 0.22, "u": False}
    if rng.random() < 0.3:
        o["lp"] = rng.choice(["L_", "left:", "x."])
    if rng.random() < 0.3:
        o["rp"] = rng.choice(["R_", "right:", "y."])
    if rng.random() < 0.25:
        cand = SHARED + LEFT_ONLY + ["nosuch"] + list(l_eff) + [x for x in jn if x not in l_eff]
        lk = rng.sample(cand, rng.randint(0, 4))
        if rng.random() < 0.8:
            lk.append("lid")
        o["lk"] = lk
    for k2, v in forced.items():
        if k2 in o:
            o[k2] = v
    if not o["s"] and rng.random() < 0.15:
        o["u"] = True

    # implicit header: the left file has positional names 1..n; the -l names become positions
    limplicit = None
    if lfmt_name in ("csv-implicit", "nidx"):
        if not L:
            lfmt_name = "csv" if lfmt_name == "csv-implicit" else lfmt_name
        else:
            names = [k for k, _ in L[0]]
            ren = {nm: str(i + 1) for i, nm in enumerate(names)}
            L = [[(ren[k], v) for k, v in r] for r in L]
            limplicit = ren
            new_l = [ren[x] for x in l_eff]
            if nkeys:
                o["l"] = new_l
            if o["lk"] is not None:
                o["lk"] = [ren.get(x, x) for x in o["lk"]]
            l_eff = new_l
    if o["s"]:
        L = _sort_by_key(L, l_eff)
        Rr = _sort_by_key(Rr, r_eff)
    batch = rng.choice([None, None, 1, 2, 3, 7, 500])
    right_via = rng.choice(["stdin", "file", "file", "two-files"])
    return {"L": L, "R": Rr, "o": o, "lfmt": lfmt_name, "main_fmt": main_fmt, "batch": batch,
            "right_via": right_via, "limplicit": limplicit, "keyclass": "comma" if comma else "plain",
            "opt_order_seed": rng.randint(0, 10**9), "su_mixed": rng.random() < 0.2}


def build_runs_case(rng, forced=None):
    """Directed at reader-batch boundaries and bucket transitions.  Both sides are built key by key in lexical key
    order, each key with a multiplicity from {0, 1, 2, many} on either side (so every cross-product shape and every
    one-sided bucket occurs), and whenever a side is within reach of its next batch boundary (every B records:
    500 by default, or --records-per-batch B) the run is sized to end exactly on / one before / one after the
    boundary or to straddle it.  -s runs use the sides as built (sorted); default-mode runs also shuffle them."""
    forced = forced or {}
    B = forced.get("B") or rng.choice([500, 500, 500, 500, 1, 2, 3, 5, 8])
    nkeys = rng.choice([1, 1, 1, 2])
    mode = rng.choice(["j", "j", "lj", "rj", "lrj"])
    jn = ["k", "k2"][:nkeys]
    ln = ["lk", "lk2"][:nkeys] if mode in ("lj", "lrj") else None
    rn = ["rk", "rk2"][:nkeys] if mode in ("rj", "lrj") else None
    l_eff = ln if ln is not None else jn
    r_eff = rn if rn is not None else jn

    def target():
        if B >= 100:
            return rng.choice([1, 1, 2, 2, 3]) * B + rng.choice([-2, -1, 0, 0, 1, 2, 4])
        return rng.randint(2, 30) * B + rng.choice([-1, 0, 0, 1])
    tl, tr = target(), target()
    small = rng.random()
    if small < 0.15:
        tl = rng.randint(0, 12)
    elif small < 0.30:
        tr = rng.randint(0, 12)
    sfx = {}

    def make_key(i):
        if i not in sfx:
            sfx[i] = rng.choice(["", "", "", "x", ".0", "\u00e9", "~"])
        if nkeys == 1:
            return (f"{i:05d}" + sfx[i],)
        return (f"{i // 3:05d}", "abc"[i % 3] + sfx[i])

    def mult(pos, tgt):
        if pos >= tgt or rng.random() > min(1.0, 3.0 * max(tgt, 1) / max(tl, tr, 1)):
            return 0
        m = rng.choice([0, 0, 1, 1, 1, 2, 2, 3, 5, 9])
        nb = (pos // B + 1) * B
        if B > 1 and pos < nb <= pos + 9:
            d = nb - pos
            m = rng.choice([d, d, d - 1, d + 1, d + rng.randint(2, 5), m])
        return max(0, m)
    keysL, keysR = [], []
    if rng.random() < 0.3:
        e = ("",) * nkeys                      # the empty key sorts first
        keysL += [e] * rng.choice([0, 1, 2]); keysR += [e] * rng.choice([0, 1, 2])
    i = 0
    while (len(keysL) < tl or len(keysR) < tr) and i < 40000:
        key = make_key(i)
        i += 1
        keysL += [key] * mult(len(keysL), tl)
        keysR += [key] * mult(len(keysR), tr)

    lfmt_name = rng.choice(["inherit"] * 5 + ["dkvp", "json", "csv", "tsv"])
    main_fmt = rng.choice(["dkvp"] * 4 + ["json"])
    l_homog = lfmt_name in ("csv", "tsv")

    def keyseq(keys, names, keyless_ok):
        out = [dict(zip(names, k)) for k in keys]
        if keyless_ok and out:
            for _ in range(rng.choice([0, 0, 1, 3, 8])):
                out.insert(rng.randint(0, len(out)), {} if nkeys == 1 or rng.random() < 0.5 else {names[0]: "00000"})
        return out
    width = {"pad": 0, "target": None}
    collide = mode != "j" and rng.random() < 0.15
    lextra = [(x, 0.1) for x in jn] if collide else []
    L = _gen_side(rng, 0, l_eff, lextra, ["0"], "lid", "l", LEFT_ONLY, l_homog, 0, 0, width, VALS,
                  keyseq=keyseq(keysL, l_eff, not l_homog))
    Rr = _gen_side(rng, 0, r_eff, lextra, ["0"], "rid", "r", RIGHT_ONLY, False, 0, 0, width, VALS,
                   keyseq=keyseq(keysR, r_eff, True))
    o = {"j": jn, "l": ln, "r": rn, "lp": None, "rp": None, "lk": None,
         "np": rng.random() < 0.2, "ul": rng.random() < 0.65, "ur": rng.random() < 0.65,
         "ie": rng.random() < 0.3, "s": rng.random() < 0.65, "u": False}
    if rng.random() < 0.2:
        o["lp"] = rng.choice(["L_", "left:"])
    if rng.random() < 0.2:
        o["rp"] = rng.choice(["R_", "right:"])
    for k2, v in forced.items():
        if k2 in o:
            o[k2] = v
    if o["np"] and not o["ul"] and not o["ur"]:
        o["ul"] = True
    if not o["s"]:
        o["u"] = rng.random() < 0.4
        if rng.random() < 0.5:
            rng.shuffle(L)
        if rng.random() < 0.5:
            rng.shuffle(Rr)
    return {"L": L, "R": Rr, "o": o, "lfmt": lfmt_name, "main_fmt": main_fmt, "batch": None if B == 500 else B,
            "right_via": rng.choice(["stdin", "file", "file", "two-files"]), "limplicit": None, "keyclass": "plain",
            "opt_order_seed": rng.randint(0, 10**9), "su_mixed": rng.random() < 0.2,
            "shape": f"B{B}"}


def _argv_and_files(c, sorted_mode):
    """-> (argv, files, stdin, skipped_reason)"""
    o = c["o"]
    rng = random.Random(c["opt_order_seed"])
    L, Rr = c["L"], c["R"]
    main_fmt = c["main_fmt"]
    lfmt_name = c["lfmt"]
    main = []
    if c["batch"] is not None:
        main += ["--records-per-batch", str(c["batch"])]
    if main_fmt == "json":
        main += ["--ijson"]
        rfmt = {"kind": "json"}
    elif main_fmt == "csvlite":
        main += ["--icsvlite"]
        rfmt = {"kind": "csvlite"}
        if not _csvlite_ok(Rr):
            return None, None, None, "csvlite cannot carry this right stream"
    else:
        rfmt = {"kind": "dkvp"}
    main += ["--ojson", "--jvquoteall", "--no-auto-unflatten", "--no-auto-flatten"]
    left_flags = []
    if lfmt_name == "inherit":
        lfmt = dict(rfmt)
    elif lfmt_name == "dkvp":
        lfmt = {"kind": "dkvp"}
        left_flags = rng.choice([["-i", "dkvp"], ["--idkvp"]])
    elif lfmt_name == "json":
        lfmt = {"kind": "json"}
        left_flags = rng.choice([["-i", "json"], ["--ijson"]])
    elif lfmt_name == "csv":
        lfmt = {"kind": "csv"}
        left_flags = rng.choice([["-i", "csv"], ["--icsv"]])
    elif lfmt_name == "csvlite":
        lfmt = {"kind": "csvlite"}
        left_flags = rng.choice([["-i", "csvlite"], ["--icsvlite"]])
    elif lfmt_name == "tsv":
        lfmt = {"kind": "tsv"}
        left_flags = rng.choice([["-i", "tsv"], ["--itsv"]])
    elif lfmt_name == "dkvp-seps":
        lfmt = {"kind": "dkvp", "ifs": ";", "ips": ":"}
        left_flags = ["-i", "dkvp", "--ifs", ";", "--ips", ":"]
    elif lfmt_name == "csv-implicit":
        lfmt = {"kind": "csv", "implicit": True}
        left_flags = ["-i", "csv", "--implicit-csv-header"]
    elif lfmt_name == "csv-noimplicit":
        # join --help: a headerless main option is inherited by the left file unless overridden after `join`
        lfmt = {"kind": "csv"}
        main += ["--implicit-csv-header"]
        left_flags = ["-i", "csv", "--no-implicit-csv-header"]
    elif lfmt_name == "nidx":
        lfmt = {"kind": "nidx"}
        left_flags = rng.choice([["-i", "nidx"], ["--inidx"]])
    elif lfmt_name == "xtab":
        lfmt = {"kind": "xtab", "align": rng.random() < 0.5}
        left_flags = rng.choice([["-i", "xtab"], ["--ixtab"]])
    elif lfmt_name == "pprint":
        lfmt = {"kind": "pprint", "align": rng.random() < 0.5}
        left_flags = rng.choice([["-i", "pprint"], ["--ipprint"]])
    elif lfmt_name == "markdown":
        lfmt = {"kind": "markdown"}
        left_flags = rng.choice([["-i", "markdown"], ["--imd"], ["--imarkdown"]])
    else:
        raise ValueError(lfmt_name)
    if lfmt["kind"] == "csvlite" and not _csvlite_ok(L):
        return None, None, None, "csvlite cannot carry this left file"
    if lfmt["kind"] in PLAIN_LFMTS and not _plain_ok(L, lfmt["kind"]):
        return None, None, None, lfmt["kind"] + " cannot carry this left file"
    if lfmt["kind"] in ("csv", "tsv"):
        # a one-column file with an empty cell is a blank line (skipped by the reader)
        if any(len(r) == 1 and r[0][1] == "" for r in L):
            return None, None, None, "blank data line"
    if lfmt["kind"] == "dkvp" and lfmt.get("ifs"):
        for r in L:
            for k, v in r:
                if ";" in k + v or ":" in k + v:
                    return None, None, None, "separator in data"
    if lfmt["kind"] == "json" and not L:
        lfmt["empty_as_nothing"] = rng.random() < 0.5
    files = {"left.dat": _render(L, lfmt)}

    parts = [["-f", "left.dat"]]
    parts.append(["-j", ",".join(o["j"])])
    if o["l"] is not None:
        parts.append(["-l", ",".join(o["l"])])
    if o["r"] is not None:
        parts.append(["-r", ",".join(o["r"])])
    if o["lp"] is not None:
        parts.append(["--lp", o["lp"]])
    if o["rp"] is not None:
        parts.append(["--rp", o["rp"]])
    if o["lk"] is not None:
        parts.append([rng.choice(["--lk", "--left-keep-field-names"]), ",".join(o["lk"])])
    for flag, name in (("np", "--np"), ("ul", "--ul"), ("ur", "--ur"), ("ie", "--ignore-empty")):
        if o[flag]:
            parts.append([name])
    if sorted_mode:
        sflag = rng.choice(["-s", "--sorted-input"])
        if c.get("su_mixed"):
            # both mode flags: the docs do not say which wins; on key-sorted inputs either reading
            # must give the same multiset, and only that is judged
            parts.append(rng.choice([["-u", sflag], [sflag, "-u"]]))
        else:
            parts.append([sflag])
    elif o["u"]:
        parts.append(["-u"])
    if left_flags:
        parts.append(left_flags)
    rng.shuffle(parts)
    verb = ["join"] + [x for p in parts for x in p]
    wrap = rng.random()
    if wrap < 0.08:
        verb = ["cat", "then"] + verb            # join not first in the chain
    elif wrap < 0.16:
        verb = verb + ["then", "cat"]            # join's end-of-stream emission feeds another verb
    stdin = b""
    names = []
    if c["right_via"] == "stdin":
        stdin = _render(Rr, rfmt)
    elif c["right_via"] == "file":
        files["right.dat"] = _render(Rr, rfmt)
        names = ["right.dat"]
    else:
        cut = len(Rr) // 2
        files["right1.dat"] = _render(Rr[:cut], rfmt)
        files["right2.dat"] = _render(Rr[cut:], rfmt)
        names = ["right1.dat", "right2.dat"]
    return main + verb + names, files, stdin, None


# ==========================================================================================
# checking

def _flags_str(o, sorted_mode):
    fl = [f for f in ("np", "ul", "ur", "ie") if o[f]]
    if sorted_mode:
        fl.append("s")
    return "+".join(fl) or "-"


def _feat_str(c):
    o = c["o"]
    ft = []
    for f in ("lp", "rp", "lk"):
        if o[f] is not None:
            ft.append(f)
    if o["l"] is not None or o["r"] is not None:
        ft.append("ren")
    if len(o["j"]) != 1:
        ft.append(f"nkeys{len(o['j'])}")
    if c["lfmt"] != "inherit":
        ft.append("lfmt:" + c["lfmt"])
    if c["main_fmt"] != "dkvp":
        ft.append("main:" + c["main_fmt"])
    return "+".join(ft) or "-"


def _ident_of(rec, lidname, ridname, lpos, rpos):
    d = dict(rec)
    li = lpos.get(d.get(lidname)) if lidname in d else None
    ri = rpos.get(d.get(ridname)) if ridname in d else None
    if lidname in d and li is None or ridname in d and ri is None:
        return ("?",)
    if li is not None and ri is not None:
        return ("P", li, ri)
    if li is not None:
        return ("L", li)
    if ri is not None:
        return ("R", ri)
    return ("?",)


def _relational(L, Rr, mo, idents):
    """Set-based relational / exactly-once oracle over identities; independent of the composition
    code.  Returns list of (sub, message)."""
    out = []
    kl = [_key(r, mo.l, mo.ie) for r in L]
    kr = [_key(r, mo.r, mo.ie) for r in Rr]
    from collections import Counter
    cnt = Counter(idents)
    pairs = {i for i in cnt if i[0] == "P"}
    for i, c in cnt.items():
        if i[0] == "?":
            out.append(("unidentifiable", f"{c} output record(s) carry no known lid/rid"))
        elif c > 1:
            out.append(("duplicate-" + {"P": "pair", "L": "left", "R": "right"}[i[0]], f"{i} emitted {c} times"))
    for (_, li, ri) in sorted(pairs):
        if kl[li] is None or kr[ri] is None or kl[li] != kr[ri]:
            je = kl[li] is not None and kr[ri] is not None and ",".join(kl[li]) == ",".join(kr[ri])
            out.append(("paired-unequal-keys" + (":comma-joined-texts-equal" if je else ""),
                        f"left #{li} with join values {kl[li]} is paired with right #{ri} with join values {kr[ri]}"))
    if out and any(sub.startswith("paired-unequal-keys") for sub, _ in out):
        # root cause; the unpaired bookkeeping that follows from a wrong pairing is not reported separately
        return [x for x in out if x[0].startswith("paired-unequal-keys")]
    if mo.np and pairs:
        out.append(("np-emits-paired", f"{len(pairs)} paired records under --np"))
    lp_in_pairs = {li for (_, li, _) in pairs}
    rp_in_pairs = {ri for (_, _, ri) in pairs}
    right_keys = {k for k in kr if k is not None}
    left_keys = {k for k in kl if k is not None}
    if not mo.np:
        exp_pairs = {("P", li, ri) for li in range(len(L)) for ri in range(len(Rr))
                     if kl[li] is not None and kl[li] == kr[ri]}
        miss = exp_pairs - pairs
        if miss:
            out.append(("missing-pair", f"{len(miss)} matching (left,right) combinations not emitted, e.g. {sorted(miss)[0]}"))
    for li in range(len(L)):
        should = mo.ul and (kl[li] is None or kl[li] not in right_keys)
        have = cnt.get(("L", li), 0)
        if should and have == 0:
            out.append(("missing-unpaired-left", f"left #{li} (key {kl[li]}) unmatched but not emitted under --ul"))
        if not should and have:
            out.append(("extra-unpaired-left", f"left #{li} (key {kl[li]}) emitted as unpaired"
                        + ("" if mo.ul else " without --ul")))
    for ri in range(len(Rr)):
        should = mo.ur and (kr[ri] is None or kr[ri] not in left_keys)
        have = cnt.get(("R", ri), 0)
        if should and have == 0:
            out.append(("missing-unpaired-right", f"right #{ri} (key {kr[ri]}) unmatched but not emitted under --ur"))
        if not should and have:
            out.append(("extra-unpaired-right", f"right #{ri} (key {kr[ri]}) emitted as unpaired"
                        + ("" if mo.ur else " without --ur")))
    if mo.ul and mo.ur and not mo.np:
        for li in range(len(L)):
            if li not in lp_in_pairs and cnt.get(("L", li), 0) == 0:
                out.append(("lost-left", f"left #{li} appears nowhere under --ul --ur"))
        for ri in range(len(Rr)):
            if ri not in rp_in_pairs and cnt.get(("R", ri), 0) == 0:
                out.append(("lost-right", f"right #{ri} appears nowhere under --ul --ur"))
    return out


def _rec_diff(exp, got):
    en, gn = [k for k, _ in exp], [k for k, _ in got]
    if en == gn:
        return "values"
    if sorted(en) == sorted(gn):
        return "field-order"
    return "field-names"


def _comma_collision(c, mo):
    """Does the case contain two DISTINCT join-value tuples whose comma-joined texts are equal?"""
    seen = {}
    for rec, names in [(r, mo.l) for r in c["L"]] + [(r, mo.r) for r in c["R"]]:
        k = _key(rec, names, mo.ie)
        if k is None:
            continue
        j = ",".join(k)
        if seen.setdefault(j, k) != k:
            return True
    return False


def _join_values_and_collisions(ident, c, mo):
    """-> (jv, coll): jv = {output join-field name: the text this record's join field carries} for the join fields
    the input record(s) of `ident` have; coll = those output names that ALSO are the output name of one of the
    record's non-join fields.  The statement requires the join value under the output name; the docs give no rule
    for the payload field of that name, so on `coll` only the join value is judged (model-free) and the rest of
    the record is compared without those names."""
    jv, other = {}, set()
    if ident[0] in ("P", "L"):
        lrec = _left_keep(c["L"][ident[1]], mo)
        d = dict(lrec)
        for i, n in enumerate(mo.l):
            if n in d:
                jv[mo.j[i]] = d[n]
        other |= {(mo.lp or "") + n for n, _ in lrec if n not in mo.l}
    if ident[0] in ("P", "R"):
        rrec = c["R"][ident[-1]]
        d = dict(rrec)
        if ident[0] == "R":
            for i, n in enumerate(mo.r):
                if n in d:
                    jv[mo.j[i]] = d[n]
        other |= {(mo.rp or "") + n for n, _ in rrec if n not in mo.r}
    return jv, other & set(jv)


def _compare_records(res, c, mo, base, detail, idents, got, exp_by_ident, label):
    """Per-identity composition against the model.  Returns False if a composition failure other than the
    locally-judged join-value loss was reported (the caller then stops judging this run)."""
    flags, mode, feat = base["flags"], base["mode"], base["feat"]
    reported = set()
    for i, g in zip(idents, got):
        e = exp_by_ident.get(i)
        if e is None:
            add_violation(res, dict(base, kind="pairing", sub="ident-not-in-model"),
                          f"record {i} emitted but not expected by the model", detail)
            return False
        jv, coll = _join_values_and_collisions(i, c, mo)
        e2, g2 = e, g
        if coll:
            bump(res, "records_with_payload_named_like_output_join_field")
            gd = dict(g)
            lost = [n for n in sorted(coll) if gd.get(n) != jv[n]]
            if lost and "jvo" not in reported:
                reported.add("jvo")
                add_violation(res, dict(base, kind="composition", sub="join-value-overwritten", which=i[0]),
                              f"join {flags} ({mode}) {feat}: {'paired' if i[0]=='P' else 'unpaired'} record {i} does not carry its "
                              f"join value(s) { {n: jv[n] for n in lost} } under the output join-field name: a non-join field whose "
                              f"output name equals the -j name replaced it; got {g}",
                              dict(detail, expected_join_values=jv, got_record=g))
            e2 = [kv for kv in e if kv[0] not in coll]
            g2 = [kv for kv in g if kv[0] not in coll]
        if e2 != g2:
            sub = _rec_diff(e2, g2)
            if sub not in reported:
                reported.add(sub)
                add_violation(res, dict(base, kind="composition", sub=sub, which=i[0]),
                              f"join {flags} ({mode}) {feat}: {'paired' if i[0]=='P' else 'unpaired'} record composed wrongly ({sub}): "
                              f"expected {e2} got {g2}", dict(detail, expected_record=e, got_record=g))
    return not (reported - {"jvo"})


def _only_local_known(res):
    return all(v["sig"].get("sub") == "join-value-overwritten" for v in res["viol"])


def _check_run(res, c, sorted_mode, model_out, mo):
    """Check one run; a failure that is explained EXACTLY by the comma-joined-key defect (the output equals
    the model run with keys compared as comma-joined texts) is reported under that root cause only."""
    n0 = len(res["viol"])
    got = _check_run0(res, c, sorted_mode, model_out, mo)
    new = res["viol"][n0:]
    other = [v for v in new if v["sig"].get("sub") != "join-value-overwritten"]    # that one is judged without the model
    if other and got is not None and not sorted_mode and c["keyclass"] == "comma" \
            and _comma_collision(c, mo):
        alt = _model_opts(c["o"])
        alt.joined = True
        if [rec for _, rec in join_model(c["L"], c["R"], alt)] == got:
            first = other[0]
            res["viol"][n0:] = [v for v in new if v not in other]
            add_violation(res, {"kind": "pairing", "sub": "comma-joined-key-collision", "mode": "u"},
                          "join on >= 2 fields treats distinct join-value tuples as equal when their comma-joined texts "
                          "are equal, e.g. (\"a,b\",\"c\") pairs with (\"a\",\"b,c\"); first symptom: " + first["what"][:300],
                          first["detail"])
    return got


def _exec(res, c, sorted_mode, mode=None):
    """Run one join; -> (records, base sig, replay detail, flags text) or None when the run yields nothing to compare
    (skipped, inconclusive, refused option set, or a violation already reported)."""
    o = c["o"]
    argv, files, stdin, why = _argv_and_files(c, sorted_mode)
    if argv is None:
        res["skipped"] += 1
        return None
    r = R.mlr(argv, stdin=stdin, files=files)
    bump(res, "runs")
    flags, feat = _flags_str(o, sorted_mode), _feat_str(c)
    mode = mode or ("s" if sorted_mode else "u")
    detail = {"argv": argv, "files": files, "stdin": stdin}
    base = {"mode": mode, "flags": flags, "feat": feat, "keyclass": c["keyclass"]}
    if r.verdict == "slow":
        res["inconc"] += 1
        return None
    if r.verdict != "exited":
        add_violation(res, dict(base, kind="hang", sub=r.verdict, blocked="|".join(r.hang_sig or [])),
                      f"join does not terminate ({r.verdict}): mlr {' '.join(argv)}",
                      dict(detail, dump=(r.dump or "")[-4000:]))
        return None
    if r.crashed():
        add_violation(res, dict(base, kind="crash"), f"join crashes: mlr {' '.join(argv)}",
                      dict(detail, stderr=r.err[-3000:]))
        return None
    if o["np"] and not o["ul"] and not o["ur"] and r.rc == 1 and "no output is possible" in r.err and not r.stdout:
        # --np without --ul/--ur selects nothing; mlr refuses the option set with a diagnostic
        bump(res, "np_only_refused")
        return None
    if r.rc != 0:
        add_violation(res, dict(base, kind="status"), f"valid join exits {r.rc}: {r.err.strip()[:200]}",
                      dict(detail, stderr=r.err[-2000:]))
        return None
    try:
        got = [list(x) for x in gen.parse_json_records(r.out)]
        for g in got:
            for kv in g:
                if not (isinstance(kv, tuple) and isinstance(kv[1], str)):
                    raise ValueError("non-string value")
    except Exception as ex:   # noqa: BLE001
        add_violation(res, dict(base, kind="output-unparseable"), f"join output is not a flat JSON record list: {ex}",
                      dict(detail, got=r.out[:3000]))
        return None
    return got, base, detail, flags


def _id_maps(c):
    o = c["o"]
    lraw = c["limplicit"]["lid"] if c["limplicit"] else "lid"
    lidname = (o["lp"] or "") + lraw
    ridname = (o["rp"] or "") + "rid"
    lid_visible = o["lk"] is None or lraw in o["lk"]
    lpos = {dict(rec).get(lraw): i for i, rec in enumerate(c["L"])}
    rpos = {dict(rec)["rid"]: i for i, rec in enumerate(c["R"])}
    return lidname, ridname, lid_visible, lpos, rpos


def _check_run0(res, c, sorted_mode, model_out, mo):
    o = c["o"]
    x = _exec(res, c, sorted_mode)
    if x is None:
        return None
    got, base, detail, flags = x
    mode, feat = base["mode"], base["feat"]
    exp_recs = [rec for _, rec in model_out]
    lidname, ridname, lid_visible, lpos, rpos = _id_maps(c)
    expected_detail = {"expected": exp_recs[:200], "got": got[:200]}

    if lid_visible:
        idents = [_ident_of(g, lidname, ridname, lpos, rpos) for g in got]
        if ("?",) in idents:
            # the id fields are not where the documented naming puts them: a composition failure
            bad = got[idents.index(("?",))]
            add_violation(res, dict(base, kind="composition", sub="id-field-not-found"),
                          f"join {flags} ({mode}) {feat}: output record {bad} carries neither {lidname!r} nor {ridname!r} "
                          f"with a known id (prefix/rename/keep applied wrongly?)", dict(detail, **expected_detail))
            return got
        # (1) set-based relational / exactly-once oracle
        rel = _relational(c["L"], c["R"], mo, idents)
        seen = set()
        for sub, msg in rel:
            if sub in seen:
                continue
            seen.add(sub)
            add_violation(res, dict(base, kind="accounting", sub=sub),
                          f"join {flags} ({mode}): {msg}", dict(detail, **expected_detail))
        if rel:
            return got
        bump(res, "relational_checks")
        # (2) per-identity composition against the model
        exp_by_ident = {i: rec for i, rec in model_out}
        if not _compare_records(res, c, mo, base, dict(detail, **expected_detail), idents, got, exp_by_ident, "model"):
            return got
        bump(res, "composition_checks", len(got))
        # (3) emission order (unsorted mode only)
        if not sorted_mode:
            if idents != [i for i, _ in model_out]:
                add_violation(res, dict(base, kind="order"),
                              f"join {flags}: records emitted in a different order than documented "
                              f"(right-stream order, left order within key, unpaired left at end)",
                              dict(detail, expected_idents=[i for i, _ in model_out][:200], got_idents=idents[:200],
                                   **expected_detail))
                return got
            bump(res, "sequence_checks")
        else:
            bump(res, "sorted_multiset_checks")
    else:
        # identities not observable (--lk dropped lid): compare whole outputs
        if any(_join_values_and_collisions(i, c, mo)[1] for i, _ in model_out):
            # a payload field named like an output join field: those names are left out (see _join_values_and_collisions)
            J = set(mo.j)
            got_cmp = [[kv for kv in g if kv[0] not in J] for g in got]
            exp_recs = [[kv for kv in e if kv[0] not in J] for e in exp_recs]
            bump(res, "noids_compared_without_join_names")
        else:
            got_cmp = got
        got, got_all = got_cmp, got
        if sorted_mode:
            ok = sorted(map(repr, got)) == sorted(map(repr, exp_recs))
        else:
            ok = got == exp_recs
        if not ok:
            add_violation(res, dict(base, kind="sequence" if not sorted_mode else "multiset", sub="no-ids"),
                          f"join {flags} ({mode}) {feat}: output differs from the nested-loop model",
                          dict(detail, **expected_detail))
            return got_all
        bump(res, "sequence_checks_noids")
        return got_all
    return got


def _model_opts(o):
    return Opts(o["j"], o["l"], o["r"], o["lp"], o["rp"], o["lk"], o["np"], o["ul"], o["ur"], o["ie"], o["s"])


def _nontrivial(c, mo):
    from collections import Counter
    kl = Counter(k for k in (_key(r, mo.l, mo.ie) for r in c["L"]) if k is not None)
    kr = Counter(k for k in (_key(r, mo.r, mo.ie) for r in c["R"]) if k is not None)
    both_dup = any(kl[k] >= 2 and kr.get(k, 0) >= 2 for k in kl)
    un_l = any(_key(r, mo.l, mo.ie) not in kr for r in c["L"])
    un_r = any(_key(r, mo.r, mo.ie) not in kl for r in c["R"])
    return both_dup and un_l and un_r


def _mult_classes(c, mo):
    """{(left multiplicity class, right multiplicity class)} over the keys of the case; classes 0, 1, 2, many."""
    from collections import Counter
    kl = Counter(k for k in (_key(r, mo.l, mo.ie) for r in c["L"]) if k is not None)
    kr = Counter(k for k in (_key(r, mo.r, mo.ie) for r in c["R"]) if k is not None)
    cls = lambda n: str(n) if n <= 2 else "many"    # noqa: E731
    return {(cls(kl.get(k, 0)), cls(kr.get(k, 0))) for k in set(kl) | set(kr)}


def _compose(ident, c, mo):
    """The documented composition of one output identity, whatever the emission order / pairing completeness."""
    if ident[0] == "P":
        lrec = c["L"][ident[1]]
        return _pair(_left_keep(lrec, mo), c["R"][ident[2]], _key(lrec, mo.l, mo.ie), mo)
    if ident[0] == "L":
        return _unpaired(_left_keep(c["L"][ident[1]], mo), mo.l, mo, mo.lp)
    return _unpaired(c["R"][ident[1]], mo.r, mo, mo.rp)


def _check_unsorted_s(res, c, mo):
    """-s on input that is NOT sorted.  The usage promises only "else not all records will be paired"; judged here is
    what holds whatever the order: termination and status; every paired record joins two records with equal keys and
    is emitted once; a record is emitted as unpaired at most once, only under its flag, and not if it was also paired;
    a record whose key occurs nowhere on the other side is emitted under --ul / --ur; with --ul --ur nothing vanishes;
    the composition of whatever is emitted; and --np removes exactly the paired records of the same run."""
    from collections import Counter
    x = _exec(res, c, True, mode="s-unsorted")
    if x is None:
        return
    got, base, detail, flags = x
    detail = dict(detail, got=got[:200])
    lidname, ridname, lid_visible, lpos, rpos = _id_maps(c)
    idents = [_ident_of(g, lidname, ridname, lpos, rpos) for g in got]
    if ("?",) in idents:
        add_violation(res, dict(base, kind="composition", sub="id-field-not-found"),
                      f"join {flags} (-s, unsorted input): output record {got[idents.index(('?',))]} carries neither "
                      f"{lidname!r} nor {ridname!r} with a known id", detail)
        return
    L, Rr = c["L"], c["R"]
    kl = [_key(r, mo.l, mo.ie) for r in L]
    kr = [_key(r, mo.r, mo.ie) for r in Rr]
    lkeys, rkeys = {k for k in kl if k is not None}, {k for k in kr if k is not None}
    cnt = Counter(idents)
    bad = []
    for i, n in cnt.items():
        if n > 1:
            bad.append(("duplicate-" + {"P": "pair", "L": "left", "R": "right"}[i[0]], f"{i} emitted {n} times"))
    pairs = [i for i in cnt if i[0] == "P"]
    for (_, li, ri) in pairs:
        if kl[li] is None or kl[li] != kr[ri]:
            bad.append(("paired-unequal-keys", f"left #{li} {kl[li]} paired with right #{ri} {kr[ri]}"))
    if mo.np and pairs:
        bad.append(("np-emits-paired", f"{len(pairs)} paired records under --np"))
    lp_, rp_ = {i[1] for i in pairs}, {i[2] for i in pairs}
    for i in cnt:
        if i[0] == "L":
            if not mo.ul:
                bad.append(("extra-unpaired-left", f"left #{i[1]} emitted as unpaired without --ul"))
            elif i[1] in lp_:
                bad.append(("left-paired-and-unpaired", f"left #{i[1]} emitted both in a pair and as unpaired"))
        if i[0] == "R":
            if not mo.ur:
                bad.append(("extra-unpaired-right", f"right #{i[1]} emitted as unpaired without --ur"))
            elif i[1] in rp_:
                bad.append(("right-paired-and-unpaired", f"right #{i[1]} emitted both in a pair and as unpaired"))
    if mo.ul:
        for li in range(len(L)):
            if (kl[li] is None or kl[li] not in rkeys) and not cnt.get(("L", li)):
                bad.append(("missing-unpaired-left", f"left #{li} (key {kl[li]}) matches nothing on the right but is not emitted under --ul"))
    if mo.ur:
        for ri in range(len(Rr)):
            if (kr[ri] is None or kr[ri] not in lkeys) and not cnt.get(("R", ri)):
                bad.append(("missing-unpaired-right", f"right #{ri} (key {kr[ri]}) matches nothing on the left but is not emitted under --ur"))
    if mo.ul and mo.ur and not mo.np:
        for li in range(len(L)):
            if li not in lp_ and not cnt.get(("L", li)):
                bad.append(("lost-left", f"left #{li} appears nowhere under --ul --ur"))
        for ri in range(len(Rr)):
            if ri not in rp_ and not cnt.get(("R", ri)):
                bad.append(("lost-right", f"right #{ri} appears nowhere under --ul --ur"))
    seen = set()
    for sub, msg in bad:
        if sub not in seen:
            seen.add(sub)
            add_violation(res, dict(base, kind="accounting", sub=sub), f"join {flags} (-s, unsorted input): {msg}", detail)
    if bad:
        return
    bump(res, "s_unsorted_accounting_checks")
    bump(res, "s_unsorted_pairs_seen", len(pairs))
    bump(res, "s_unsorted_pairs_possible", sum(1 for a in kl if a is not None for b in kr if a == b))
    if not _compare_records(res, c, mo, base, detail, idents, got, {i: _compose(i, c, mo) for i in cnt}, "compose"):
        return
    bump(res, "s_unsorted_composition_checks", len(got))
    if not mo.np and (mo.ul or mo.ur):
        c2 = dict(c, o=dict(c["o"], np=True))
        x2 = _exec(res, c2, True, mode="s-unsorted")
        if x2 is not None:
            got2 = x2[0]
            rest = [g for g, i in zip(got, idents) if i[0] != "P"]
            if sorted(map(repr, got2)) != sorted(map(repr, rest)):
                add_violation(res, dict(base, kind="np-metamorphic"),
                              f"join {flags} (-s, unsorted input): adding --np does not remove exactly the paired records",
                              dict(x2[2], expected=rest[:200], got=got2[:200]))
            else:
                bump(res, "s_unsorted_np_checks")


def uns_case(case):
    rng = random.Random(case["seed"])
    c = build_case(rng, {"s": False, "big": False, "lk": None})
    if rng.random() < 0.5:
        # nearly sorted: sorted sides with a few records displaced (half-consumed / re-opened buckets)
        mo0 = _model_opts(c["o"])
        for side, names in (("L", mo0.l), ("R", mo0.r)):
            recs = _sort_by_key(c[side], names)
            for _ in range(rng.choice([0, 1, 1, 2, 3])):
                if len(recs) >= 2:
                    recs.insert(rng.randrange(len(recs)), recs.pop(rng.randrange(len(recs))))
            c[side] = recs
    o = c["o"]
    if o["np"] and not o["ul"] and not o["ur"]:
        o["ur"] = True
    mo = _model_opts(o)
    res = case_result(_h("n", case["seed"]), nontrivial=_nontrivial(c, mo))
    bump(res, "flags_s_unsorted:" + _flags_str(o, True))
    _check_unsorted_s(res, c, mo)
    return res


def join_case(case):
    rng = random.Random(case["seed"])
    if case.get("builder") == "runs":
        c = build_runs_case(rng, case.get("forced"))
    else:
        c = build_case(rng, case.get("forced"))
    o = c["o"]
    mo = _model_opts(o)
    res = case_result(_h(case.get("builder", "a"), case["seed"]), nontrivial=_nontrivial(c, mo))
    model_out = join_model(c["L"], c["R"], mo)
    for a, b in _mult_classes(c, mo):
        bump(res, f"mult:{a}x{b}" + (":s" if o["s"] else ""))
    if c.get("shape"):
        bump(res, "runs_shape:" + c["shape"] + (":s" if o["s"] else ":u"))
        bump(res, "runs_records", len(c["L"]) + len(c["R"]))
    if len(c["L"]) > 500 or len(c["R"]) > 500:
        bump(res, "multi_batch_cases" + (":s" if o["s"] else ":u"))
    widths = {len(rec) for _, rec in model_out}
    for w in (11, 12, 13):
        if w in widths:
            bump(res, f"output_width_{w}")
    bump(res, "flags:" + _flags_str(o, o["s"]))
    bump(res, "lfmt:" + c["lfmt"])
    bump(res, "main:" + c["main_fmt"])
    for f in ("lp", "rp", "lk"):
        if o[f] is not None:
            bump(res, "opt:" + f)
    if o["l"] is not None or o["r"] is not None:
        bump(res, "opt:rename")
    bump(res, f"nkeys:{len(o['j'])}")
    bump(res, "model_paired", sum(1 for i, _ in model_out if i[0] == "P"))
    bump(res, "model_unpaired_left", sum(1 for i, _ in model_out if i[0] == "L"))
    bump(res, "model_unpaired_right", sum(1 for i, _ in model_out if i[0] == "R"))
    got_u = _check_run(res, c, False, model_out, mo)
    if o["s"]:
        got_s = _check_run(res, c, True, model_out, mo)
        if got_u is not None and got_s is not None and _only_local_known(res):
            if sorted(map(repr, got_u)) != sorted(map(repr, got_s)):
                argv, files, stdin, _ = _argv_and_files(c, True)
                add_violation(res, {"kind": "s-vs-u", "flags": _flags_str(o, True), "feat": _feat_str(c)},
                              "on key-sorted inputs -s and the default mode give different multisets",
                              {"argv": argv, "files": files, "stdin": stdin, "expected": got_u[:200], "got": got_s[:200]})
            else:
                bump(res, "s_vs_u_equal")
    if case.get("want_sample"):
        argv, files, stdin, _ = _argv_and_files(c, o["s"])
        res["sample"] = {"argv": argv, "left_records": len(c["L"]), "right_records": len(c["R"]),
                         "model_output_records": len(model_out), "nontrivial": res["nontrivial"]}
    return res


# ------------------------------------------------------------------------------------------
# doc-replay of the join pages

def doc_case(case):
    argv, exp, files = case["argv"], case["expected"], case["files"]
    res = case_result(_h("d", argv), nontrivial=False)
    r = R.mlr(argv, files=files)
    bump(res, "doc_blocks_replayed")
    if r.verdict == "slow":
        res["inconc"] += 1
        return res
    if not r.ok or r.out != exp:
        add_violation(res, {"kind": "doc-replay", "page": case["page"], "cmd": " ".join(argv)[:120]},
                      f"{case['page']}: documented output of `mlr {' '.join(argv)}` is not reproduced",
                      {"argv": argv, "files": files, "stdin": "", "expected": exp, "got": r.out[:4000], "stderr": r.err[:1000]})
    return res


def doc_cases():
    cases = []
    for page in ("questions-about-joins.md", "reference-verbs.md"):
        for cmd, exp, head in docreplay.blocks(page):
            if page == "reference-verbs.md" and head != "join":
                continue
            argv = docreplay.plain_argv(cmd)
            if argv is None or "join" not in argv or "--help" in argv or "--prepipe" in argv:
                continue
            files = docreplay.needed_files(argv)
            cases.append({"argv": argv, "expected": exp, "files": files, "page": page})
    return cases


# ==========================================================================================

def run(chk):
    only = getattr(chk, "only", None)
    q = chk.quick()
    chk.rule = ("a: random (left file, right stream, option set) triples - |L|,|R| in 0..40 (4 %: 400-1300), key pools of 1-6 texts "
                "(incl. numerically-equal-but-textually-distinct keys), 0/1/2 join fields, missing/empty keys, colliding "
                "non-join names (also with the other side's join name and, when renaming, with the OUTPUT join name), sides padded "
                "to 5-12 extra fields or sized so that the composed record has 10-16 fields, -j vs -l/-r/-j, --lp/--rp/--lk, "
                "--np/--ul/--ur/--ignore-empty, -s on key-sorted inputs (also with -u next to it), -u, left-file formats "
                "(dkvp, json, csv, tsv, csvlite, nidx, xtab, pprint, markdown, custom separators, implicit / no-implicit header), "
                "batch sizes, right stream on stdin/1 file/2 files; g: all 2^5 combinations of {np,ul,ur,s,ignore-empty} per (L,R) pair, "
                "one pair spanning several reader batches; b: key-sorted sides built key by key with multiplicities {0,1,2,many} on "
                "each side and runs ending on / next to / across every reader-batch boundary (500 records, or --records-per-batch "
                "1,2,3,5,8), run with -s, and shuffled or not in the default mode / -u; n: -s on input that is not sorted (random and "
                "nearly-sorted), judged only on order-independent obligations; d: doc examples. "
                "Non-trivial = some key has multiplicity >= 2 on BOTH sides and >= 1 record is unpaired on EACH side; "
                "distinct = by generator seed of the case")
    if not only or "a" in only:
        n = 600 if q else 8000
        chk.pmap(join_case, [{"seed": f"{chk.seed}/a/{i}", "want_sample": i < 4} for i in range(n)],
                 chunksize=8, label="a random joins")
    if not only or "g" in only:
        npairs = 6 if q else 60
        cases = []
        for p in range(npairs + 1):
            # pair p == npairs: both sides span several 500-record reader batches
            extra = {"big": True} if p == npairs else {"big": False}
            if p % 3 == 1:
                extra["cross12"] = True          # composed record lands on 10..16 fields
            if p % 3 == 2:
                extra["collide"] = True          # payload field named like an output join field (when renaming)
            for bits in range(32):
                forced = {"np": bool(bits & 1), "ul": bool(bits & 2), "ur": bool(bits & 4),
                          "s": bool(bits & 8), "ie": bool(bits & 16)}
                if p == npairs and q and forced["np"] and not forced["ul"] and not forced["ur"]:
                    continue                     # refused option set; not worth a 1000-record file in the quick tier
                forced.update(extra)
                # same (L, R) generator seed for all 32 combinations of one pair
                cases.append({"seed": f"{chk.seed}/g/{p}", "forced": forced, "gridbits": bits})
        # the key must differ per combination: wrap
        chk.pmap(grid_case, cases, chunksize=4, label="g flag grid")
    if not only or "b" in only:
        n = 60 if q else 400
        chk.pmap(join_case, [{"seed": f"{chk.seed}/b/{i}", "builder": "runs"} for i in range(n)],
                 chunksize=2, label="b batch-boundary runs")
    if not only or "n" in only:
        n = 200 if q else 2500
        chk.pmap(uns_case, [{"seed": f"{chk.seed}/n/{i}"} for i in range(n)], chunksize=8, label="n -s on unsorted input")
    if not only or "d" in only:
        dc = doc_cases()
        chk.extra["doc_blocks"] = len(dc)
        chk.pmap(doc_case, dc, label="d doc-replay")
    obs = chk.stats
    def _refused(k):
        fl = k[6:].split("+")
        return "np" in fl and "ul" not in fl and "ur" not in fl
    chk.extra["flag_combinations_reached"] = len([k for k in obs if k.startswith("flags:") and not _refused(k)])
    chk.extra["flag_combinations_refused_np_only"] = len([k for k in obs if k.startswith("flags:") and _refused(k)])
    chk.extra["multiplicity_shapes_reached"] = sorted(k[5:] for k in obs if k.startswith("mult:"))
    chk.extra["s_unsorted_flag_combinations"] = len([k for k in obs if k.startswith("flags_s_unsorted:")])
    chk.extra["left_formats_reached"] = sorted(k[5:] for k in obs if k.startswith("lfmt:"))
    chk.assumptions = [
        "keys are compared as TEXT (statement: 'equal as text'); the generator includes numerically-equal spellings that must not pair",
        "a non-join field whose output name equals an OUTPUT join-field name (possible only when -l/-r rename): the docs define the "
        "collision rule only between left and right non-join fields (right overwrites left in place); on such a record the check "
        "requires the join value under the -j name (statement: 'the join fields under their output names'), says nothing about the "
        "payload field of that name, and compares the remaining fields as usual; prefixes never create a collision",
        "-s on unsorted input (monitor n): usage says only 'else not all records will be paired'; judged are termination, status, "
        "pairs have equal keys and occur once, unpaired emission at most once / only under its flag / never for a record also paired, "
        "records matching nothing are emitted under --ul/--ur, nothing vanishes under --ul --ur, composition of what is emitted, and "
        "--np removing exactly the paired records; completeness of pairing is NOT judged there",
        "-s together with -u: which one wins is not documented; such runs are made on key-sorted inputs only and judged as multisets",
        "nidx/xtab/pprint/markdown left files: texts without spaces, never empty, '-' avoided for pprint (these formats cannot spell "
        "them); --allow-ragged-csv-input for the left file is not exercised (not in join's usage; the flag table and the "
        "record-heterogeneity page disagree on short rows)",
        "join-field lists have no repeated names; -j is always given (help: -l/-r default to -j; without -j mlr asks for output names)",
        "CSV/TSV left files are rectangular (the format cannot express a missing field); heterogeneous left files use DKVP, JSON or "
        "CSV-lite schema change; cases a format cannot carry are skipped, not judged",
        "-s is only run on inputs the generator has sorted lexically by the join keys (documented precondition); key-less records stay in place",
        "verb-level --prepipe/--prepipex are not exercised (join usage says they apply to the left file, questions-about-joins.md says "
        "that as of Miller 6 they do not take effect - the latter is what the binary does; nothing can be judged)",
        "output is read through --ojson --jvquoteall so that field order, duplicates and value texts are observable exactly",
    ]


def grid_case(case):
    res = join_case(case)
    res["key"] = _h("g", case["seed"], case["gridbits"])
    return res
