"""C02 - format conversion changes syntax only; flatten/unflatten is lossless; the spelling
of the format/separator selection is irrelevant.

Monitors (DESIGN.md section 3, C02):
  conv   A->B->A == id and A->B == A->C->B on record lists in the intersection of the formats'
         C01 domains (records compared through --ojson --jvquoteall: key list, order, value text)
  nest   nested JSON -> tabular (csv tsv dkvp xtab pprint, several flatten separators) -> JSON:
         structure exactly, scalar leaves by text; the intermediate tabular text is also compared
         with a small Python model of flatten; the two documented limits of the unflatten
         heuristic (map keyed "1".."n" -> array; names starting/ending with or doubling the
         separator stay literal) are checked to do exactly the documented thing
  alias  the table of keystroke-saver flags, --F/--iF/--oF/-i/-o/--io forms, `or` spellings,
         named separators and .mlrrc lines is enumerated from the binary's own help output and
         each entry is run against its documented expansion on a battery of inputs
         (stdout + exit status byte-identical); an expansion that fails on a well-formed battery input is itself a violation;
         every DOCUMENTED spelling of one selection (--iN / -i N, --oN / -o N, --N / --io N / -i N -o N / --iN --oN; names taken from
         reference-main-flag-list.md, shell-completion.md and the pages' examples, not from what the binary accepts) must give
         identical bytes - a rejected documented spelling is a violation; .mlrrc lookup ($HOME, $XDG_CONFIG_HOME, default XDG
         directory, ./, MLRRC=<file>, MLRRC=__none__, unloadable MLRRC, --norc), stacking order, named profiles (-P / --profile)
         and the documented refusals (prepipe / load / mload / profile lines, unknown profile, profile with --norc)
  decide the documented auto-flatten / auto-unflatten DECISION (flatten-unflatten.md, Manual control) as a model over
         (input format x output format x verb chain ending in cat / flatten / unflatten / a DSL verb that makes maps x
         --no-auto-flatten / --no-auto-unflatten x flatten separator x spelling of the selection): 16 input formats, 17 output
         formats incl. jsonl, yaml, nidx, markdown, dkvpx, tsvlite, usv, asv, recutils, dcf; the output text is read by an
         independent reader and compared with the records the documented rule predicts
"""
import hashlib
import random
import re

from .. import run as R
from ..harness import add_violation, bump, case_result
from ..model import codecs as C
from ..model import formats as F
from ..model import docreplay
from ..model import c02_extra as X

BINARIES = ("mlr-verif",)
LEVEL = "exploration"

READBACK = ["--ojson", "--jvquoteall", "--no-auto-unflatten"]


def _h(*xs):
    return hashlib.sha1(repr(xs).encode()).hexdigest()[:16]


def _short(b, n=200):
    if isinstance(b, (bytes, str)) and len(b) > n:
        return b[:n] + (b"..." if isinstance(b, bytes) else "...")
    return b


# ==========================================================================================
# alias: table entries vs documented expansion

LETTERS = "ctjldnxpmy"
# format names as they appear in the help sentences -> the name used by -i/-o/--i<name>
SENTENCE_NAMES = {
    "CSV": "csv", "CSV-lite": "csvlite", "TSV": "tsv", "TSV-lite": "tsvlite", "ASV": "asv", "USV": "usv", "JSON": "json",
    "JSON Lines": "jsonl", "DKVP": "dkvp", "DKVPX": "dkvpx", "NIDX": "nidx", "XTAB": "xtab", "PPRINT": "pprint",
    "markdown-tabular": "md", "YAML": "yaml", "Debian control file (DCF)": "dcf", "GNU recutils (.rec)": "recutils",
    "markdown": "md", "Markdown": "md", "JSONL": "jsonl", "markdown tabular": "md",
}

# documented separator aliases (hard-coded copy of reference-main-separators.md, so that a changed table entry in
# the binary cannot vouch for itself)
DOC_SEPARATORS = {
    "ascii_esc": b"\x1b", "ascii_etx": b"\x03", "ascii_fs": b"\x1c", "ascii_gs": b"\x1d", "ascii_null": b"\x00",
    "ascii_rs": b"\x1e", "ascii_soh": b"\x01", "ascii_stx": b"\x02", "ascii_us": b"\x1f", "asv_fs": b"\x1f", "asv_rs": b"\x1e",
    "colon": b":", "comma": b",", "cr": b"\r", "crcr": b"\r\r", "crlf": b"\r\n", "crlfcrlf": b"\r\n\r\n", "equals": b"=",
    "lf": b"\n", "lflf": b"\n\n", "newline": b"\n", "pipe": b"|", "semicolon": b";", "slash": b"/", "space": b" ", "tab": b"\t",
    "usv_fs": b"\xe2\x90\x9f", "usv_rs": b"\xe2\x90\x9e",
}
DOC_REGEX_ALIASES = {"spaces": "( )+", "tabs": "(\t)+", "whitespace": "([ \t])+"}

FLAT = [[(b"a", b"pan"), (b"b", b"3"), (b"c", b"0.50")], [(b"a", b"eks"), (b"b", b""), (b"c", b"x y")],
        [(b"a", b"wye"), (b"b", b"-7"), (b"c", b"0x1F")]]
SEPS = [[(b"k", b"p;q"), (b"m", b"r|s"), (b"n", b"t:u")], [(b"k", b"v/w"), (b"m", b"x=y"), (b"n", b"a b")]]
DOTS = [[(b"id", b"1"), (b"v.x", b"2"), (b"v.y", b"3"), (b"w.1", b"4"), (b"w.2", b"5")], [(b"id", b"2"), (b"v.x", b"6"), (b"v.y", b"7"), (b"w.1", b"8"), (b"w.2", b"9")]]
HET = [[(b"a", b"1"), (b"b", b"2")], [(b"c", b"3")], [(b"a", b"4"), (b"b", b"5")], [(b"a", b"6"), (b"b", b"7"), (b"d", b"8")]]
WIDE = [[(("f%d" % i).encode(), str(i * r).encode()) for i in range(1, 14)] for r in (1, 2)]
SIMPLE = [[(b"a", b"1"), (b"b", b"x")], [(b"a", b"2"), (b"b", b"y")]]
NESTED_JSON = b'[{"id":1,"v":{"x":2,"y":[3,{"z":4}]},"e":{},"l":[]},{"id":2,"v":{"x":"s","y":[5,{"z":null}]},"e":{},"l":[]}]\n'


def _pos(recs):
    return [[(str(i + 1).encode(), v if v != b"" else b"e") for i, (_, v) in enumerate(r)] for r in recs]


def _nospace(recs):
    return [[(k, v.replace(b" ", b"_") or b"-e") for k, v in r] for r in recs]


def battery(fmt, full=False):
    """[(name, bytes)] inputs in format `fmt` (one of the names used by -i)."""
    J = lambda recs: C.write_json([C.jobj_from_record(r) for r in recs])
    if fmt in ("csv", "csvlite"):
        w = lambda recs: C.write_csv(C.records_to_rows(recs))
        out = [("flat", w(FLAT)), ("seps", w(SEPS)), ("dots", w(DOTS)), ("empty", b""), ("wide", w(WIDE))]
        if fmt == "csvlite":
            out.append(("hetero", C.write_csvlite(HET)))
        else:
            out.append(("quoted", b'a,b\n"x,1","y ""q"""\n"line\nbreak",z\n'))
    elif fmt in ("tsv", "tsvlite"):
        w = lambda recs: C.write_tsv(C.records_to_rows(recs))
        out = [("flat", w(FLAT)), ("seps", w(SEPS)), ("dots", w(DOTS)), ("empty", b""), ("wide", w(WIDE)),
               ("escapes", b"a\tb\nx\\ty\tp\\\\q\n")]
    elif fmt in ("asv", "usv"):
        fs, rs = (b"\x1f", b"\x1e") if fmt == "asv" else (DOC_SEPARATORS["usv_fs"], DOC_SEPARATORS["usv_rs"])
        w = lambda recs: C.write_csvlite(recs, fs=fs, rs=rs)
        out = [("flat", w(FLAT)), ("seps", w(SEPS)), ("hetero", w(HET)), ("empty", b""), ("dots", w(DOTS))]
    elif fmt in ("json", "jsonl"):
        out = [("flat", J(FLAT)), ("nested", NESTED_JSON), ("hetero", J(HET)), ("empty", b""), ("wide", J(WIDE)),
               ("lines", C.write_json([C.jobj_from_record(r) for r in SEPS], {"shape": "lines"}))]
    elif fmt == "yaml":
        out = [("flat", b"- a: pan\n  b: 3\n  c: 0.5\n- a: eks\n  b: \"\"\n  c: x y\n"), ("nested", b"id: 1\nv:\n  x: 2\n  y:\n    - 3\n    - z: 4\n---\nid: 2\nv:\n  x: s\n  y: []\n"),
               ("empty", b""), ("hetero", b"- a: 1\n- b: 2\n  c: 3\n")]
    elif fmt == "dkvp":
        out = [("flat", C.write_dkvp(FLAT)), ("seps", C.write_dkvp(SEPS)), ("hetero", C.write_dkvp(HET)), ("empty", b""),
               ("dots", C.write_dkvp(DOTS)), ("wide", C.write_dkvp(WIDE)), ("keyless", b"a=1,xyz,c=3\nabc\n")]
    elif fmt == "dkvpx":
        out = [("flat", C.write_dkvp(FLAT)), ("quoted", b'"x,y"="a,b,c",z=3\nk="p=q"\n'), ("hetero", C.write_dkvp(HET)), ("empty", b""),
               ("dots", C.write_dkvp(DOTS))]
    elif fmt == "nidx":
        out = [("flat", C.write_nidx(_nospace(_pos(FLAT)))), ("gaps", b"a   b  c\nd e\n"), ("tabs", b"a\tb c\td\n"), ("empty", b""),
               ("wide", C.write_nidx(_pos(WIDE))), ("seps", C.write_nidx(_nospace(_pos(SEPS))))]
    elif fmt == "xtab":
        ne = lambda recs: [[(k, v or b"e") for k, v in r] for r in recs]
        out = [("flat", C.write_xtab(ne(FLAT))), ("seps", C.write_xtab(SEPS)), ("hetero", C.write_xtab(HET)), ("empty", b""),
               ("dots", C.write_xtab(DOTS)), ("wide", C.write_xtab(WIDE))]
    elif fmt == "pprint":
        out = [("flat", C.write_pprint(_nospace(FLAT))), ("seps", C.write_pprint(_nospace(SEPS))), ("hetero", C.write_pprint(HET)),
               ("empty", b""), ("dots", C.write_pprint(DOTS)), ("barred", C.write_pprint(SIMPLE, barred=True))]
    elif fmt in ("md", "markdown"):
        out = [("flat", C.write_markdown(FLAT)), ("seps", C.write_markdown([[(k, v.replace(b"|", b"!")) for k, v in r] for r in SEPS])),
               ("empty", b""), ("dots", C.write_markdown(DOTS)), ("wide", C.write_markdown(WIDE))]
    elif fmt == "dcf":
        out = [("flat", b"Package: foo\nVersion: 1.0\nDepends: libc6 (>= 2.0), libfoo\n\nPackage: bar\nVersion: 2\n"), ("empty", b""),
               ("simple", b"a: 1\nb: x\n\na: 2\nb: y\n")]
    elif fmt == "recutils":
        out = [("flat", b"Name: Mr. Foo\nEmail: foo@example.com\nNotes: Likes\n+ walks\n\nName: Bar\nEmail: b@x\n"), ("empty", b""),
               ("simple", b"a: 1\nb: x\n\na: 2\nb: y\n")]
    else:
        raise KeyError(fmt)
    return out if full else out[:3]


def alias_case(case):
    res = case_result(_h("alias", case["label"], case["alias"], case["expansion"]), case["alias"] != case["expansion"], evals=0)
    bump(res, "alias_entries:" + case["group"])
    env = case.get("env")
    files = case.get("files")
    tail = case.get("tail", ["cat"])
    inputs = case["inputs"]
    nontriv_out = False
    alias_ok = False
    if case.get("expect_fail"):
        # a documented refusal: the spelling must NOT be accepted
        name, data = inputs[0]
        a_argv = case["alias"] + tail
        ra = R.mlr(a_argv, stdin=data, env=env, files=files, wrapper=case.get("wrapper"))
        res["evals"] += 1
        if ra.verdict == "slow":
            res["inconc"] += 1
        elif ra.rc == 0 or ra.signal is not None or ra.verdict != "exited":
            add_violation(res, {"kind": "alias", "group": case["group"], "alias": case["label"], "what": "documented-refusal-not-refused"},
                          f"{case['label']}: documented as an error ({case.get('doc', '')}) but exits rc={ra.rc} signal={ra.signal} verdict={ra.verdict}",
                          {"argv": a_argv, "stdin": data, "env": env, "files": files, "stdout": _short(ra.stdout, 500), "stderr": ra.err[:500]})
        else:
            bump(res, "alias_refusals_held")
        res["sample"] = {"monitor": "alias", "alias": case["alias"], "expect": "refused"}
        return res
    for name, data in inputs:
        a_argv = case["alias"] + tail
        e_argv = case["expansion"] + tail
        ra = R.mlr(a_argv, stdin=data, env=env, files=files, wrapper=case.get("wrapper"))
        re_ = R.mlr(e_argv, stdin=data, env=case.get("env_expansion"), files=files)
        res["evals"] += 1
        if ra.verdict == "slow" or re_.verdict == "slow":
            res["inconc"] += 1
            continue
        sa = ("rc", ra.rc, ra.signal)
        se = ("rc", re_.rc, re_.signal)
        det = {"argv": a_argv, "argv_expansion": e_argv, "stdin": data, "input": name, "env": env, "files": files,
               "documented": case.get("doc", "")}
        sig_base = {"kind": "alias", "group": case["group"], "alias": case["label"]}
        if case.get("trait"):
            sig_base["trait"] = case["trait"]
        if ra.rc == 0:
            alias_ok = True
        schema_change = name in ("hetero", "nested", "keyless") and "schema change" in re_.err     # documented data error of the CSV/TSV writers
        if name == "barred" and "--barred-input" not in e_argv:
            schema_change = True       # file-formats.md: barred PPRINT is read with --barred-input; without it the input is not well-formed PPRINT
        if case.get("must_succeed") and not re_.ok and not schema_change:
            # every battery input is inside the input format's documented domain: an expansion that fails on it makes the equality below vacuous
            add_violation(res, dict(sig_base, what="expansion-fails"),
                          f"{case['label']}: the documented expansion {' '.join(case['expansion'])} fails (rc={re_.rc} signal={re_.signal} {re_.verdict}) on the "
                          f"well-formed battery input {name}: {re_.err[:160]!r}", dict(det, stderr_expansion=re_.err[:500]))
        if sa != se:
            add_violation(res, dict(sig_base, what="status"),
                          f"{case['label']} exits {sa[1:]} but its documented expansion {' '.join(case['expansion'])} exits {se[1:]} on input {name}",
                          dict(det, stderr_alias=ra.err[:500], stderr_expansion=re_.err[:500]))
        elif ra.stdout != re_.stdout:
            add_violation(res, dict(sig_base, what="stdout"),
                          f"{case['label']} prints different bytes than its documented expansion {' '.join(case['expansion'])} on input {name}",
                          dict(det, stdout_alias=_short(ra.stdout, 1500), stdout_expansion=_short(re_.stdout, 1500)))
        else:
            bump(res, "alias_runs_equal")
            if ra.rc == 0 and ra.stdout:
                nontriv_out = True
    if not alias_ok and not res["inconc"]:
        add_violation(res, {"kind": "alias", "group": case["group"], "alias": case["label"], "what": "never-succeeds"},
                      f"{case['label']}: the spelling taken from the help output fails on every battery input", {"argv": case["alias"] + tail})
    if not nontriv_out:
        res["nontrivial"] = False
        bump(res, "alias_entries_without_successful_output")
        res["stats"]["alias_entries_without_output"] = [case["label"]]
    res["sample"] = {"monitor": "alias", "alias": case["alias"], "expansion": case["expansion"], "inputs": [n for n, _ in inputs]}
    return res


def spelling_case(case):
    """Every documented spelling of ONE selection (format name x side) gives the same bytes and the same exit status."""
    res = case_result(_h("spell", case["name"], case["side"]), len(case["spellings"]) > 1, evals=0)
    bump(res, "alias_entries:selection-spelling")
    reported = set()
    any_out = False
    for iname, data in case["inputs"]:
        runs = []
        for label, argv in case["spellings"]:
            r = R.mlr(argv + ["cat"], stdin=data)
            res["evals"] += 1
            if r.verdict == "slow":
                res["inconc"] += 1
                continue
            runs.append((label, argv, r))
        if len(runs) < 2:
            continue
        ref = next((x for x in runs if x[2].ok), runs[0])
        if ref[2].ok and ref[2].stdout:
            any_out = True
        for label, argv, r in runs:
            if (label, argv, r) is ref or label in reported:
                continue
            what = None
            if (r.rc, r.signal) != (ref[2].rc, ref[2].signal):
                what = "rejected" if ref[2].ok and r.rc not in (0, None) else "status"
            elif r.stdout != ref[2].stdout:
                what = "stdout"
            if what:
                reported.add(label)
                add_violation(res, {"kind": "selection-spelling", "name": case["name"], "side": case["side"], "spelling": label, "what": what},
                              f"{label} (documented spelling of: {case['side']} format {case['name']}) "
                              f"{'is rejected' if what == 'rejected' else 'differs in ' + what} while {ref[0]} works, input {iname}: {r.err[:160]!r}",
                              {"argv": argv + ["cat"], "argv_reference": ref[1] + ["cat"], "stdin": data, "documented": case["doc"],
                               "stdout": _short(r.stdout, 800), "stdout_reference": _short(ref[2].stdout, 800), "stderr": r.err[:500]})
            else:
                bump(res, "spelling_runs_equal")
    if not any_out:
        res["nontrivial"] = False
    res["sample"] = {"monitor": "alias", "selection": [case["side"], case["name"]], "spellings": [l for l, _ in case["spellings"]]}
    return res


def spelling_cases(chk):
    """Names and flags as the DOCUMENTATION lists them (reference-main-flag-list.md File-format flags, shell-completion.md,
    `-i NAME` occurrences in the pages): `-i N` is the same as `--iN`, `-o N` as `--oN`, `--io N` as `--N`."""
    full = not chk.quick()
    flags = X.documented_format_flags()
    names = sorted(set(flags) | set(X.documented_io_names()))
    bat = {"asvlite": "asv", "usvlite": "usv"}
    cases = []
    for n in names:
        f = flags.get(n, {"i": [], "o": [], "io": []})
        doc = "reference-main-flag-list.md: `-i csv` is the same as `--icsv`; `-o csv` is the same as `--ocsv`; `--io csv` is the same as `--csv`"
        try:
            inp = battery(bat.get(n, n), full)
        except KeyError:
            continue
        inp = [x for x in inp if x[0] != "empty"] + [x for x in inp if x[0] == "empty"][:1 if full else 0]
        sp_i = [(x, [x, "--ojson"]) for x in f["i"]] + [("-i " + n, ["-i", n, "--ojson"])]
        sp_o = [(x, [x]) for x in f["o"]] + [("-o " + n, ["-o", n])]
        sp_io = [(x, [x]) for x in f["io"]] + [("--io " + n, ["--io", n]), ("-i %s -o %s" % (n, n), ["-i", n, "-o", n])]
        if f["i"] and f["o"]:
            sp_io.append((f["i"][0] + " " + f["o"][0], [f["i"][0], f["o"][0]]))
        cases.append({"name": n, "side": "input", "spellings": sp_i, "inputs": inp, "doc": doc})
        cases.append({"name": n, "side": "output", "spellings": sp_o, "inputs": battery("dkvp", full)[:3], "doc": doc})
        cases.append({"name": n, "side": "both", "spellings": sp_io, "inputs": inp, "doc": doc})
    return cases, {"selection_names_from_documentation": names}


def _help(args):
    r = R.mlr(["help"] + args)
    return r.out if r.rc == 0 else ""


def _fmt_of_sentence(txt):
    """'CSV' / 'PPRINT with `--barred`' ... -> (name, extra flags)"""
    extra = []
    m = re.match(r"(.+?) with `?(--[\w-]+)`?$", txt)
    if m:
        txt, extra = m.group(1), [m.group(2)]
    txt = txt.strip()
    if txt.endswith(" format"):
        txt = txt[:-7]
    return SENTENCE_NAMES.get(txt), extra


def _iflag(name):
    return ["--icsvlite", "--ifs", name + "_fs", "--irs", name + "_rs"] if name in ("asv", "usv") else ["--i" + name]


def _oflag(name):
    return ["--ocsvlite", "--ofs", name + "_fs", "--ors", name + "_rs"] if name in ("asv", "usv") else ["--o" + name]


def build_alias_table(chk):
    """Enumerate entries from the binary's help. -> (cases, table_facts)"""
    full = not chk.quick()
    cases = []
    facts = {"x2y_from_table": 0, "x2y_from_help_flag": 0, "format_flags": 0, "or_groups": 0, "separator_aliases": 0, "mlrrc_forms": 0,
             "table_inconsistencies": []}

    def add(group, label, alias, expansion, infmt, doc="", must_succeed=True, **kw):
        cases.append(dict({"group": group, "label": label, "alias": alias, "expansion": expansion, "inputs": battery(infmt, full),
                           "doc": doc, "must_succeed": must_succeed}, **kw))

    # ---- 1. the --X2Y matrix: table cells, legend, and the per-flag help sentence must agree
    ks = _help(["format-conversion-keystroke-saver-flags"])
    legend = re.search(r"letters ([a-z, and]+) refer to formats (.+?), respectively", ks.replace("\n", " "))
    letter_fmt = {}
    if legend:
        ls = re.findall(r"\b([a-z])\b", legend.group(1).replace("and", " "))
        fs = [x.strip() for x in re.split(r",\s*(?:and\s+)?", legend.group(2))]
        for l, f in zip(ls, fs):
            letter_fmt[l] = SENTENCE_NAMES.get(f)
    facts["legend"] = dict(letter_fmt)
    table_cells = {}
    header = None
    for line in ks.splitlines():
        if line.startswith("|"):
            cells = [c.strip() for c in line.strip().strip("|").split("|")]
            if header is None:
                header = cells
                continue
            rowfmt = SENTENCE_NAMES.get(cells[0])
            for col, cell in zip(header[1:], cells[1:]):
                for tok in [t for t in cell.split(",") if t.strip()]:
                    table_cells[tok.strip()] = (rowfmt, SENTENCE_NAMES.get(col))
    facts["x2y_from_table"] = len(table_cells)
    seen = set()
    helped = set()
    cand = list(table_cells) + ["--%s2%s" % (a, b) for a in LETTERS for b in LETTERS + "b"]
    for flag in cand:
        if flag in seen:
            continue
        seen.add(flag)
        sent = _help(["flag", flag])
        m = re.search(r"Use (.+?) for input, (.+?) for output\.", sent.replace("\n", " "))
        m2 = re.search(r"Use (.+?) format for input and output data\.", sent.replace("\n", " "))
        if flag in table_cells and not (m or m2):
            # the table advertises a flag the binary has no help for: run it anyway against the table's meaning
            rf, cf = table_cells[flag]
            facts["table_inconsistencies"].append(f"{flag}: in the matrix, unknown to `mlr help flag`")
            if rf and cf:
                add("x2y", flag, [flag], _iflag(rf) + _oflag(cf), rf, doc="matrix cell (row %s, column %s)" % (rf, cf))
            continue
        if not (m or m2):
            continue
        facts["x2y_from_help_flag"] += 1
        helped.add(flag)
        if m:
            (fi, xi), (fo, xo) = _fmt_of_sentence(m.group(1)), _fmt_of_sentence(m.group(2))
        else:
            (fi, xi) = _fmt_of_sentence(m2.group(1))
            fo, xo = fi, []
        if not fi or not fo:
            facts["table_inconsistencies"].append(f"{flag}: help sentence names an unknown format: {sent.strip()!r}")
            continue
        mm = re.fullmatch(r"--([a-z])2([a-z])", flag)
        if mm and mm.group(2) != "b":
            lf = (letter_fmt.get(mm.group(1)), letter_fmt.get(mm.group(2)))
            if lf != (fi, fo):
                facts["table_inconsistencies"].append(f"{flag}: legend says {lf}, help sentence says {(fi, fo)}")
        if flag in table_cells and table_cells[flag] != (fi, fo):
            facts["table_inconsistencies"].append(f"{flag}: matrix position says {table_cells[flag]}, help sentence says {(fi, fo)}")
        add("x2y", flag, [flag], _iflag(fi) + xi + _oflag(fo) + xo, fi, doc=sent.strip().replace("\n", " "))
    # the matrix as pasted into the documentation pages: a flag the pages list must be known to the binary
    doc_x2y = set()
    for page in ("reference-main-flag-list.md", "file-formats.md", "keystroke-savers.md"):
        doc_x2y |= set(re.findall(r"(?<![\w-])--[a-z]2[a-z]\b", X._doc(page)))
    facts["x2y_listed_in_documentation_pages"] = len(doc_x2y)
    for flag in sorted(doc_x2y - helped):
        facts["table_inconsistencies"].append(f"{flag}: listed in the documentation pages, unknown to `mlr help flag`")
    # -p / -T and other 'Keystroke-saver for `...`' sentences
    for sec in ("format-conversion-keystroke-saver-flags", "csv/tsv-only-flags", "file-format-flags", "pprint-only-flags"):
        txt = _help([sec])
        for m in re.finditer(r"^(-{1,2}[\w-]+)\s+Keystroke-saver for `([^`]+)`", txt.replace("\n                         ", " "), re.M):
            flag, exp = m.group(1), m.group(2).split()
            infmt = "nidx" if "--nidx" in exp else "csv"
            pre = ["--icsv", "--ojson"] if infmt == "csv" else []
            add("keystroke-saver", flag, pre + [flag], pre + exp, infmt, doc=m.group(0).replace("\n", " "))
            if flag == "-T":
                cases[-1]["inputs"] = [("tabs", b"a\tb c\td\n"), ("flat", b"x\ty\n1\t2\n"), ("empty", b"")]

    # ---- 2. file-format flags: --F == --iF --oF, `or` spellings, -i/-o/--io
    ff = _help(["file-format-flags"]).replace("\n                         ", " ")
    for line in ff.splitlines():
        m = re.match(r"^(--[\w-]+(?: or -{1,2}[\w-]+)*)\s+Use (.+?) format for (input and output|input|output) data\.", line)
        if not m:
            continue
        spellings = m.group(1).split(" or ")
        name, _ = _fmt_of_sentence(m.group(2))
        if not name:
            facts["table_inconsistencies"].append(f"{spellings[0]}: unknown format in help sentence {m.group(2)!r}")
            continue
        facts["format_flags"] += len(spellings)
        which = m.group(3)
        first = spellings[0]
        infmt = name if which != "output" else "dkvp"
        if name == "md":
            infmt = "md" if which != "output" else "dkvp"
        if which == "input and output":
            stem = first[2:]
            if re.search(r"^--i%s\b" % re.escape(stem), ff, re.M) and re.search(r"^--o%s\b" % re.escape(stem), ff, re.M):
                exp = ["--i" + stem, "--o" + stem]
            else:
                exp = ["-i", {"md": "markdown"}.get(name, name), "-o", {"md": "markdown"}.get(name, name)]
            add("format-flag", first, [first], exp, infmt, doc=line.strip())
        if name in ("asv", "usv"):
            # file-formats.md: 'ASV and USV are nothing more than CSV-lite with different values for FS and RS'
            exp = {"input and output": _iflag(name) + _oflag(name), "input": _iflag(name), "output": _oflag(name)}[which]
            add("format-flag", first + " (csvlite+separators)", [first], exp, infmt, doc="file-formats.md: ASV/USV = CSV-lite with FS/RS " + name)
        for sp in spellings[1:]:
            add("or-spelling", sp + " = " + first, [sp], [first], infmt, doc=line.strip())
    # ---- 3. `or` spellings of option flags, each in a context where the option matters
    contexts = {
        "--allow-ragged-csv-input": (["--icsv", "--ojson"], [("ragged", b"a,b,c\n1,2\n3,4,5,6\n")]),
        "--headerless-csv-output": (["--icsv", "--ocsv"], [("flat", b"a,b\n1,2\n")]),
        "--implicit-csv-header": (["--icsv", "--ojson"], [("flat", b"a,b\n1,2\n")]),
        "--barred": (["--icsv", "--opprint"], [("flat", b"a,b\n1,2\n")]),
        "--jlistwrap": (["--icsv", "--ojsonl"], [("flat", b"a,b\n1,2\n")]),
        "--yarray": (["--icsv", "--oyaml", "--no-yarray"], [("flat", b"a,b\n1,2\n3,4\n")]),
        "--md-aligned": ([], [("flat", C.write_markdown(FLAT))]),
        "--omd-aligned": (["--icsv"], [("flat", b"a,bbbb\n1,2\n")]),
        "--flatsep": (["--ijson", "--ocsv"], [("nested", NESTED_JSON)]),
        "--no-implicit-csv-header": (["--icsv", "--implicit-csv-header", "--ojson"], [("flat", b"a,b\n1,2\n")]),
    }
    for sec in ("csv/tsv-only-flags", "pprint-only-flags", "json-only-flags", "markdown-only-flags", "flatten-unflatten-flags"):
        txt = _help([sec])
        for m in re.finditer(r"^(-{1,2}[\w-]+(?: or -{1,2}[\w-]+)+)", txt, re.M):
            spellings = m.group(1).split(" or ")
            first = spellings[0]
            facts["or_groups"] += 1
            ctx, inputs = contexts.get(first, (["--icsv", "--ojson"], [("flat", b"a,b\n1,2\n")]))
            arg = [":"] if first == "--flatsep" else []
            for sp in spellings[1:]:
                cases.append({"group": "or-spelling", "label": sp + " = " + first, "alias": ctx + [sp] + arg, "expansion": ctx + [first] + arg,
                              "inputs": inputs, "doc": m.group(1), "must_succeed": True, "ctx_known": first in contexts})
    # ---- 4. separator aliases
    alias_txt = _help(["list-separator-aliases"])
    printed = {}
    for line in alias_txt.splitlines():
        m = re.match(r'^(\w+)\s*=\s*"(.*)"$', line)
        if m:
            printed[m.group(1)] = m.group(2)
    for nm in sorted(set(printed) | set(DOC_SEPARATORS)):
        if nm not in printed:
            facts["table_inconsistencies"].append(f"separator alias {nm}: documented in reference-main-separators.md, missing from the binary's list")
            continue
        if nm not in DOC_SEPARATORS:
            facts["table_inconsistencies"].append(f"separator alias {nm}: printed by the binary, not in reference-main-separators.md")
            continue
        val = DOC_SEPARATORS[nm]
        try:
            pv = printed[nm].encode().decode("unicode_escape").encode("latin-1")
        except Exception:
            pv = None
        if pv != val:
            facts["table_inconsistencies"].append(f"separator alias {nm}: binary prints {printed[nm]!r}, documentation says {val!r}")
        facts["separator_aliases"] += 1
        escaped = printed[nm]
        lit = val.decode("utf-8", "surrogateescape") if b"\x00" not in val else None
        # data that uses the *documented* bytes as separator, so a wrong alias value changes the output
        for role, flags_in, flags_out, both in (("fs", "--ifs", "--ofs", "--fs"), ("ps", "--ips", "--ops", "--ps"), ("rs", "--irs", "--ors", "--rs")):
            if b"\x00" in val:
                continue
            if role == "fs":
                data = val.join([b"a=1", b"b=2", b"c=3"]) + b"\n" + val.join([b"a=4", b"b=5", b"c=6"]) + b"\n"
                if b"\n" in val or b"\r" in val:
                    continue
            elif role == "ps":
                if b"\n" in val or b"\r" in val or val == b",":
                    continue
                data = b"a" + val + b"1,b" + val + b"2\n" + b"a" + val + b"3,b" + val + b"4\n"
            else:
                if val in (b",", b"="):
                    continue
                data = b"a=1,b=2" + val + b"a=3,b=4" + val
            for flag, tail_fmt in ((flags_in, ["--ojson"]), (flags_out, []), (both, [])):
                inp = data if flag != flags_out else b"a=1,b=2\na=3,b=4\n"
                if lit is not None:
                    cases.append({"group": "separator-alias", "label": f"{flag} {nm}", "alias": [flag, nm] + tail_fmt,
                                  "expansion": [flag, lit] + tail_fmt, "inputs": [(role, inp), ("empty", b"")],
                                  "doc": f'{nm} = "{escaped}"', "must_succeed": True})
                cases.append({"group": "separator-alias-escaped", "label": f"{flag} {nm} vs {escaped}", "alias": [flag, nm] + tail_fmt,
                              "expansion": [flag, escaped] + tail_fmt, "inputs": [(role, inp)], "doc": f'{nm} = "{escaped}"',
                              "must_succeed": True})
    rx = _help(["list-separator-regex-aliases"])
    for line in rx.splitlines():
        m = re.match(r'^(\w+)\s*=\s*"(.*)"$', line)
        if not m:
            continue
        nm, pat = m.group(1), m.group(2).replace("\\t", "\t")
        if DOC_REGEX_ALIASES.get(nm) != pat:
            facts["table_inconsistencies"].append(f"regex alias {nm}: binary prints {pat!r}, documentation says {DOC_REGEX_ALIASES.get(nm)!r}")
        facts["separator_aliases"] += 1
        cases.append({"group": "separator-alias", "label": f"--ifs-regex {nm}", "alias": ["--inidx", "--ifs-regex", nm, "--ojson"],
                      "expansion": ["--inidx", "--ifs-regex", pat, "--ojson"], "inputs": [("gaps", b"a  b \t c\td\n")], "doc": line, "must_succeed": True})
        cases.append({"group": "separator-alias", "label": f"--ips-regex {nm}", "alias": ["--ifs", ";", "--ips-regex", nm, "--ojson"],
                      "expansion": ["--ifs", ";", "--ips-regex", pat, "--ojson"], "inputs": [("gaps", b"a  1;b \t 2;c\t3\n")], "doc": line, "must_succeed": True})
    # ---- 5. .mlrrc lines (customization.md): '--flag' or 'flag', '--option value' or 'option value', comments, blank lines
    rc_forms = [
        ("--ojson", ["--ojson"]), ("ojson", ["--ojson"]), ("icsv\nojson", ["--icsv", "--ojson"]), ("--icsv\n--ojson\n", ["--icsv", "--ojson"]),
        ("# comment\n\nicsv   # trailing comment\n\n  ojson\n", ["--icsv", "--ojson"]), ("ofs ;", ["--ofs", ";"]), ("--ofs ;", ["--ofs", ";"]),
        ("ofs semicolon", ["--ofs", "semicolon"]), ("c2p", ["--c2p"]), ("--c2j\njvstack\njlistwrap", ["--c2j", "--jvstack", "--jlistwrap"]),
        ("csv\nallow-ragged-csv-input", ["--csv", "--allow-ragged-csv-input"]), ("icsv\nojson\nno-jvstack", ["--icsv", "--ojson", "--no-jvstack"]),
        ("ifs ;\nips :\n", ["--ifs", ";", "--ips", ":"]), ("csv\nquote-all", ["--csv", "--quote-all"]),
        ("nr-progress-mod 1000\nicsv\noxtab", ["--nr-progress-mod", "1000", "--icsv", "--oxtab"]),
        ("icsv\n\n\n#x\nopprint\nbarred\n", ["--icsv", "--opprint", "--barred"]),
    ]
    rc_forms = [(t if t.endswith("\n") else t + "\n", f, None) for t, f in rc_forms] + \
        [("ojson", ["--ojson"], "last-line-unterminated"), ("icsv\nojson", ["--icsv", "--ojson"], "last-line-unterminated")]
    for text, flags, trait in rc_forms:
        facts["mlrrc_forms"] += 1
        infmt = "csv" if any(f in flags for f in ("--icsv", "--csv", "--c2p", "--c2j")) else "dkvp"
        inputs = battery(infmt, full)
        if "--allow-ragged-csv-input" in flags:
            inputs = inputs + [("ragged", b"a,b,c\n1,2\n3,4,5,6\n")]
        if "--ifs" in flags:
            inputs = [("seps", b"a:1;b:2\na:3;b:4\n")] + inputs[:1]
        cases.append({"group": "mlrrc", "label": "MLRRC: " + text.replace("\n", "\\n"), "alias": [], "expansion": flags, "inputs": inputs,
                      "env": {"MLRRC": "rcfile"}, "files": {"rcfile": text.encode()}, "doc": "customization.md", "must_succeed": True,
                      "trait": trait})
        if trait:
            continue
        # the command line overrides .mlrrc defaults
        cases.append({"group": "mlrrc", "label": "MLRRC + --ojson override: " + text.replace("\n", "\\n"), "alias": ["--ojson"],
                      "expansion": flags + ["--ojson"], "inputs": inputs[:2], "env": {"MLRRC": "rcfile"}, "files": {"rcfile": text.encode()},
                      "doc": "customization.md: command line overrides", "must_succeed": True})
    # ./.mlrrc in the current directory and $HOME/.mlrrc when MLRRC is unset; --norc
    cases.append({"group": "mlrrc", "label": "./.mlrrc", "alias": [], "expansion": ["--icsv", "--ojson"], "inputs": battery("csv", full),
                  "wrapper": ["env", "-u", "MLRRC"], "files": {".mlrrc": b"icsv\nojson\n"}, "doc": "customization.md: ./.mlrrc",
                  "must_succeed": True})
    cases.append({"group": "mlrrc", "label": "--norc", "alias": ["--norc"], "expansion": [], "inputs": battery("dkvp", full),
                  "env": {"MLRRC": "rcfile"}, "files": {"rcfile": b"ojson\n"}, "doc": "--norc: Do not load a .mlrrc file", "must_succeed": True,
                  "env_expansion": None})
    # ---- 6. where .mlrrc files are looked for, stacking order, profiles, refusals (customization.md)
    UNSET = ["env", "-u", "MLRRC", "-u", "XDG_CONFIG_HOME"]
    csvb = battery("csv", full)

    def rc(label, files, expansion, alias=None, env=None, wrapper=UNSET, inputs=None, doc="", **kw):
        facts["mlrrc_forms"] += 1
        cases.append(dict({"group": "mlrrc", "label": label, "alias": alias or [], "expansion": expansion, "inputs": inputs or csvb, "env": env,
                           "files": {k: v.encode() for k, v in files.items()}, "wrapper": wrapper, "doc": "customization.md: " + doc,
                           "must_succeed": True}, **kw))
    H = {"HOME": "h"}
    HX = {"HOME": "h", "XDG_CONFIG_HOME": "x"}
    rc("$HOME/.mlrrc", {"h/.mlrrc": "icsv\nojson\n"}, ["--icsv", "--ojson"], env=H, doc="If $HOME/.mlrrc exists, it's processed")
    rc("$XDG_CONFIG_HOME/miller/mlrrc", {"x/miller/mlrrc": "icsv\nojson\n"}, ["--icsv", "--ojson"], env=HX, wrapper=["env", "-u", "MLRRC"],
       doc="$XDG_CONFIG_HOME/miller/mlrrc")
    rc("$HOME/.config/miller/mlrrc (XDG_CONFIG_HOME unset)", {"h/.config/miller/mlrrc": "icsv\noxtab\n"}, ["--icsv", "--oxtab"], env=H,
       doc="If $XDG_CONFIG_HOME isn't set, $HOME/.config/miller/mlrrc is used instead")
    rc("stacking $HOME then XDG then ./", {"h/.mlrrc": "icsv\nojson\n", "x/miller/mlrrc": "oxtab\n", ".mlrrc": "opprint\n"},
       ["--icsv", "--ojson", "--oxtab", "--opprint"], env=HX, wrapper=["env", "-u", "MLRRC"], doc="each of the following which exists is processed in turn, letting them stack")
    rc("stacking $HOME then XDG", {"h/.mlrrc": "icsv\nojson\n", "x/miller/mlrrc": "oxtab\n"}, ["--icsv", "--ojson", "--oxtab"], env=HX,
       wrapper=["env", "-u", "MLRRC"], doc="stacking order")
    rc("stacking $HOME then ./", {"h/.mlrrc": "icsv\nojson\njvstack\n", ".mlrrc": "ojsonl\n"}, ["--icsv", "--ojson", "--jvstack", "--ojsonl"], env=H,
       doc="stacking order")
    rc("stacking, ./ separators over $HOME", {"h/.mlrrc": "icsv\nocsv\nofs ;\n", ".mlrrc": "ofs tab\n"}, ["--icsv", "--ocsv", "--ofs", ";", "--ofs", "tab"], env=H,
       doc="stacking order")
    rc("stacking + command line wins", {"h/.mlrrc": "icsv\nojson\n", ".mlrrc": "opprint\n"}, ["--icsv", "--ojson", "--opprint", "--oxtab"], alias=["--oxtab"],
       env=H, doc="the command line overrides")
    rc("MLRRC=<file> set: home/XDG/cwd files ignored", {"rcfile": "icsv\nojson\n", "h/.mlrrc": "oxtab\n", "x/miller/mlrrc": "otsv\n", ".mlrrc": "opprint\n"},
       ["--icsv", "--ojson"], env={"MLRRC": "rcfile", "HOME": "h", "XDG_CONFIG_HOME": "x"}, wrapper=None,
       doc="Any .mlrrc in your home directory, XDG config directory, or current directory is ignored whenever MLRRC is set")
    rc("MLRRC=__none__: nothing processed", {"h/.mlrrc": "oxtab\n", "x/miller/mlrrc": "otsv\n", ".mlrrc": "opprint\n"}, [],
       env={"MLRRC": "__none__", "HOME": "h", "XDG_CONFIG_HOME": "x"}, wrapper=None, inputs=battery("dkvp", full), doc="If its value is __none__ then no .mlrrc files are processed")
    rc("MLRRC=<unloadable file>: silently skipped, others still ignored", {"h/.mlrrc": "oxtab\n", "x/miller/mlrrc": "otsv\n", ".mlrrc": "opprint\n"}, [],
       env={"MLRRC": "no-such-file", "HOME": "h", "XDG_CONFIG_HOME": "x"}, wrapper=None, inputs=battery("dkvp", full), trait="MLRRC-unloadable",
       doc="If the file can't be loaded at all, though, it is silently skipped. / Any .mlrrc in your home directory, XDG config directory, or current "
           "directory is ignored whenever MLRRC is set in the environment")
    rc("--norc with $HOME/.mlrrc and ./.mlrrc", {"h/.mlrrc": "oxtab\n", ".mlrrc": "opprint\n"}, [], alias=["--norc"], env=H, inputs=battery("dkvp", full),
       doc="--norc: Do not load a .mlrrc file")
    PROF = "icsv\n\n[j]\n# only with -P j\nojson\njvstack\n\n[ tsvout ]   # comment after header\notsv\n\n[j]\njlistwrap\n\n[broken]\nno-such-flag-at-all\n"
    PE = {"MLRRC": "rcfile"}
    for lab, al, exp in (("no --profile: sections ignored (even unparseable ones)", [], ["--icsv"]), ("-P j (two [j] blocks, in order)", ["-P", "j"], ["--icsv", "--ojson", "--jvstack", "--jlistwrap"]),
                         ("--profile j", ["--profile", "j"], ["--icsv", "--ojson", "--jvstack", "--jlistwrap"]),
                         ("--profile tsvout ([ tsvout ] header)", ["--profile", "tsvout"], ["--icsv", "--otsv"]),
                         ("-P j + command line wins", ["-P", "j", "--oxtab"], ["--icsv", "--ojson", "--jvstack", "--jlistwrap", "--oxtab"])):
        rc("profiles: " + lab, {"rcfile": PROF}, exp, alias=al, env=PE, wrapper=None, doc="Named profiles in your .mlrrc")
    rc("profiles: per-file order across $HOME and ./", {"h/.mlrrc": "icsv\n[j]\nojson\n", ".mlrrc": "oxtab\n[k]\notsv\n"}, ["--icsv", "--ojson", "--oxtab"],
       alias=["-P", "j"], env=H, doc="each file's global settings and matching section settings are applied in that per-file order. The selected profile needs to exist in only one of them")
    for lab, al, files, env_, wr in (
            ("-P nosuch", ["-P", "nosuch"], {"rcfile": PROF}, PE, None), ("-P J (case-sensitive)", ["-P", "J"], {"rcfile": PROF}, PE, None),
            ("-P j --norc", ["-P", "j", "--norc"], {"rcfile": PROF}, PE, None), ("-P j with MLRRC=__none__", ["-P", "j"], {".mlrrc": PROF}, {"MLRRC": "__none__"}, None),
            ("-P j, no .mlrrc anywhere", ["-P", "j"], {"unrelated": "x"}, H, UNSET),
            ("profile line inside .mlrrc", [], {"rcfile": "profile j\n[j]\nojson\n"}, PE, None), ("-P line inside .mlrrc", [], {"rcfile": "-P j\n[j]\nojson\n"}, PE, None),
            ("prepipe line", [], {"rcfile": "prepipe cat\n"}, PE, None), ("--prepipe line", [], {"rcfile": "--prepipe cat\n"}, PE, None),
            ("prepipex line", [], {"rcfile": "prepipex cat\n"}, PE, None),
            ("load line", [], {"rcfile": "load f.mlr\n", "f.mlr": "func f(x) {return x}\n"}, PE, None),
            ("mload line", [], {"rcfile": "mload f.mlr --\n", "f.mlr": "func f(x) {return x}\n"}, PE, None),
            ("unknown flag line (syntax errors abort)", [], {"rcfile": "no-such-flag-at-all\n"}, PE, None)):
        rc("refused: " + lab, files, [], alias=al, env=env_, wrapper=wr, expect_fail=True, inputs=csvb[:1],
           doc="fatal error / parse error per 'What you can put in your .mlrrc' and 'Named profiles'")
    return cases, facts


def alias_cases(chk):
    cases, facts = build_alias_table(chk)
    return cases, facts


# ==========================================================================================
# conv: A->B->A and A->B == A->C->B

CONV_FORMATS = ["csv", "tsv", "json", "jsonl", "dkvp", "dkvpx", "nidx", "xtab", "pprint", "markdown", "yaml", "csvlite"]
JSONISH = ("json", "jsonl", "yaml")
# C01 variants whose input and output separators are given separately (literal, named alias, multi-character)
SEP_VARIANTS = ["csv-fs-semicolon", "csv-fs-pipe-name", "csv-fs-tab", "dkvp-seps", "dkvp-named-seps", "dkvp-multichar", "dkvp-ors", "csvlite-multichar",
                "nidx-fs-comma", "nidx-fs-tab", "xtab-ps-colon", "xtab-ps-multichar", "usv", "asv", "tsvlite", "dkvpx-seps"]
_JSON_NUM = re.compile(rb"-?(0|[1-9][0-9]*)(\.[0-9]+)?([eE][+-]?[0-9]+)?")
_PLAIN = re.compile(rb"[A-Za-z0-9_]+")
_UWS = " \t\n\x0b\x0c\r\x85\xa0                　﻿"


def _numberish(cell):
    if cell[:1] in (b"+", b"-", b".") or cell[:1].isdigit():
        return True
    return cell.lower().lstrip(b"+-") in (b"inf", b"infinity", b"nan")


def _json_safe_number(cell):
    if not _JSON_NUM.fullmatch(cell) or cell == b"-0":
        return False
    if re.fullmatch(rb"-?[0-9]+", cell):
        return -2 ** 63 <= int(cell) <= 2 ** 63 - 1
    try:
        x = float(cell)
    except ValueError:
        return False
    return x == x and abs(x) != float("inf")


def _yaml_safe_number(cell):
    if re.fullmatch(rb"-?(0|[1-9][0-9]*)", cell):
        return -2 ** 63 <= int(cell) <= 2 ** 63 - 1 and cell != b"-0"
    if re.fullmatch(rb"-?(0|[1-9][0-9]*)\.[0-9]+", cell):
        return repr(float(cell)).encode() == cell
    return False


def conv_variant(names):
    vs = [F.variant_by_name(n) for n in names]
    S = set(names)

    def dom(kind, cell):
        if not all(v.dom(kind, cell) for v in vs):
            return False
        if b"\r" in cell or b"\n" in cell or not F.is_utf8(cell) or cell.startswith(C.BOM):
            return False       # per-format codec limits are C01's subject (CR/LF in CSV/DKVPX cells, byte transparency)
        if kind == "key":
            if b"." in cell:
                return False   # statement: keys free of the flatten separator
            if "tsv" in S and (b"\\" in cell or b"\t" in cell):
                return False   # C01-F1 (TSV header not decoded)
            if "yaml" in S and cell == b"<<":
                return False   # C01-F14
        if "markdown" in S:
            t = cell.decode("utf-8")
            if b"|" in cell or (t and (t[0] in _UWS or t[-1] in _UWS)):
                return False   # C01-F8 / C01-F10
        if kind == "val" and cell in (b"{}", b"[]") and S & set(JSONISH):
            return False       # the documented sentinels of empty collections (flatten-unflatten)
        if kind == "val" and _numberish(cell):
            # documented: on JSON output a number whose text is not valid JSON is re-rendered (reference-main-data-types.md)
            if S & set(JSONISH) and not _json_safe_number(cell):
                return False
            if "yaml" in S and not _yaml_safe_number(cell):
                return False   # YAML output re-renders floats (compared by value in C01)
        return True

    v = F.Variant("conv:" + "+".join(names), "conv", [], [], dom, hetero=all(x.hetero for x in vs), positional=any(x.positional for x in vs),
                  sole_empty_ok=all(x.sole_empty_ok for x in vs), bytes_ok=False, max_fields=min(x.max_fields for x in vs))
    if "markdown" in S:
        v.fmt = "markdown"     # reuse the generator's rule-row exclusion
    return v, vs


def _read(res, v, text, sig_extra, what):
    """Miller reads `text` in format v -> records (bytes pairs) or None (+ violation)."""
    argv = v.iflags + READBACK + ["cat"]
    r = R.mlr(argv, stdin=text)
    res["evals"] += 1
    if r.verdict == "slow":
        res["inconc"] += 1
        return None
    if not r.ok:
        add_violation(res, dict({"kind": "conv-read-fail", "fmt": v.name}, **sig_extra), f"{what}: reading {v.name} failed rc={r.rc}: {r.err[:200]!r}",
                      {"argv": argv, "stdin": text})
        return None
    try:
        return [C.record_from_jobj(o) for o in C.parse_json_records(r.stdout)]
    except C.CodecError as e:
        add_violation(res, dict({"kind": "conv-carrier", "fmt": v.name}, **sig_extra), f"{what}: --ojson output not strict JSON: {e}", {"argv": argv, "stdin": text})
        return None


def _conv(res, a, b, text, sig_extra, what):
    argv = a.iflags + b.oflags + ["cat"]
    r = R.mlr(argv, stdin=text)
    res["evals"] += 1
    if r.verdict == "slow":
        res["inconc"] += 1
        return None
    if not r.ok:
        add_violation(res, dict({"kind": "conv-fail", "step": a.name + "->" + b.name}, **sig_extra),
                      f"{what}: conversion {a.name} -> {b.name} failed rc={r.rc}: {r.err[:200]!r}", {"argv": argv, "stdin": text})
        return None
    return r.stdout


def _canon(recs, unordered):
    return [sorted(r) for r in recs] if unordered else recs


def _first_diff(e, g):
    if len(e) != len(g):
        return f"record count {len(e)} -> {len(g)}"
    for i, (x, y) in enumerate(zip(e, g)):
        if x != y:
            if [k for k, _ in x] != [k for k, _ in y]:
                return f"record {i}: keys {[k for k, _ in x][:6]!r} -> {[k for k, _ in y][:6]!r}"
            for (k, a), (_, b) in zip(x, y):
                if a != b:
                    return f"record {i} field {k!r}: {_short(a, 60)!r} -> {_short(b, 60)!r}"
    return "?"


def conv_case(case):
    rng = random.Random(case["seed"])
    names = case["formats"]
    v, vs = conv_variant(sorted(set(names), key=names.index))
    recs = None
    for _ in range(5):
        recs, info = F.gen_records(rng, v, hostile_p=0.4, allow_bytes=False)
        if recs is not None:
            break
    res = case_result(_h("conv", names, recs), len(set(names)) > 1, evals=0)
    if recs is None or ("yaml" in names and any(x.positional for x in vs)):
        # (YAML reading sorts keys, C01-F6: positional formats would be permuted as a consequence)
        res["skipped"] += 1
        return res
    if "markdown" in names:
        for r_ in recs:
            if all(x == b"" for _, x in r_):
                r_[0] = (r_[0][0], b"e")      # C01-F9: the markdown reader drops all-empty rows
    A = F.variant_by_name(names[0])
    sigx = {"path": "->".join(names)}
    bump(res, "conv_path:" + "->".join(names))
    jtext = C.write_json([C.jobj_from_record(r) for r in recs])
    yaml_read = lambda *fmts: any(f == "yaml" for f in fmts)

    def own_round_trip(rs, quiet):
        """JSON -> A (Miller) -> records; None when A's own round trip does not reproduce rs."""
        r_ = R.mlr(A.oflags + ["--ijson", "cat"], stdin=C.write_json([C.jobj_from_record(x) for x in rs]))
        res["evals"] += 1
        if not r_.ok:
            return None, None
        before = len(res["viol"])
        got_ = _read(res, A, r_.stdout, sigx, "precondition")
        if quiet:
            del res["viol"][before:]
        if got_ is None or _canon(got_, yaml_read(names[0])) != _canon(rs, yaml_read(names[0])):
            return None, r_.stdout
        return got_, r_.stdout

    base, TA = own_round_trip(recs, True)
    if base is None:
        # the per-format round trip itself fails on this list: C01's subject, not a conversion defect - UNLESS it also fails once every
        # cell is replaced by a plain word (same shape), where no C01 finding about a character class can be the reason
        plain = [[(k if _PLAIN.fullmatch(k) else b"k%d" % j, x if _PLAIN.fullmatch(x) else b"w%d" % (i * 31 + j)) for j, (k, x) in enumerate(r_)]
                 for i, r_ in enumerate(recs)]
        pbase, pTA = own_round_trip(plain, False)
        if pbase is None and all(len({k for k, _ in r_}) == len(r_) for r_ in plain):
            add_violation(res, {"kind": "conv-precondition", "fmt": names[0]},
                          f"{names[0]}: JSON -> {names[0]} -> JSON fails even on plain alphanumeric cells (same record shapes as the generated list)",
                          {"argv": A.oflags + ["--ijson", "cat"], "stdin": C.write_json([C.jobj_from_record(x) for x in plain]), "text_A": _short(pTA, 2000)})
        res["skipped"] += 1
        bump(res, "precondition_failed_c01")
        return res
    det = {"formats": names, "json_in": _short(jtext, 3000), "text_A": _short(TA, 3000)}
    if case["shape"] == "aba":
        B = F.variant_by_name(names[1])
        TB = _conv(res, A, B, TA, sigx, "A->B")
        if TB is None:
            return res
        TA2 = _conv(res, B, A, TB, sigx, "B->A")
        if TA2 is None:
            return res
        got = _read(res, A, TA2, sigx, "A->B->A")
        if got is None:
            return res
        unordered = yaml_read(names[0], names[1])
        if _canon(got, unordered) != _canon(recs, unordered):
            add_violation(res, dict({"kind": "aba", "A": names[0], "B": names[1]}, **sigx),
                          f"{names[0]} -> {names[1]} -> {names[0]} does not reproduce the records: {_first_diff(_canon(recs, unordered), _canon(got, unordered))}",
                          dict(det, text_B=_short(TB, 3000), text_A2=_short(TA2, 3000), argv=A.iflags + B.oflags + ["cat"], stdin=TA))
        else:
            bump(res, "aba_held")
            if TA2 == TA:
                bump(res, "aba_bytes_identical")
    else:
        Cn, B = F.variant_by_name(names[1]), F.variant_by_name(names[2])
        TB1 = _conv(res, A, B, TA, sigx, "A->B")
        TC = _conv(res, A, Cn, TA, sigx, "A->C")
        if TB1 is None or TC is None:
            return res
        TB2 = _conv(res, Cn, B, TC, sigx, "C->B")
        if TB2 is None:
            return res
        g1 = _read(res, B, TB1, sigx, "A->B")
        g2 = _read(res, B, TB2, sigx, "A->C->B")
        if g1 is None or g2 is None:
            return res
        u1 = yaml_read(names[0], names[2])
        u2 = yaml_read(names[0], names[1], names[2])
        if _canon(g1, u1) != _canon(recs, u1):
            add_violation(res, dict({"kind": "ab", "A": names[0], "B": names[2]}, **sigx),
                          f"{names[0]} -> {names[2]} changes the records: {_first_diff(_canon(recs, u1), _canon(g1, u1))}",
                          dict(det, text_B=_short(TB1, 3000), argv=A.iflags + B.oflags + ["cat"], stdin=TA))
        elif _canon(g1, u2) != _canon(g2, u2):
            add_violation(res, dict({"kind": "acb", "A": names[0], "C": names[1], "B": names[2]}, **sigx),
                          f"{names[0]} -> {names[2]} differs from {names[0]} -> {names[1]} -> {names[2]}: {_first_diff(_canon(g1, u2), _canon(g2, u2))}",
                          dict(det, text_B_direct=_short(TB1, 3000), text_C=_short(TC, 3000), text_B_via_C=_short(TB2, 3000)))
        else:
            bump(res, "acb_held")
            if TB1 == TB2:
                bump(res, "acb_bytes_identical")
    res["sample"] = {"monitor": "conv", "path": names, "records_head": [[[_short(k, 40), _short(x, 40)] for k, x in r] for r in recs[:2]]}
    return res


def conv_cases(chk):
    rng = chk.rng("conv")
    cases = []
    fm = CONV_FORMATS
    if chk.quick():
        pairs = [(a, b) for a in fm for b in fm if a != b]
        rng.shuffle(pairs)
        for i in range(300):
            a, b = pairs[i % len(pairs)]
            cases.append({"shape": "aba", "formats": [a, b], "seed": f"{chk.seed}/aba/{i}"})
        for i in range(150):
            a, b = pairs[(i * 7 + 3) % len(pairs)]
            c = rng.choice([x for x in ("json", "csv", "dkvp", "xtab", "tsv", "pprint") if x not in (a, b)])
            cases.append({"shape": "acb", "formats": [a, c, b], "seed": f"{chk.seed}/acb/{i}"})
    else:
        for a in fm:
            for b in fm:
                if a == b:
                    continue
                for i in range(40):
                    cases.append({"shape": "aba", "formats": [a, b], "seed": f"{chk.seed}/aba/{a}/{b}/{i}"})
                for c in ("json", "csv", "dkvp", "xtab"):
                    if c in (a, b):
                        continue
                    for i in range(15):
                        cases.append({"shape": "acb", "formats": [a, c, b], "seed": f"{chk.seed}/acb/{a}/{c}/{b}/{i}"})
    # user-specified separators on ONE side, defaults on the other (reference-main-separators.md: named aliases, multi-character separators)
    n = len(SEP_VARIANTS) * len(fm)
    combos = [(a, b) for a in SEP_VARIANTS for b in fm if F.variant_by_name(a).fmt != b]
    rng.shuffle(combos)
    reps = 1 if chk.quick() else 2
    for j, (a, b) in enumerate(combos[:60] if chk.quick() else combos):
        for i in range(reps):
            cases.append({"shape": "aba", "formats": [a, b] if (i + j) % 2 == 0 else [b, a], "seed": f"{chk.seed}/sep-aba/{a}/{b}/{i}"})
        if not chk.quick() or j % 3 == 0:
            c = rng.choice([x for x in ("json", "csv", "dkvp", "xtab") if x != b and x != F.variant_by_name(a).fmt])
            cases.append({"shape": "acb", "formats": [a, c, b] if j % 2 else [b, a, c], "seed": f"{chk.seed}/sep-acb/{a}/{c}/{b}"})
    return cases


# ==========================================================================================
# nest: JSON -> tabular -> JSON

NEST_TABULAR = {
    "csv": (["--ocsv"], ["--icsv"]), "tsv": (["--otsv"], ["--itsv"]), "dkvp": (["--odkvp"], ["--idkvp"]),
    "xtab": (["--oxtab"], ["--ixtab"]), "pprint": (["--opprint"], ["--ipprint"]), "csvlite": (["--ocsvlite"], ["--icsvlite"]),
}
FLATSEPS = [".", ":", "__", "·", "->"]
LEAF_STR = ["x", "abc", "hello", "0.50", "17", "-3", "1e5", "true", "false", "007", "Zq", "a-b", "q_r", "é", "☃", "12abc", "[x]", "{y}"]
LEAF_NUM = ["0", "1", "-5", "42", "3.25", "0.50", "1e5", "100", "9223372036854775807"]
KEYS = ["a", "b", "c", "id", "x1", "val", "k", "m", "n", "name", "é", "p-q", "u_v", "K", "zz", "3", "10", "1x", "0", "2", "1"]


NUMERAL_FAMILIES = {
    # keys that are numerals; only the EXACT texts "1".."n" in order are the documented array look-alike
    "canonical": lambda i, n: str(i), "zero-pad-2": lambda i, n: "%02d" % i, "zero-pad-3": lambda i, n: "%03d" % i,
    "zero-pad-mixed-width": lambda i, n: "0" * (i % 3) + str(i), "plus-signed": lambda i, n: "+%d" % i, "decimal-point": lambda i, n: "%d.0" % i,
    "leading-space": lambda i, n: " %d" % i, "trailing-space": lambda i, n: "%d " % i, "hex": lambda i, n: "0x%x" % i,
    "exponent": lambda i, n: "%de0" % i, "underscore": lambda i, n: "%d_" % i if i > 9 else "0_%d" % i,
    "mixed-first-noncanonical": lambda i, n: ("0%d" % i) if i == 1 else str(i),
    "mixed-last-noncanonical": lambda i, n: ("0%d" % i) if i == n else str(i),
    "mixed-middle-plus": lambda i, n: ("+%d" % i) if i == (n + 1) // 2 else str(i),
    "zero-based": lambda i, n: str(i - 1), "shuffled": lambda i, n: str(i % n + 1) if n > 1 else "2", "sparse": lambda i, n: str(2 * i - 1) if n > 1 else "3",
    "two-based": lambda i, n: str(i + 1), "negative": lambda i, n: str(-i), "binary": lambda i, n: "0b" + bin(i)[2:],
}


def numeral_keys(family, n):
    return [NUMERAL_FAMILIES[family](i, n) for i in range(1, n + 1)]


def gen_shape(rng, depth, sep, top=False, allow_empty_str=True, family=None):
    """A JSON shape with leaf slots, so that records of one stream share the key list. About a third of the maps are keyed by
    numerals (canonical 1..n, non-canonical spellings of 1..n, 0-based, shuffled, sparse ...): the unflatten heuristic must turn
    ONLY the exact texts "1".."n" in order back into an array."""
    x = rng.random()
    if depth > 0 and (top or x < 0.45):
        n = rng.choice([0, 1, 2, 2, 3, 4]) if not top else rng.choice([1, 2, 3, 5])
        if top or rng.random() < 0.55:
            keys, numeral = [], False
            fam = family or (rng.choice(sorted(NUMERAL_FAMILIES)) if rng.random() < 0.35 else None)
            if fam and n:
                nk = numeral_keys(fam, rng.choice([1, 2, 3, 4, 11]) if rng.random() < 0.5 else n)
                if len(set(nk)) == len(nk) and not any(sep in k for k in nk):
                    keys, numeral = nk, True
            pool = [k for k in KEYS if sep not in k]
            while not numeral and len(keys) < n:
                k = rng.choice(pool)
                if k not in keys:
                    keys.append(k)
            subs = [gen_shape(rng, depth - 1, sep, allow_empty_str=allow_empty_str) for _ in keys]
            return ("map", keys, subs)
        return ("arr", [gen_shape(rng, depth - 1, sep, allow_empty_str=allow_empty_str) for _ in range(n)])
    kinds = ["num", "str", "str", "bool"] + (["empty"] if allow_empty_str else [])
    return ("leaf", rng.choice(kinds))


def focused_shape(rng, sep, family, allow_empty_str):
    """One numeral-keyed map of the given family directly under a record field, one two levels down, one inside an array."""
    leaf = lambda: ("leaf", rng.choice(["num", "str", "bool"]))
    n1, n2, n3 = rng.choice([1, 2, 3]), rng.choice([2, 3, 4]), rng.choice([2, 11])
    m = lambda n, sub: ("map", numeral_keys(family, n), [sub() for _ in range(n)])
    inner = lambda: ("map", ["x", "y"], [leaf(), leaf()])
    return ("map", ["id", "m", "deep", "arr", "tail"],
            [leaf(), m(n2, leaf), ("map", ["q"], [m(n1 + 1, inner)]), ("arr", [m(n3, leaf), leaf()]), leaf()])


def documented_unflatten(v, top=True):
    """flatten-unflatten.md, auto-inferencing: a (nested) map whose keys are exactly "1".."n", starting with "1", consecutively
    and with no gaps, comes back as an array; everything else comes back as it was."""
    if isinstance(v, C.JObj):
        kids = C.JObj((k, documented_unflatten(x, False)) for k, x in v)
        if not top and kids and [k for k, _ in kids] == [str(i + 1) for i in range(len(kids))]:
            return [x for _, x in kids]
        return kids
    if isinstance(v, list):
        return [documented_unflatten(x, False) for x in v]
    return v


def fill_shape(shape, rng):
    t = shape[0]
    if t == "map":
        return C.JObj((k, fill_shape(s, rng)) for k, s in zip(shape[1], shape[2]))
    if t == "arr":
        return [fill_shape(s, rng) for s in shape[1]]
    k = shape[1]
    if k == "num":
        return C.JNum(rng.choice(LEAF_NUM))
    if k == "bool":
        return rng.choice([True, False])
    if k == "empty":
        return ""
    return rng.choice(LEAF_STR)


def leaf_text(v):
    if v is True:
        return "true"
    if v is False:
        return "false"
    return str(v)


def flatten_model(rec, sep):
    """flatten-unflatten.md: join the path with the separator; array indices are 1-up; empty collections are the
    strings '{}' / '[]'."""
    out = []

    def walk(prefix, v):
        if isinstance(v, C.JObj):
            if not v:
                out.append((prefix, "{}"))
            for k, x in v:
                walk(prefix + sep + k, x)
        elif isinstance(v, list):
            if not v:
                out.append((prefix, "[]"))
            for i, x in enumerate(v):
                walk(prefix + sep + str(i + 1), x)
        else:
            out.append((prefix, leaf_text(v)))
    for k, x in rec:
        walk(k, x)
    return out


def paths_of(rec):
    """Key paths (lists of components) of every flattened name of a record."""
    out = []

    def walk(path, v):
        if isinstance(v, C.JObj) and v:
            for k, x in v:
                walk(path + [k], x)
        elif isinstance(v, list) and v:
            for i, x in enumerate(v):
                walk(path + [str(i + 1)], x)
        else:
            out.append(path)
    for k, x in rec:
        walk([k], x)
    return out


def tree_diff(e, g, path="$"):
    """Structure exactly, scalar leaves by text. -> None or a description."""
    if isinstance(e, C.JObj):
        if not isinstance(g, C.JObj):
            return f"{path}: map became {type(g).__name__} {repr(g)[:60]}"
        if [k for k, _ in e] != [k for k, _ in g]:
            return f"{path}: keys {[k for k, _ in e]} became {[k for k, _ in g]}"
        for (k, x), (_, y) in zip(e, g):
            d = tree_diff(x, y, path + "." + k)
            if d:
                return d
        return None
    if isinstance(e, list):
        if isinstance(g, C.JObj) or not isinstance(g, list):
            return f"{path}: array became {type(g).__name__} {repr(g)[:60]}"
        if len(e) != len(g):
            return f"{path}: array length {len(e)} became {len(g)}"
        for i, (x, y) in enumerate(zip(e, g)):
            d = tree_diff(x, y, f"{path}[{i + 1}]")
            if d:
                return d
        return None
    if isinstance(g, (list,)):
        return f"{path}: scalar {e!r} became a collection {repr(g)[:60]}"
    if leaf_text(e) != leaf_text(g):
        return f"{path}: leaf text {leaf_text(e)!r} became {leaf_text(g)!r}"
    return None


def has_depth2(v, d=0):
    if isinstance(v, C.JObj):
        return any(has_depth2(x, d + 1) for _, x in v) or (d >= 1 and True) or not v
    if isinstance(v, list):
        return True
    return False


def nest_case(case):
    rng = random.Random(case["seed"])
    fmt, sep = case["fmt"], case["sep"]
    oflags, iflags = NEST_TABULAR[fmt]
    vdom = F.variant_by_name(fmt)
    if case.get("family"):
        if any(sep in k for k in numeral_keys(case["family"], 11)):
            res = case_result(_h("nest-skip", fmt, sep, case["family"]), False, evals=0)
            res["skipped"] += 1          # statement: keys free of the flatten separator
            return res
        shape = focused_shape(rng, sep, case["family"], fmt != "xtab")
    else:
        shape = gen_shape(rng, rng.choice([2, 3, 4]), sep, top=True, allow_empty_str=(fmt != "xtab"))
    recs = [fill_shape(shape, rng) for _ in range(rng.choice([1, 2, 3, 5]))]
    expected = [documented_unflatten(r) for r in recs]
    res = case_result(_h("nest", fmt, sep, repr(recs)), False, evals=0)
    flat = [flatten_model(r, sep) for r in recs]
    # Keys free of the separator are not enough for a multi-character separator: "11_" + "__" + "x" reads back as
    # "11" / "_x" under ANY splitting rule.  Such names are outside the domain where the joined name determines the path
    # (a thorough-tier false alarm at seed 1 came from a generated key ending in "_" under the separator "__").
    if any(sep.join(pth).split(sep) != pth for r in recs for pth in paths_of(r)):
        res["skipped"] += 1
        bump(res, "nest_skipped_joined_name_ambiguous")
        return res
    # domain of the tabular hop
    for fr in flat:
        if not fr or len({k for k, _ in fr}) != len(fr):
            res["skipped"] += 1
            return res
        for k, x in fr:
            if not vdom.dom("key", k.encode()) or not vdom.dom("val", x.encode()):
                res["skipped"] += 1
                return res
    if any(len(fr) == 1 and fr[0][1] == "" for fr in flat) and not vdom.sole_empty_ok:
        res["skipped"] += 1
        return res
    res["nontrivial"] = any(isinstance(x, list) or (isinstance(x, C.JObj) and (not x or any(isinstance(y, (list, C.JObj)) for _, y in x)))
                            for r in recs for _, x in r)
    bump(res, f"nest:{fmt}:{sep}")
    if case.get("family"):
        bump(res, "nest_numeral_family:" + case["family"])
    sig_family = {"family": case["family"]} if case.get("family") else {}
    sepflag = [] if sep == "." else [rng.choice(["--flatsep", "--jflatsep"]), sep]
    jtext = C.write_json(recs, {"shape": rng.choice(["array", "lines"])})
    wargv = ["--ijson"] + oflags + sepflag + ["cat"]
    r = R.mlr(wargv, stdin=jtext)
    res["evals"] += 1
    det = {"argv": wargv, "stdin": jtext, "fmt": fmt, "sep": sep}
    sig = {"fmt": fmt, "sep": sep}
    if r.verdict == "slow":
        res["inconc"] += 1
        return res
    if not r.ok:
        add_violation(res, dict(sig, kind="nest-flatten-fail"), f"JSON -> {fmt} failed rc={r.rc}: {r.err[:200]!r}", det)
        return res
    T = r.stdout
    # the intermediate text against the flatten model (independent reader of the tabular format)
    try:
        tab = vdom.pyread(T)
        exp_tab = [[(k.encode(), x.encode()) for k, x in fr] for fr in flat]
        if tab != exp_tab:
            add_violation(res, dict(sig, kind="nest-flatten-model"), f"JSON -> {fmt} (flatsep {sep!r}): flattened fields differ from the documented key-joining: "
                          f"{_first_diff(exp_tab, tab)}", dict(det, text=_short(T, 3000)))
            return res
        bump(res, "flatten_model_held")
    except C.CodecError as e:
        add_violation(res, dict(sig, kind="nest-flatten-model"), f"JSON -> {fmt}: output not well-formed: {e}", dict(det, text=_short(T, 3000)))
        return res
    rargv = iflags + ["--ojson"] + sepflag + ["cat"]
    r = R.mlr(rargv, stdin=T)
    res["evals"] += 1
    det2 = {"argv": rargv, "stdin": T, "written_by": wargv, "json_in": _short(jtext, 3000)}
    if not r.ok:
        add_violation(res, dict(sig, kind="nest-unflatten-fail"), f"{fmt} -> JSON failed rc={r.rc}: {r.err[:200]!r}", det2)
        return res
    try:
        got = C.read_json_document(r.stdout)
    except C.CodecError as e:
        add_violation(res, dict(sig, kind="nest-unflatten-fail"), f"{fmt} -> JSON output is not a JSON array document: {e}", det2)
        return res
    if len(got) != len(recs):
        add_violation(res, dict(sig, kind="nest-identity", what="record-count"), f"JSON -> {fmt} -> JSON: {len(recs)} records became {len(got)}", det2)
        return res
    ok = True
    for e, g in zip(expected, got):
        d = tree_diff(e, g)
        if d:
            ok = False
            code = next((c for c in ("map became", "array became", "array length", "keys", "scalar", "leaf text") if c in d), "other")
            add_violation(res, dict(sig, kind="nest-identity", what=code, **sig_family),
                          f"JSON -> {fmt} -> JSON (flatsep {sep!r}) is not the identity (only maps keyed exactly \"1\"..\"n\" may become arrays): {d}",
                          dict(det2, stdout=_short(r.stdout, 3000)))
            break
    if ok:
        bump(res, "nest_identity_held")
        res["sample"] = {"monitor": "nest", "fmt": fmt, "sep": sep, "json": _short(jtext, 300), "tabular": _short(T, 300)}
    # the same law through the verbs, without any tabular hop
    vargv = ["--json", "flatten", "-s", sep, "then", "unflatten", "-s", sep]
    r = R.mlr(vargv, stdin=jtext)
    res["evals"] += 1
    det3 = {"argv": vargv, "stdin": jtext}
    if r.verdict == "slow":
        res["inconc"] += 1
    elif not r.ok:
        add_violation(res, dict(sig, kind="nest-verbs-fail", **sig_family), f"flatten then unflatten failed rc={r.rc}: {r.err[:200]!r}", det3)
    else:
        try:
            gotv = C.parse_json_records(r.stdout)
        except C.CodecError as e:
            gotv = None
            add_violation(res, dict(sig, kind="nest-verbs-fail", **sig_family), f"flatten then unflatten: output not JSON: {e}", det3)
        if gotv is not None:
            dv = "record count" if len(gotv) != len(expected) else next((d for d in (tree_diff(e, g) for e, g in zip(expected, gotv)) if d), None)
            if dv:
                code = next((c for c in ("map became", "array became", "array length", "keys", "scalar", "leaf text", "record count") if c in dv), "other")
                add_violation(res, dict(sig, kind="nest-verbs-identity", what=code, **sig_family),
                              f"mlr --json flatten -s {sep!r} then unflatten -s {sep!r} is not the identity: {dv}", dict(det3, stdout=_short(r.stdout, 3000)))
            else:
                bump(res, "nest_verbs_identity_held")
    return res


def nest_doc_case(case):
    """The two documented limits of the unflatten heuristic do exactly the documented thing."""
    res = case_result(_h("nestdoc", case["name"]), True, evals=0)
    for argv, stdin, want, wanterr in case["runs"]:
        r = R.mlr(argv, stdin=stdin)
        res["evals"] += 1
        if r.verdict == "slow":
            res["inconc"] += 1
            continue
        if isinstance(want, tuple):
            missing = [ln for ln in want[1] if ln not in r.stdout.split(b"\n")]
            if not r.ok or missing:
                add_violation(res, {"kind": "nest-documented-limit", "name": case["name"], "what": "text"},
                              f"{case['name']}: mlr {' '.join(argv)} on {stdin!r} gives {r.stdout[:300]!r} (rc {r.rc}); documented lines missing: {missing!r}",
                              {"argv": argv, "stdin": stdin, "expected_lines": want[1]})
            else:
                bump(res, "nest_documented_limit_held")
            continue
        try:
            got = C.parse_json_records(r.stdout) if r.ok else None
        except C.CodecError:
            got = None
        exp = C.parse_json_records(want)
        if got != exp:
            add_violation(res, {"kind": "nest-documented-limit", "name": case["name"]},
                          f"{case['name']}: mlr {' '.join(argv)} on {stdin!r} gives {r.stdout[:300]!r} (rc {r.rc}), documented {want!r}",
                          {"argv": argv, "stdin": stdin, "expected": want})
        elif wanterr and wanterr not in r.stderr:
            add_violation(res, {"kind": "nest-documented-limit", "name": case["name"], "what": "warning-missing"},
                          f"{case['name']}: the documented warning {wanterr!r} is not printed", {"argv": argv, "stdin": stdin, "stderr": r.err[:500]})
        else:
            bump(res, "nest_documented_limit_held")
    return res


def nest_cases(chk):
    cases = []
    q = chk.quick()
    fmts = ["csv", "tsv", "dkvp"] if q else list(NEST_TABULAR)
    per = 100 if q else 210
    i = 0
    for fmt in fmts:
        for sep in (FLATSEPS if not q else FLATSEPS[:4]):
            n = per if sep == "." else per // (4 if q else 1)
            for j in range(n):
                cases.append({"fmt": fmt, "sep": sep, "seed": f"{chk.seed}/nest/{fmt}/{sep}/{j}"})
    if q:
        for fmt in ("xtab", "pprint", "csvlite"):
            for j in range(25):
                cases.append({"fmt": fmt, "sep": FLATSEPS[j % 3], "seed": f"{chk.seed}/nest/{fmt}/{j}"})
    # numeral-keyed maps: every tabular format x flatten separator x key family (top level of a field, nested, inside an array)
    for fmt in NEST_TABULAR:
        for sep in FLATSEPS:
            for fam in sorted(NUMERAL_FAMILIES):
                for j in range(1 if q else 4):
                    cases.append({"fmt": fmt, "sep": sep, "family": fam, "seed": f"{chk.seed}/nestnum/{fmt}/{sep}/{fam}/{j}"})
    return cases


def nest_doc_cases(chk):
    W = b"cannot be auto-unflattened"
    return [
        {"name": "map keyed 1..n comes back as an array (flatten-unflatten.md, auto-inferencing)", "runs": [
            (["--icsv", "--ojson", "cat"], b"a.1,a.2,a.3\n4,5,6\n", b'[{"a":[4,5,6]}]', None),
            (["--icsv", "--ojson", "cat"], b"a.1,a.3,a.5\n4,5,6\n", b'[{"a":{"1":4,"3":5,"5":6}}]', None),
            (["--icsv", "--ojson", "cat"], b"a.2,a.1\n4,5\n", b'[{"a":{"2":4,"1":5}}]', None),
            (["--icsv", "--ojson", "cat"], b"a.0,a.1\n4,5\n", b'[{"a":{"0":4,"1":5}}]', None),
            (["--ijson", "--ojson", "flatten", "then", "unflatten"], b'{"e":{"1":"p","2":"q"}}', b'[{"e":["p","q"]}]', None),
            (["--icsv", "--ojson", "cat"], b"a.1.x,a.2.x\n4,5\n", b'[{"a":[{"x":4},{"x":5}]}]', None),
        ]},
        {"name": "names starting/ending with or doubling the separator are not unflattened (flatten-unflatten.md, non-inferencing)", "runs": [
            (["--icsv", "--ojson", "cat"], b"a,b.,.c,.,d..e,f.g\n1,2,3,4,5,6\n", b'[{"a":1,"b.":2,".c":3,".":4,"d..e":5,"f":{"g":6}}]', W),
            (["--icsv", "--ojson", "--flatsep", ":", "cat"], b"a,b:,:c,d::e,f:g,h.i\n1,2,3,5,6,7\n", b'[{"a":1,"b:":2,":c":3,"d::e":5,"f":{"g":6},"h.i":7}]', W),
        ]},
        {"name": "--no-auto-flatten / --no-auto-unflatten (flatten-unflatten.md, manual control)", "runs": [
            (["--icsv", "--ojson", "--no-auto-unflatten", "cat"], b"a.x,a.y\n1,2\n", b'[{"a.x":1,"a.y":2}]', None),
            (["--ijson", "--ojson", "cat"], b'{"a.x":1,"b":{"c":2}}', b'[{"a.x":1,"b":{"c":2}}]', None),
            (["--icsv", "--ojson", "--no-auto-unflatten", "unflatten"], b"a.x,a.y\n1,2\n", b'[{"a":{"x":1,"y":2}}]', None),
            (["--icsv", "--ojsonl", "cat"], b"a.x,a.y\n1,2\n", b'{"a":{"x":1,"y":2}}', None),
            (["-i", "csv", "-o", "jsonl", "--no-auto-unflatten", "cat"], b"a.x,a.y\n1,2\n", b'{"a.x":1,"a.y":2}', None),
            (["--ijsonl", "--ojson", "cat"], b'{"a.x":1,"b":{"c":2}}\n', b'[{"a.x":1,"b":{"c":2}}]', None),
            (["--ijsonl", "--ocsv", "cat"], b'{"a":{"x":1,"y":[2,3]}}\n', ("lines", [b"a.x,a.y.1,a.y.2", b"1,2,3"]), None),
            (["--iyaml", "--ocsv", "cat"], b"a:\n  x: 1\n  y:\n    - 2\n    - 3\n", ("lines", [b"a.x,a.y.1,a.y.2", b"1,2,3"]), None),
            (["--icsv", "--oyaml", "cat"], b"a.x,a.z\n1,2\n", ("lines", [b"- a:", b"    x: 1", b"    z: 2"]), None),
            (["--icsv", "--oyaml", "--no-auto-unflatten", "cat"], b"a.x,a.z\n1,2\n", ("lines", [b"- a.x: 1", b"  a.z: 2"]), None),
            (["--csv", "--no-auto-flatten", "put", '$c = splita($h, ".")'], b"h\na.b\n", ("lines", [b"h,c", b'a.b,"[""a"", ""b""]"']), None),
            (["--csv", "put", '$c = splita($h, ".")'], b"h\na.b\n", ("lines", [b"h,c.1,c.2", b"a.b,a,b"]), None),
        ]},
        {"name": "a trailing `flatten` verb is not undone by auto-unflatten (convention, see assumptions)", "runs": [
            (["--icsv", "--ojson", "flatten"], b"a.x,a.y\n1,2\n", b'[{"a.x":1,"a.y":2}]', None),
            (["--icsv", "--ojson", "flatten", "then", "cat"], b"a.x,a.y\n1,2\n", b'[{"a":{"x":1,"y":2}}]', None),
            (["--ijson", "--ojson", "flatten"], b'{"a":{"x":1,"y":[2]}}', b'[{"a.x":1,"a.y.1":2}]', None),
            (["--ijson", "--ojson", "flatten", "then", "unflatten"], b'{"a":{"x":1,"y":[2]}}', b'[{"a":{"x":1,"y":[2]}}]', None),
        ]},
        {"name": "DCF keeps list-valued fields as comma lists instead of key-spreading them (file-formats.md, DCF example)", "runs": [
            (["-i", "dcf", "-o", "json", "cat"], b"Package: foo\nVersion: 1.0\nDepends: libc6 (>= 2.0), libfoo (>= 1.2)\n\nPackage: bar\nRecommends: foo\n",
             b'[{"Package":"foo","Version":"1.0","Depends":["libc6 (>= 2.0)","libfoo (>= 1.2)"]},{"Package":"bar","Recommends":["foo"]}]', None),
            (["-i", "json", "-o", "dcf", "cat"], b'{"Package":"foo","Version":"1.0","Depends":["libc6 (>= 2.0)","libfoo (>= 1.2)"]}',
             ("lines", [b"Package: foo", b"Version: 1.0", b"Depends: libc6 (>= 2.0), libfoo (>= 1.2)"]), None),
            (["--dcf", "cat"], b"Package: foo\nDepends: libc6 (>= 2.0), libfoo (>= 1.2)\n", ("lines", [b"Package: foo", b"Depends: libc6 (>= 2.0), libfoo (>= 1.2)"]), None),
        ]},
    ]



# ==========================================================================================
# decide: the documented auto-flatten / auto-unflatten decision for every (input format, output format, last verb, flags)

D_LETTER = {"csv": "c", "tsv": "t", "json": "j", "jsonl": "l", "dkvp": "d", "nidx": "n", "xtab": "x", "pprint": "p", "markdown": "m", "yaml": "y"}
D_IN = ["json", "jsonl", "yaml", "csv", "tsv", "dkvp", "xtab", "pprint", "markdown", "csvlite", "tsvlite", "usv", "asv", "dkvpx", "dcf", "recutils"]
D_OUT = ["json", "jsonl", "yaml", "csv", "tsv", "dkvp", "xtab", "pprint", "markdown", "csvlite", "tsvlite", "usv", "asv", "dkvpx", "nidx", "dcf",
         "recutils"]
D_FLAG_ONLY = ("tsvlite", "usv", "asv")        # no -i/-o name accepted (reported by the selection-spelling entries)
D_CHAINS = {
    "cat": [("cat", None)], "flatten": [("flatten", None)], "unflatten": [("unflatten", None)],
    "flatten-then-cat": [("flatten", None), ("cat", None)], "cat-then-flatten": [("cat", None), ("flatten", None)],
    "unflatten-then-flatten": [("unflatten", None), ("flatten", None)], "flatten-then-unflatten": [("flatten", None), ("unflatten", None)],
    "put": [("put", None)], "put-then-flatten": [("put", None), ("flatten", None)], "put-then-unflatten": [("put", None), ("unflatten", None)],
    "flatten-s": [("flatten", "@")], "flatten-s-then-cat": [("flatten", "@"), ("cat", None)], "unflatten-s": [("unflatten", "@")],
}
D_FLAGSETS = [[], [], ["--no-auto-flatten"], ["--no-auto-unflatten"], ["--no-auto-flatten", "--no-auto-unflatten"]]
D_WORDS = ["pan", "eks", "wye", "zee", "hat", "x1", "Q", "u_v", "a-b", "k9"]
D_EXTRA_OFLAGS = {"xtab": [[], ["--xvright"]], "json": [[], ["--no-jvstack"], ["--jvstack"]], "csv": [[], ["--quote-all"]],
                  "pprint": [[], ["--right"]], "yaml": [[], ["--no-yarray"]]}


def d_selection(rng, ifmt, ofmt):
    """One of the documented spellings of the selection (input ifmt, output ofmt)."""
    fl = lambda side, n: (["-" + side, n] if n == "dkvpx" else ["--" + side + ("md" if n == "markdown" and rng.random() < 0.5 else n)])
    forms = [fl("i", ifmt) + fl("o", ofmt), fl("o", ofmt) + fl("i", ifmt)]
    if ifmt not in D_FLAG_ONLY and ofmt not in D_FLAG_ONLY:
        forms.append(["-i", ifmt, "-o", ofmt])
    if ifmt in D_LETTER and ofmt in D_LETTER and not (ifmt == ofmt == "markdown"):
        forms.append(["--%s2%s" % (D_LETTER[ifmt], D_LETTER[ofmt])])
    if ifmt == ofmt:
        forms.append(["--" + ifmt])
        if ifmt not in D_FLAG_ONLY:
            forms.append(["--io", ifmt])
    return rng.choice(forms)


def d_records(rng, ifmt, sep, allow_literal, other_sep):
    """Homogeneous records: plain fields, fields whose NAMES contain the flatten separator (map-like, array-like 1..n, optionally the
    documented literal class) and, when the input format can nest, collection-valued fields."""
    word = lambda: rng.choice(D_WORDS)
    num = lambda: C.JNum(str(rng.choice([0, 1, 7, 42, -3, 100])))
    leaf = lambda: num() if rng.random() < 0.5 else word()
    fields = [("id", "num")]
    if ifmt in NESTABLE_FORMATS:
        shapes = [("m", ("map", ["x", "y"], [("leaf",), ("leaf",)])), ("n", ("map", ["s"], [("map", ["w", "v"], [("leaf",), ("arr", [("leaf",), ("leaf",)])])])),
                  ("o", ("arr", [("leaf",), ("map", ["q"], [("leaf",)])])), ("e", ("map", [], [])), ("l", ("arr", []))]
        rng.shuffle(shapes)
        for nm, sh in shapes[:rng.choice([1, 2, 3, 5])]:
            fields.append((nm, sh))
    dotted = [["p" + sep + "q"], ["r" + sep + "1", "r" + sep + "2", "r" + sep + "3"], ["s" + sep + "t" + sep + "u", "s" + sep + "t" + sep + "v"],
              ["g" + sep + "1" + sep + "a", "g" + sep + "2" + sep + "a"], ["h" + sep + "1", "h" + sep + "3"]]
    rng.shuffle(dotted)
    for grp in dotted[:rng.choice([1, 2, 3])]:
        fields += [(k, "leaf") for k in grp]
    if allow_literal and rng.random() < 0.4:
        fields.append((rng.choice(["b" + sep, sep + "c", "d" + sep + sep + "f"]), "leaf"))
    if other_sep and rng.random() < 0.5:
        fields.append(("j" + other_sep + "i", "leaf"))       # a different separator is not THE separator: stays literal
    if rng.random() < 0.3:
        fields.append(("em", "{}" if rng.random() < 0.5 else "[]"))
    fields.append(("t", "word"))

    def fill(sh):
        if sh == "num":
            return num()
        if sh == "word":
            return word()
        if sh in ("{}", "[]"):
            return sh
        if sh == "leaf" or sh[0] == "leaf":
            return leaf()
        if sh[0] == "map":
            return C.JObj((k, fill(x)) for k, x in zip(sh[1], sh[2]))
        return [fill(x) for x in sh[1]]
    return [C.JObj((k, fill(sh)) for k, sh in fields) for _ in range(rng.choice([1, 2, 3]))]


NESTABLE_FORMATS = X.NESTABLE


def d_write_input(ifmt, recs, rng):
    if ifmt == "json":
        return C.write_json(recs, {"shape": rng.choice(["array", "lines", "concat"])})
    if ifmt == "jsonl":
        return C.write_json(recs, {"shape": "lines"})
    if ifmt == "yaml":
        return X.write_yaml(recs, multidoc=rng.random() < 0.4)
    brecs = [[(k.encode(), X.leaf_text(v).encode()) for k, v in r] for r in recs]
    if ifmt == "dkvpx":
        return C.write_dkvpx(brecs)
    if ifmt in ("dcf", "recutils"):
        return X.write_stanzas(brecs)
    return F.variant_by_name(ifmt).pywrite(brecs)


def d_read_output(ofmt, data):
    """-> byte records (non-nestable) ; JObj list for json/jsonl."""
    if ofmt == "json":
        return C.read_json_document(data)
    if ofmt == "jsonl":
        return C.read_jsonl_document(data)
    if ofmt == "dkvpx":
        return C.read_dkvpx_document(data)
    if ofmt in ("dcf", "recutils"):
        return X.read_stanzas(data)
    return F.variant_by_name(ofmt).pyread(data)


def decide_case(case):
    rng = random.Random(case["seed"])
    ifmt, ofmt, chain_name, flags, sep = case["ifmt"], case["ofmt"], case["chain"], case["flags"], case["sep"]
    colon_ok = not ({ifmt, ofmt} & {"dcf", "recutils"})      # `key: value` stanzas
    sep2 = next(x for x in ([":"] if colon_ok else []) + [".", "__"] if x != sep)
    verbs = [(n, (sep2 if s == "@" else s)) for n, s in D_CHAINS[chain_name]]
    has_unflatten_verb = any(n == "unflatten" for n, _ in verbs)
    recs = d_records(rng, ifmt, sep, allow_literal=not has_unflatten_verb, other_sep=(sep2 if colon_ok else None))
    res = case_result(_h("decide", ifmt, ofmt, chain_name, flags, sep, repr(recs)), True, evals=0)
    exp, fl, un = X.expected_output(recs, ifmt, ofmt, verbs, flags, sep)
    sel = d_selection(rng, ifmt, ofmt)
    extra = rng.choice(D_EXTRA_OFLAGS.get(ofmt, [[]]))
    sepflag = [] if sep == "." else [rng.choice(["--flatsep", "--jflatsep"]), sep]
    argv = sel + extra + sepflag + flags + X.chain_argv(verbs)
    text = d_write_input(ifmt, recs, rng)
    cell = f"{'nestable' if ifmt in X.NESTABLE else 'flat'}->{'nestable' if ofmt in X.NESTABLE else 'flat'}"
    sig = {"kind": "decide", "in": ifmt, "out": ofmt, "chain": chain_name, "flags": "+".join(f[5:] for f in flags) or "default"}
    det = {"argv": argv, "stdin": text, "model": {"auto_flatten_appended": fl, "auto_unflatten_appended": un, "flatsep": sep},
           "documented": "flatten-unflatten.md, Manual control"}
    stringified = any(X.is_coll(v) for r in exp for _, v in r)
    if ofmt == "dcf" and any(X.is_coll(v) for r_ in X.apply_chain(recs, verbs, sep) for _, v in r_):
        res["skipped"] += 1     # the DCF writer has its own serialization of list-valued fields (`Depends: a, b`: file-formats.md example); collection
        bump(res, "decide_skipped_collection_to_dcf")    # values handed to it are outside the documented key-spreading rule
        res["nontrivial"] = False
        return res
    if ofmt not in X.NESTABLE and stringified and ofmt not in ("csv", "tsv"):
        res["skipped"] += 1     # a JSON-stringified collection spans lines / contains the field separator: not readable back from this format
        bump(res, "decide_skipped_stringified_cell_not_readable_in_format")
        res["nontrivial"] = False
        return res
    r = R.mlr(argv, stdin=text)
    res["evals"] += 1
    if r.verdict == "slow":
        res["inconc"] += 1
        return res
    if not r.ok:
        add_violation(res, dict(sig, what="fails"), f"{' '.join(argv)}: rc={r.rc} signal={r.signal} verdict={r.verdict}: {r.err[:200]!r}", det)
        return res
    out = r.stdout
    unordered = ifmt == "yaml"
    if ofmt == "yaml":
        rb = R.mlr(["--iyaml", "--ojson", "cat"], stdin=out)
        res["evals"] += 1
        if rb.verdict == "slow":
            res["inconc"] += 1
            return res
        if not rb.ok:
            add_violation(res, dict(sig, what="yaml-output-unreadable"), f"{' '.join(argv)}: the YAML written is not readable by --iyaml: {rb.err[:200]!r}",
                          dict(det, stdout=_short(out, 2000)))
            return res
        out, unordered = rb.stdout, True
    try:
        got = d_read_output("json" if ofmt == "yaml" else ofmt, out)
    except C.CodecError as e:
        add_violation(res, dict(sig, what="output-malformed"), f"{' '.join(argv)}: output is not well-formed {ofmt}: {e}", dict(det, stdout=_short(r.stdout, 2000)))
        return res
    diff = None
    if len(got) != len(exp):
        diff = f"record count {len(exp)} -> {len(got)}"
    elif ofmt in X.NESTABLE:
        for i, (e, g) in enumerate(zip(exp, got)):
            d = tree_diff(X.sort_keys(e), X.sort_keys(g)) if unordered else tree_diff(e, g)
            if d:
                diff = f"record {i}: {d}"
                break
    else:
        for i, (e, g) in enumerate(zip(exp, got)):
            ek = [k for k, _ in e]
            gk = [k.decode("utf-8", "replace") for k, _ in g]
            if ofmt == "nidx":
                ev, gv_ = [X.leaf_text(v).encode() for _, v in e], [v for _, v in g]
                if (sorted(ev) != sorted(gv_)) if unordered else (ev != gv_) or gk != [str(j + 1) for j in range(len(ek))]:
                    diff = f"record {i}: NIDX values {ev} expected, got {gv_}"
                    break
                continue
            if (sorted(ek) != sorted(gk)) if unordered else (ek != gk):
                diff = f"record {i}: field names {ek} expected, got {gk}"
                break
            gd = dict(zip(gk, [v for _, v in g]))
            for (k, v), k2 in zip(e, ek):
                gv = gd[k2]
                if X.is_coll(v):
                    try:
                        pv = C.parse_json_values(gv)
                        d = "not one JSON value" if len(pv) != 1 else tree_diff(X.sort_keys(v) if unordered else v, X.sort_keys(pv[0]) if unordered else pv[0])
                    except C.CodecError as ex:
                        d = f"not JSON text ({ex})"
                    if d:
                        diff = f"record {i} field {k!r}: expected the JSON-stringified collection, got {_short(gv, 80)!r}: {d}"
                        break
                elif X.leaf_text(v).encode() != gv:
                    diff = f"record {i} field {k!r}: {X.leaf_text(v)!r} expected, got {_short(gv, 80)!r}"
                    break
            if diff:
                break
    bump(res, "decide_cell:" + cell)
    bump(res, f"decide_pair:{ifmt}->{ofmt}")
    bump(res, "decide_chain:" + chain_name)
    bump(res, "decide_model:" + ("flatten" if fl else "unflatten" if un else "neither"))
    if diff:
        add_violation(res, dict(sig, what="records", cell=cell, model=("flatten" if fl else "unflatten" if un else "neither")),
                      f"{' '.join(argv)}: by the documented rule Miller appends {'`then flatten`' if fl else '`then unflatten`' if un else 'nothing'} "
                      f"to the chain ({ifmt} in, {ofmt} out); output differs: {diff}",
                      dict(det, stdout=_short(r.stdout, 3000), expected=_short(C.write_json(exp, {'shape': 'lines'}), 3000)))
    else:
        bump(res, "decide_held")
        res["sample"] = {"monitor": "decide", "argv": argv, "stdin": _short(text, 300), "stdout": _short(r.stdout, 300)}
    return res


def decide_cases(chk):
    rng = chk.rng("decide")
    cases = []
    q = chk.quick()
    chains = sorted(D_CHAINS)

    def add(i, o, ch, fl, sep, tag):
        if ({i, o} & {"dcf", "recutils"}) and sep == ":":
            sep = "."
        if "--no-auto-flatten" in fl and o not in X.NESTABLE and o not in ("csv", "tsv") and ch not in ("flatten", "cat-then-flatten", "put-then-flatten",
                                                                                                      "unflatten-then-flatten", "flatten-s"):
            if i in X.NESTABLE or ch.startswith("put") or "unflatten" in ch:
                o = rng.choice(["csv", "tsv"])
        cases.append({"ifmt": i, "ofmt": o, "chain": ch, "flags": fl, "sep": sep, "seed": f"{chk.seed}/decide/{tag}/{len(cases)}"})
    core_in = ["json", "jsonl", "yaml", "csv", "dkvp"]
    core_out = ["json", "jsonl", "yaml", "csv", "xtab"]
    if q:
        for i in D_IN:
            for o in D_OUT:
                add(i, o, rng.choice(chains), rng.choice(D_FLAGSETS), rng.choice([".", ".", ":", "__"]), "pair")
        for i in core_in:
            for o in core_out:
                for ch in chains:
                    if rng.random() < 0.5 or ch in ("cat", "flatten", "unflatten"):
                        add(i, o, ch, rng.choice(D_FLAGSETS), rng.choice([".", ".", ":"]), "core")
    else:
        for i in D_IN:
            for o in D_OUT:
                for ch in chains:
                    add(i, o, ch, D_FLAGSETS[len(cases) % len(D_FLAGSETS)], rng.choice([".", ".", ":", "__"]), "full")
        for i in core_in:
            for o in core_out:
                for ch in chains:
                    for fl in D_FLAGSETS[1:]:
                        add(i, o, ch, fl, rng.choice([".", ":", "__"]), "core")
    return cases


MONITORS = {
    "conv": lambda chk: (conv_case, conv_cases(chk)),
    "nest": lambda chk: (nest_case, nest_cases(chk)),
}


def run(chk):
    only = getattr(chk, "only", None)
    chk.rule = ("alias: every entry of the flag/alias table enumerated from `mlr help format-conversion-keystroke-saver-flags`, `help flag --X2Y` "
                "(all letter pairs incl. hidden ones), `help file-format-flags`, the `or` spellings of the option sections, `help list-separator-aliases` "
                "x {--ifs --ofs --fs --ips --ops --ps --irs --ors --rs}, regex aliases and .mlrrc line forms, each run against its documented expansion "
                "on a battery of inputs of the entry's input format (3 per entry quick, all 5-7 thorough); conv: random (A,B) and (A,C,B) over 12 formats "
                "x record lists from the C01 generator restricted to the intersection domain; nest: random nested JSON (depth <= 4, maps, arrays, empty "
                "collections, number-like strings, integer-like keys) x tabular format x flatten separator. Non-trivial = conversion with A != B; nested "
                "document with an array, an empty collection or depth >= 2; table entry whose expansion differs textually from the alias and that produced "
                "output; distinct = hash of the case. conv additionally: 16 C01 variants with user-specified separators (literal, named alias, "
                "multi-character; input and output separators given separately) as A or B against the 12 default-separator formats. "
                "selection spellings: every format name of the documentation x {input, output, both} x every documented spelling. "
                "decide: quick = every (input, output) format pair once with a random chain / flag set / separator + a core grid "
                "{json jsonl yaml csv dkvp} x {json jsonl yaml csv xtab} x 13 chains; thorough = all pairs x 13 chains + the core grid x 4 flag sets; "
                "records carry collection-valued fields (nestable inputs), names containing the flatten separator (map-like, array-like 1..n, "
                "gapped, the documented literal class, a different separator) and '{}' / '[]' texts")
    if not only or "alias" in only:
        cases, facts = alias_cases(chk)
        chk.extra["alias_table"] = facts
        chk.extra["alias_entries_total"] = len(cases)
        chk.extra["alias_table_enumerated_exhaustively"] = True
        chk.pmap(alias_case, cases, chunksize=4, label="alias table")
        scases, sfacts = spelling_cases(chk)
        chk.extra["selection_spellings"] = dict(sfacts, groups=len(scases), spellings=sum(len(c["spellings"]) for c in scases))
        chk.pmap(spelling_case, scases, chunksize=2, label="selection spellings")
        for msg in facts["table_inconsistencies"]:
            if msg.startswith("-p2p"):
                continue        # reported through the entry itself (it never succeeds)
            chk.add_violation({"kind": "alias-table", "what": msg.split(":")[0]}, "help/documentation tables disagree: " + msg, {"message": msg})
    if not only or "conv" in only:
        chk.pmap(conv_case, conv_cases(chk), chunksize=2, label="conv")
    if not only or "nest" in only:
        chk.pmap(nest_case, nest_cases(chk), chunksize=4, label="nest")
        chk.pmap(nest_doc_case, nest_doc_cases(chk), label="nest documented limits")
    if not only or "decide" in only:
        chk.pmap(decide_case, decide_cases(chk), chunksize=4, label="decide (auto-flatten/unflatten decision table)")
    if not only or "docs" in only:
        chk.pmap(docreplay.replay_page, [{"page": pg} for pg in ("flatten-unflatten.md", "reference-main-separators.md", "keystroke-savers.md",
                                                                  "customization.md")], label="doc-replay")
    st = chk.stats
    chk.extra["decide_cells"] = {k[12:]: v for k, v in st.items() if k.startswith("decide_cell:")}
    chk.extra["decide_format_pairs_reached"] = len([k for k in st if k.startswith("decide_pair:")])
    chk.extra["decide_chains"] = {k[13:]: v for k, v in st.items() if k.startswith("decide_chain:")}
    chk.extra["decide_model_outcomes"] = {k[13:]: v for k, v in st.items() if k.startswith("decide_model:")}
    for k in [k for k in st if k.split(":")[0] in ("decide_cell", "decide_pair", "decide_chain", "decide_model")]:
        st.pop(k)
    chk.extra["conversion_paths_reached"] = len([k for k in st if k.startswith("conv_path:")])
    chk.extra["nest_format_x_separator_reached"] = sorted(k[5:] for k in st if k.startswith("nest:"))
    chk.extra["nest_numeral_key_families_reached"] = {k[20:]: v for k, v in st.items() if k.startswith("nest_numeral_family:")}
    chk.extra["alias_entries_by_group"] = {k[14:]: v for k, v in st.items() if k.startswith("alias_entries:")}
    for k in [k for k in st if k.split(":")[0] in ("conv_path", "nest", "alias_entries", "nest_numeral_family")]:
        st.pop(k)
    chk.assumptions = [
        "conv: cells come from the C01 generator restricted to the conjunction of the formats' C01 domain predicates; character classes on which a "
        "single format's own round trip already fails (C01 findings: CR/LF inside CSV/DKVPX cells, backslash/TAB in TSV header names, '|' and edge "
        "white space in markdown cells, YAML '<<' key and leading newlines) are not generated, and a case whose A-only round trip fails is skipped: a "
        "C02 violation is therefore a defect of the conversion, not of one codec",
        "conv: keys are free of the flatten separator (statement); values that look numeric are generated only in a spelling that is a valid JSON "
        "number within int64/double range when JSON, JSON Lines or YAML is on the path (documented: other spellings are re-rendered on JSON output), "
        "and only canonical integers/decimals when YAML is on the path (YAML output re-renders floats)",
        "conv: when YAML is read on the path records are compared as unordered key/value sets (the YAML reader sorts keys: C01-F6)",
        "conv: records are compared through --ojson --jvquoteall --no-auto-unflatten (key list, order, value text), the comparison C01 validates per format",
        "nest: keys non-empty and free of the flatten separator; no JSON null leaves (their tabular text is not documented); string leaves are not '{}' or '[]' "
        "(the sentinels of empty collections); a nested map whose keys are exactly the texts \"1\"..\"n\" in order is expected back as an array "
        "(documented heuristic) and every other numeral-keyed map (zero-padded, signed, 1.0, spaces, hex, exponent, mixed, 0-based, shuffled, sparse) as a map; leaves "
        "restricted to the tabular format's C01 domain",
        "alias: expansions are computed from the text the binary prints (`help flag` sentence, legend, matrix position, 'Keystroke-saver for' sentence, "
        "the alias table's right-hand column) and from file-formats.md / customization.md; separator values are additionally compared with a hard-coded "
        "copy of reference-main-separators.md; .mlrrc forms are limited to the documented ones ('--flag', 'flag', '--option value', 'option value', "
        "comments, blank lines); `key=value` lines and CRLF-terminated lines are not documented and not run; relative HOME / XDG_CONFIG_HOME "
        "directories inside the scratch cwd stand for the user's directories",
        "alias/must-succeed: every battery input is well-formed for the entry's input format, so a failing EXPANSION is a violation; the one exemption "
        "is the documented data error 'schema change' of the CSV/TSV writers on the heterogeneous / nested battery inputs (and the barred PPRINT "
        "battery input, which file-formats.md reads with --barred-input only)",
        "selection spellings: reference-main-flag-list.md defines `-i N` as the same as `--iN` (`-o N` / `--oN`, `--io N` / `--N`) by example "
        "('-i csv is the same as --icsv'; reference-verbs.md join: 'and so on'); the rule is applied to every N for which the File-format flags "
        "section lists an --iN / --oN / --N flag and to the names of shell-completion.md (gen excluded: it reads no input)",
        "decide: the rule is the prose of flatten-unflatten.md 'Manual control' (non-JSON/YAML output => `then flatten` appended unless "
        "--no-auto-flatten; JSON/YAML output and non-JSON/YAML input => `then unflatten` appended unless --no-auto-unflatten), JSON Lines counting as "
        "JSON (file-formats.md). Two conventions the prose does not state are pinned and listed here: (1) when the last verb written by the user is "
        "`flatten`, no unflatten is appended after it; (2) DCF output is not key-spread (its writer has its own comma-list form for list-valued "
        "fields, the inverse of the documented reading example): collection values reaching a DCF writer are skipped in `decide` and the comma-list "
        "form is pinned by three documented-example cases",
        "decide: `unflatten` 'reverses flatten' (verb help): names split at the separator, maps keyed exactly 1..n become arrays, the texts '{}' / '[]' "
        "become empty collections; names of the documented non-inferencing class (leading / trailing / doubled separator) are generated only when "
        "no explicit `unflatten` verb is in the chain (the page defines that class for the automatic conversion only); nested maps of JSON input never "
        "carry numeral keys here (the numeral families are the nest monitor's subject); base names of separator-carrying fields are distinct from "
        "all other field names (no collisions on unflatten)",
        "decide: with --no-auto-flatten a collection reaching a non-nestable writer is JSON-stringified (flatten-unflatten.md example): the cell is "
        "compared after JSON-parsing it, and only for CSV / TSV output (multi-line / separator-carrying JSON text is not readable back from the other "
        "formats: skipped); YAML output is read back through --iyaml --ojson and, whenever YAML is read, keys are compared as sets at every level "
        "(C01-F6: the YAML reader sorts keys); leaves are compared by text",
    ]
