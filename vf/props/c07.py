"""C07 - arithmetic is exact on int64, overflows to float, and never crashes.

Monitor: reference model (vf/model/arith.py: Python big ints + IEEE doubles, written from
reference-main-arithmetic.md and the function help texts) against the real binary.
Operands reach Miller as DATA fields (DKVP columns a,b,c: the inference -> disposition
matrix -> kernel path users hit); one mlr process evaluates every operator of a family
(21 binary / 8 unary / 4 ternary) on a few thousand operand rows and prints, per cell,
typeof(r) plus an exact rendering (fmtnum %d for ints, %.17le for floats).  A process that
dies (Go panic / fatal exit) is localised to the (row, operator) cells that kill it by
halving the operator set and then bisecting the rows (rows with an int-0 divisor / modulus
are scheduled in a process of their own so that they cannot take a whole batch with them).

Sub-monitors (--only): grid, unary, ternary, random, near, mulband, around (thorough only).
"""
import hashlib
import math
import random
import struct

from .. import run as R
from ..harness import add_violation, bump, case_result
from ..model import arith as A

BINARIES = ("mlr-verif",)
LEVEL = "exploration"

MIN, MAX = A.MIN, A.MAX
BIG = 1 << 53     # ints beyond this are not exactly representable as doubles
INF, NAN = A.INF, A.NAN


# ------------------------------------------------------------------------------------------
# the Miller side

ENC = ('func enc(r) { t = typeof(r); if (t == "int") { return "i" . fmtnum(r, "%d") } '
       'elif (t == "float") { return "f" . fmtnum(r, "%.17le") } else { return t } }')

FIELDS = {"bin": ("a", "b"), "un": ("a",), "ter": ("a", "b", "c")}
OPS = {"bin": A.BINARY, "un": A.UNARY, "ter": A.TERNARY}


def op_expr(op):
    if op in ("+", "-", "*", "/", "//", "%", "**", ".+", ".-", ".*", "./", "&", "|", "^", "<<", ">>", ">>>"):
        return f"$a {op} $b"
    if op in ("pow", "min", "max", "roundm"):
        return f"{op}($a, $b)"
    if op == "neg":
        return "-$a"
    if op == "pos":
        return "+$a"
    if op == "~":
        return "~ $a"
    if op in ("abs", "ceil", "floor", "round", "sgn"):
        return f"{op}($a)"
    if op in A.TERNARY:
        return f"{op}($a, $b, $c)"
    raise KeyError(op)


def program(kind, ops):
    """Inf/NaN cannot arrive as inferred data (documented: they stay strings unless float() is
    applied), so a string operand is passed through float() first; every other operand is used
    as inferred from the field."""
    lines = [ENC]
    for n in FIELDS[kind]:
        lines.append(f"if (is_string(${n})) {{ ${n} = float(${n}) }}")
    cells = ", ".join(f'"o{k}": enc({op_expr(op)})' for k, op in ops)
    lines.append('$* = {"i": $i, ' + cells + "};")
    return "\n".join(lines)


def spell(x, hexy=False):
    if A.is_int(x):
        if hexy:
            return "0x%x" % (x % (1 << 64)) if x < 0 else "0x%x" % x
        return str(x)
    if x != x:
        return "NaN"
    if x == INF:
        return "Inf"
    if x == -INF:
        return "-Inf"
    return repr(x)


def row_text(kind, i, row, hexmask=0):
    parts = [f"i={i}"]
    for j, n in enumerate(FIELDS[kind]):
        parts.append(f"{n}={spell(row[j], bool(hexmask >> j & 1) and A.is_int(row[j]))}")
    return ",".join(parts)


def shell_repro(kind, op, row, hexmask=0):
    data = row_text(kind, 0, row, hexmask).split(",", 1)[1]
    pre = "".join(f"if (is_string(${n})) {{${n} = float(${n})}} " for j, n in enumerate(FIELDS[kind])
                  if not A.is_int(row[j]) and not A.finite(row[j]))
    return f"echo '{data}' | mlr put '{pre}$r = {op_expr(op)}; $t = typeof($r)'"


def parse_cell(s):
    if s.startswith("i"):
        try:
            return ("int", int(s[1:]))
        except ValueError:
            return ("unparsable:" + s,)
    if s.startswith("f") and s != "funct":
        try:
            return ("float", float(s[1:]))
        except ValueError:
            return ("unparsable:" + s,)
    return (s,)


class Died(Exception):
    def __init__(self, r):
        self.r = r


def run_rows(kind, ops, rows, idx, hexmasks):
    """One mlr process over rows[idx]; returns {row index: {op index: got}} or raises Died."""
    stdin = "\n".join(row_text(kind, i, rows[i], hexmasks[i] if hexmasks else 0) for i in idx) + "\n"
    r = R.mlr(["--idkvp", "--odkvp", "put", program(kind, ops)], stdin=stdin, cpu_s=30, watchdog=120.0)
    if not r.ok:
        raise Died(r)
    out = {}
    for line in r.out.splitlines():
        f = dict(p.split("=", 1) for p in line.split(",") if "=" in p)
        try:
            i = int(f["i"])
        except (KeyError, ValueError):
            raise Died(r)
        out[i] = {k: parse_cell(f.get(f"o{k}", "missing")) for k, _ in ops}
    if set(out) != set(idx):
        raise Died(r)
    return out


def death_label(r):
    if r.verdict in ("slow", "deadlock"):
        return "hang"
    if r.verdict in ("cpu", "output-cap"):
        return r.verdict
    if r.crashed():
        return "crash"
    return "abort"


def death_text(r):
    for line in r.err.splitlines():
        if line.startswith("panic:") or line.startswith("fatal error:") or line.startswith("mlr:"):
            return line[:200]
    return (r.err.strip().splitlines() or [f"rc={r.rc} signal={r.signal}"])[0][:200]


def row_class(row):
    return tuple(A.cls(x) for x in row)


def recover(kind, opk, rows, idx, hexmasks, table, res):
    """A process running the single operator opk over rows[idx] died: find every cell that
    kills it.  Recursive halving; once a killing row is known, rows of the same operand class
    are tried one by one (they usually all die, and a process can only report its first)."""
    k, op = opk
    bad_classes = set()
    work = [list(idx)]
    while work:
        chunk = work.pop()
        if len(chunk) > 1 and bad_classes:
            sus = [i for i in chunk if row_class(rows[i]) in bad_classes]
            if sus:
                rest = [i for i in chunk if row_class(rows[i]) not in bad_classes]
                if rest:
                    work.append(rest)
                for i in reversed(sus):
                    work.append([i])
                continue
        try:
            got = run_rows(kind, [opk], rows, chunk, hexmasks)
            bump(res, "recovery_runs")
            for i in chunk:
                table.setdefault(i, {})[k] = got[i][k]
        except Died as d:
            bump(res, "recovery_runs")
            if len(chunk) == 1:
                table.setdefault(chunk[0], {})[k] = ("died", death_label(d.r), death_text(d.r))
                bad_classes.add(row_class(rows[chunk[0]]))
            else:
                mid = len(chunk) // 2
                work.append(chunk[mid:])
                work.append(chunk[:mid])


def eval_ops(kind, ops, rows, idx, hexmasks, table, res):
    """Fill table[row][op] for the given operators and rows; when the process dies, halve the
    operator set until the dying operator(s) are alone, then localise the rows."""
    try:
        got = run_rows(kind, ops, rows, idx, hexmasks)
        for i in idx:
            table.setdefault(i, {}).update(got[i])
        return
    except Died:
        bump(res, "dying_processes")
    if len(ops) == 1:
        recover(kind, ops[0], rows, idx, hexmasks, table, res)
        return
    mid = len(ops) // 2
    eval_ops(kind, ops[:mid], rows, idx, hexmasks, table, res)
    eval_ops(kind, ops[mid:], rows, idx, hexmasks, table, res)


def evaluate(kind, rows, hexmasks, res):
    """Rows whose last operand is the int 0 (zero divisor / zero modulus) run in a process of
    their own: that is only scheduling (a dying process takes its whole batch with it), every
    cell is still evaluated and judged the same way."""
    ops = list(enumerate(OPS[kind]))
    zero = [i for i, row in enumerate(rows) if kind != "un" and A.is_int(row[-1]) and row[-1] == 0]
    zs = set(zero)
    main = [i for i in range(len(rows)) if i not in zs]
    table = {}
    for part in (main, zero):
        if part:
            eval_ops(kind, ops, rows, part, hexmasks, table, res)
    return table


# ------------------------------------------------------------------------------------------
# non-triviality (DESIGN C07): exact result within 2^11 of +-2^63 or +-2^53, or a zero/extreme
# operand, or int and float mixed

_EDGES = (1 << 63, -(1 << 63), 1 << 53, -(1 << 53))


def _near_edge(r):
    return any(abs(r - e) <= 2048 for e in _EDGES)


def nontrivial(kind, row):
    ints = [x for x in row if A.is_int(x)]
    if len(ints) != len(row):
        if ints:
            return True                      # mixed
        if any((not A.finite(x)) or x == 0 for x in row):
            return True
        return any(abs(abs(x) - 2.0 ** 63) <= 4096 or abs(abs(x) - 2.0 ** 53) <= 4 for x in row)
    if any(x in (0, MIN, MAX, MIN + 1) for x in row):
        return True
    if any(_near_edge(x) for x in row):
        return True
    if kind == "un":
        return False
    a, b = row[0], row[1]
    if _near_edge(a + b) or _near_edge(a - b) or _near_edge(a * b):
        return True
    if 0 <= b <= 64 and abs(a) > 1 and b * math.log2(abs(a)) < 70 and _near_edge(a ** b):
        return True
    return False


def rowkey(kind, row):
    h = hashlib.blake2b(repr((kind, row)).encode(), digest_size=8).digest()
    return int.from_bytes(h, "big")


# ------------------------------------------------------------------------------------------
# judging one batch

SIG_CAP = 4   # witnesses kept per (case, signature); the rest are only counted


def check_rows(kind, rows, res, hexmasks=None):
    table = evaluate(kind, rows, hexmasks, res)
    ops = OPS[kind]
    seen_sigs = {}
    ntk = []
    maxpow = 0
    for i, row in enumerate(rows):
        if nontrivial(kind, row):
            ntk.append(rowkey(kind, row))
        a = row[0]
        b = row[1] if len(row) > 1 else None
        c = row[2] if len(row) > 2 else None
        for k, op in enumerate(ops):
            got = table.get(i, {}).get(k)
            if got is None:
                res["inconc"] += 1
                continue
            bump(res, "cells")
            bump(res, "cells:" + op)
            exp = A.expect(op, a, b, c)
            if exp.anynum:
                bump(res, "cells_nocrash_only")
            sig = None
            if got[0] == "died":
                if got[1] == "hang":
                    res["inconc"] += 1
                    continue
                sig = {"kind": got[1], "op": op, "a": A.cls(a), "b": A.cls(b), "c": A.cls(c),
                       "cell": f"{op}({A.cls(a)},{A.cls(b)},{A.cls(c)})"}
                what = f"{op_text(op, row)} kills the process: {got[2]}"
                gottxt = got[2]
            else:
                if op in ("**", "pow") and got[0] == "float" and exp.floats and not exp.anynum:
                    d = min((A.ulp_distance(got[1], y) for y in exp.floats
                             if A.ulp_distance(got[1], y) is not None), default=None)
                    if d is not None and d <= exp.ulps:
                        maxpow = max(maxpow, d)
                v = A.judge(exp, got)
                if v is not None:
                    big = (any(A.is_int(x) and abs(x) > BIG for x in row) or any(abs(x) > BIG for x in exp.ints)
                           or (exp.exact is not None and abs(exp.exact) > BIG))
                    sig = {"kind": v[0], "op": op, "a": A.cls(a), "b": A.cls(b), "c": A.cls(c), "note": exp.note,
                           "beyond_2^53": bool(big), "cell": f"{op}({A.cls(a)},{A.cls(b)},{A.cls(c)})"}
                    gottxt = render(got)
                    what = f"{op_text(op, row)} gives {gottxt}; documented: {exp.describe()} [{v[1]}]"
            if sig is None:
                continue
            sk = tuple(sorted(sig.items()))
            n = seen_sigs.get(sk, 0)
            seen_sigs[sk] = n + 1
            if n >= SIG_CAP:
                bump(res, "violations_same_signature_not_listed")
                continue
            hm = hexmasks[i] if hexmasks else 0
            add_violation(res, sig, what, {
                "argv": ["--idkvp", "--odkvp", "put", program(kind, [(k, op)])],
                "stdin": row_text(kind, 0, row, hm) + "\n",
                "shell": shell_repro(kind, op, row, hm),
                "operands": [spell(x) for x in row],
                "expected": exp.describe(), "got": gottxt,
            })
    res["nontrivial_keys"] = ntk
    res["evals"] = len(rows) * len(ops)
    if maxpow:
        res["stats"]["max_pow_ulp_distance"] = [maxpow]   # set-union in the harness; max taken in run()
    return table


def render(got):
    if got[0] == "int":
        return f"int {got[1]}"
    if got[0] == "float":
        return f"float {got[1]!r}"
    return got[0]


def op_text(op, row):
    s = [spell(x) for x in row]
    if op in A.UNARY:
        return {"neg": f"-({s[0]})", "pos": f"+({s[0]})", "~": f"~({s[0]})"}.get(op, f"{op}({s[0]})")
    if op in A.TERNARY:
        return f"{op}({s[0]}, {s[1]}, {s[2]})"
    if op in ("pow", "min", "max", "roundm"):
        return f"{op}({s[0]}, {s[1]})"
    return f"{s[0]} {op} {s[1]}"


# ------------------------------------------------------------------------------------------
# operand grids

def grid():
    g = {0, 1, -1, 2, -2, 3, -3, 5, 7, 10, -10, 21, 40, 62, 63, 64, 65, -62, -63, -64, -65,
         MAX, -MAX, MIN, MAX - 1, MIN + 1, MIN + 2,
         3037000498, 3037000499, 3037000500, 3037000501, 3037000502, -3037000499, -3037000500,
         2097151, 2097152, 2642245, 2642246,               # cube roots of 2^63
         55108, 55109, 6208, 6209,                         # 4th / 5th roots
         3074457345618258602, 3074457345618258603,         # 2^63 / 3
         4611686018427387903, 4611686018427387904, 4611686018427387905,
         -4611686018427387904, -4611686018427387905,
         9223372036854774784, 9223372036854774783, 9223372036854774785, 9223372036854775296,
         9007199254740993, -9007199254740993, 9007199254740991}
    for k in (7, 8, 15, 16, 31, 32, 52, 53, 62):
        for d in (-1, 0, 1):
            g.add((1 << k) + d)
            g.add(-((1 << k) + d))
    ints = sorted(g)
    assert all(A.fits(x) for x in ints)
    floats = [0.0, -0.0, 0.5, -0.5, 1.5, -1.5, 2.5, -2.5, 1.0, -1.0, 2.0, 3.0, 0.1, 63.0, 64.0, -3.0,
              1e308, -1e308, 5e-324, -5e-324, 2.2250738585072014e-308, 1.7976931348623157e+308,
              9007199254740992.0, 9007199254740994.0, -9007199254740992.0, 4503599627370496.5,
              9223372036854775808.0, -9223372036854775808.0, 9223372036854774784.0, -9223372036854777856.0,
              18446744073709551616.0, 4294967296.0, 1e19, 123456.789, -7.25,
              INF, -INF, NAN]
    return ints, floats


def subgrid_ternary():
    ab = [0, 1, -1, 2, 3, 7, 10, -2, -3, 2147483647, 2147483648, 4294967296, 4294967297,
          3037000499, 3037000500, 9007199254740993, 4611686018427387904, 4611686018427387905,
          9223372036854775783, MAX, MAX - 1, MIN, MIN + 1, -4294967296, -4611686018427387904,
          -3037000500, 65537, 1000000007, 63, 64]
    mpos = [1, 2, 3, 7, 10, 64, 65537, 2147483647, 4294967296, 4294967311, 3037000500,
            1000000007, 4611686018427387904, 9223372036854775783, MAX - 1, MAX]
    mother = [0, -1, -2, -7, MIN, MIN + 1, -4294967296, 1.5, 0.0, -0.0, 7.0, NAN, INF, -INF]
    absmall = [0, 1, -1, 7, MAX, MIN, 4294967297, 2.5]
    return ab, mpos, mother, absmall


def boundaries():
    return [0, 1 << 7, 1 << 8, 1 << 15, 1 << 16, 1 << 31, 1 << 32, -(1 << 31), -(1 << 32), 1 << 52, 1 << 53,
            -(1 << 53), 1 << 62, -(1 << 62), MAX - 128, MIN + 128, 3037000500, -3037000500,
            3074457345618258603, 4611686018427387904 - 300, 9223372036854774784 - 64]


# ------------------------------------------------------------------------------------------
# random operands

def rand_int(rng):
    m = rng.random()
    if m < 0.35:
        return rng.getrandbits(64) - (1 << 63)
    if m < 0.75:
        v = rng.getrandbits(rng.randint(1, 63))
        return -v if rng.random() < 0.5 else v
    if m < 0.9:
        e = rng.choice([MAX, MIN, 1 << 62, -(1 << 62), 1 << 53, 1 << 32, 1 << 31, 0])
        v = e + rng.randint(-300, 300)
        return min(MAX, max(MIN, v))
    return rng.randint(-70, 70)


def rand_float(rng):
    m = rng.random()
    if m < 0.25:
        x = struct.unpack(">d", struct.pack(">Q", rng.getrandbits(64)))[0]
        return x
    if m < 0.55:
        return rng.choice([-1, 1]) * rng.random() * 10.0 ** rng.randint(-5, 20)
    if m < 0.75:
        return float(rng.randint(-1000, 1000)) + rng.choice([0.0, 0.5, 0.25])
    if m < 0.9:
        e = rng.choice([2.0 ** 63, -2.0 ** 63, 2.0 ** 53, 2.0 ** 64, 2.0 ** 31])
        for _ in range(rng.randint(0, 3)):
            e = math.nextafter(e, rng.choice([INF, -INF]))
        return e
    return rng.choice([0.0, -0.0, INF, -INF, NAN, 5e-324, 1e308, 0.5, -0.5])


def rand_operand(rng, pfloat):
    return rand_float(rng) if rng.random() < pfloat else rand_int(rng)


def near_pairs(rng, n):
    """Pairs built backwards from a result r within +-3000 of +-2^63 (or of +-2^53)."""
    rows = []
    while len(rows) < n:
        edge = rng.choice([1 << 63, 1 << 63, -(1 << 63), -(1 << 63), 1 << 53, -(1 << 53)])
        r = edge + rng.randint(-3000, 3000)
        how = rng.choice("+-**/p")
        if how == "+":
            a = rand_int(rng)
            b = r - a
        elif how == "-":
            a = rand_int(rng)
            b = a - r
        elif how == "*":
            a = rng.getrandbits(rng.randint(2, 62)) + 2
            if rng.random() < 0.5:
                a = -a
            b = r // a + rng.choice([0, 0, 1, -1])
        elif how == "/":
            b = rng.choice([-1, 1, 2, -2, 3, 7, -7, 1024])
            a = (r // abs(b)) * b if abs(r) > (1 << 62) else r * b
        else:
            b = rng.randint(2, 63)
            a = int(round(abs(r) ** (1.0 / b))) + rng.choice([0, 0, 1, -1])
            if rng.random() < 0.3:
                a = -a
        if A.fits(a) and A.fits(b):
            rows.append((a, b) if rng.random() < 0.8 else (b, a))
    return rows


def mulband_pairs(s_lo, s_hi):
    """Pairs (s, t) with s*t just beyond 2^63.  reference-main-arithmetic.md says integer
    multiplication detects overflow by testing the *double* product against 2^63-1024; the
    pairs where the exact product overflows although that double product does not are searched
    here from the documented rule (not from the implementation) and are the probes that matter."""
    rows = []
    for s in range(s_lo, s_hi):
        t0 = -(-(1 << 63) // s)          # ceil(2^63 / s): smallest t with s*t >= 2^63
        fs = float(s)
        found = 0
        for j in range(0, 1400):
            t = t0 + j
            if abs(fs * float(t)) <= A.TIMES_THRESHOLD:
                rows.append((s, t))
                rows.append((-s, -t))
                rows.append((t, -s))     # exact product <= -2^63-1 (or = -2^63 - something)
                found += 1
                if found >= 2:
                    break
        for j in (-1, 0, 1):
            rows.append((s, t0 + j))
            rows.append((-s, t0 + j))
    return [r for r in rows if A.fits(r[0]) and A.fits(r[1])]


# ------------------------------------------------------------------------------------------
# workers (one case = one batch = one mlr process unless something dies)

def _finish(case, kind, rows, hexmasks=None):
    res = case_result("c07:" + hashlib.sha1(repr(case).encode()).hexdigest()[:16], nontrivial=False)
    check_rows(kind, rows, res, hexmasks)
    if rows:
        r0 = rows[len(rows) // 2]
        res["sample"] = {"monitor": case["mon"], "family": kind, "rows_in_batch": len(rows),
                         "one_row": [spell(x) for x in r0], "operators": OPS[kind]}
    return res


def w_grid(case):
    ints, floats = grid()
    g = ints + floats
    rows = [(a, b) for a in g[case["lo"]:case["hi"]] for b in g]
    return _finish(case, "bin", rows)


def w_unary(case):
    ints, floats = grid()
    rows = [(a,) for a in ints + floats]
    rng = random.Random(case["seed"])
    rows += [(rand_operand(rng, 0.4),) for _ in range(case["n"])]
    masks = [0] * (len(ints) + len(floats)) + [1 if rng.random() < 0.15 else 0 for _ in range(case["n"])]
    return _finish(case, "un", rows, masks)


def w_ternary(case):
    ab, mpos, mother, absmall = subgrid_ternary()
    if case["part"] == "pos":
        ms = mpos[case["lo"]:case["hi"]]
        rows = [(a, b, m) for m in ms for a in ab for b in ab]
    elif case["part"] == "other":
        rows = [(a, b, m) for m in mother[case["lo"]:case["hi"]] for a in absmall for b in absmall]
    else:
        rng = random.Random(case["seed"])
        rows = []
        for _ in range(case["n"]):
            a, b = rand_int(rng), rand_int(rng)
            q = rng.random()
            if q < 0.8:
                m = rng.getrandbits(rng.randint(1, 63)) + 1
            elif q < 0.9:
                m = MAX - rng.randint(0, 100)
            else:
                m = rand_operand(rng, 0.3)
            if rng.random() < 0.3:
                b = min(MAX, abs(b))
            rows.append((a, b, m))
    return _finish(case, "ter", rows)


def w_random(case):
    rng = random.Random(case["seed"])
    rows, masks = [], []
    for _ in range(case["n"]):
        q = rng.random()
        if q < 0.55:
            row = (rand_int(rng), rand_int(rng))
        elif q < 0.8:
            row = (rand_operand(rng, 0.5), rand_operand(rng, 0.5))
        elif q < 0.9:
            row = (rand_int(rng), rng.randint(-70, 70))          # shifts, powers
        else:
            row = (rand_float(rng), rand_float(rng))
        rows.append(row)
        masks.append(rng.getrandbits(2) if rng.random() < 0.1 else 0)
    return _finish(case, "bin", rows, masks)


def w_near(case):
    rng = random.Random(case["seed"])
    return _finish(case, "bin", near_pairs(rng, case["n"]))


def w_mulband(case):
    return _finish(case, "bin", mulband_pairs(case["lo"], case["hi"]))


def w_around(case):
    B = case["B"]
    rows = []
    for i in range(case["ilo"], case["ihi"]):
        a = B + i
        if not A.fits(a):
            continue
        for j in range(-128, 129):
            rows.append((a, j))
    return _finish(case, "bin", rows)


# ------------------------------------------------------------------------------------------

def run(chk):
    only = chk.only
    want = lambda name: (only is None) or (name in only)
    ints, floats = grid()
    ng = len(ints) + len(floats)
    seed = f"{chk.seed}/C07/{chk.tier}"

    chk.rule = (
        "cases: (grid) the full cross product G x G of a boundary grid G (|G|=%d: 0, +-1..3, +-2^k and "
        "+-(2^k+-1) for k in 7,8,15,16,31,32,52,53,62, +-(2^63-1), -2^63, integer roots of 2^63, 2^63/3, the "
        "1024-band below 2^63, 2^53+-1, and %d floats incl. +-0.0, +-Inf, NaN, denormal, 1e308, 2^53, 2^63, 2^64) "
        "for 21 binary operators; (unary) G + random operands for 8 unary operators; (ternary) 30x30 operands x "
        "16 positive moduli + 8x8 x 14 non-positive/float moduli + random triples for madd/msub/mmul/mexp; (random) "
        "seeded int64/float64 pairs (uniform bits, log-uniform magnitude, near-boundary, small); (near) pairs built "
        "backwards from a result within 3000 of +-2^63 / +-2^53 for + - * / **; (mulband) multiplier pairs s*t just "
        "beyond 2^63 including those the documented double-product overflow test cannot see; (around, thorough) "
        "a=B+i, b=j for |i|,|j|<=128 around 21 boundaries B. One evaluation = one (operand row, operator) cell. "
        "A row is non-trivial when an operand is 0 / -2^63 / 2^63-1 / -0.0 / Inf / NaN, or int and float are mixed, "
        "or an operand or the exact sum/difference/product/power lies within 2^11 of +-2^63 or +-2^53; distinct by "
        "hash of (family, operand tuple)." % (ng, len(floats)))
    chk.assumptions = [
        "Operands are int64 or float64 values delivered as DKVP field text (decimal ints, 10% of random ints as 0x "
        "two's-complement hex; floats as shortest round-trip decimal); Inf/NaN are delivered as the strings "
        "Inf/-Inf/NaN and converted with float(), because reference-main-data-types.md documents that such field "
        "values stay strings unless float() is applied.",
        "Results are read as typeof(r) and fmtnum(r,\"%d\") (ints) / fmtnum(r,\"%.17le\") (floats, 18 significant "
        "digits identify a double); float results are compared by bit pattern (NaN == NaN).",
        "* : documented tolerance (reference-main-arithmetic.md): a float result is accepted whenever |double(a)*"
        "double(b)| > 9223372036854774784 even if the exact product fits; the exact int is always accepted; a wrapped "
        "int never.",
        "On int64 overflow of + - * / // ** the float may be either the double operation on the converted operands or "
        "the correctly rounded exact result (the docs only say 'converts to float').",
        "** and pow on floats / overflowing ints: Go's math.Pow is not correctly rounded; results within %d ulp of "
        "C/IEEE pow() are accepted, plus 4 ulp per unit of |exponent| because Go's repeated-squaring error grows "
        "with the exponent (reference-dsl-operators.md: functions are pass-throughs to the Go library); the largest "
        "distance observed is reported; subnormal bases/results are not compared." % A.POW_ULPS,
        "// and % with a float operand: floor(x/y) and x - y*floor(x/y) or Python's x//y, x%y are all accepted "
        "(the docs say 'pythonic' without defining the float case); ./ with a float operand: quotient with or "
        "without truncation; the sign of a zero float result of // % ./ ceil floor round sgn roundm min max is not "
        "compared.",
        "Only 'no crash, result is a number or an error value' is required (statement's last sentence, docs silent) "
        "for: zero divisor of // % ./ roundm, modulus <= 0 or negative exponent or float operand of madd/msub/mmul/"
        "mexp, shift counts outside 0..63, float operands of & | ^ ~ << >> >>>, NaN through min/max/sgn, "
        "% with Inf/NaN, roundm overflow.",
        "% follows the property statement (sign of the divisor, as Python), which for a positive divisor equals the "
        "docs' 'never negative'.",
        "abs(-2^63): the int -2^63 (int-preserving, as documented for abs) or the float 2^63 are both accepted.",
        "min/max of int and float: the numerically larger/smaller operand as either int or float; operands equal "
        "as doubles are interchangeable. roundm on ints: nearest multiple, either neighbour on an exact tie.",
        "Transcendental functions, bitcount, msub-style functions on strings, and .+ on non-numbers are outside the "
        "statement and not exercised here.",
    ]

    if want("grid"):
        step = 4 if chk.quick() else 2
        cases = [{"mon": "grid", "lo": lo, "hi": min(ng, lo + step)} for lo in range(0, ng, step)]
        chk.pmap(w_grid, cases, label="grid GxG")
    if want("unary"):
        chk.pmap(w_unary, [{"mon": "unary", "seed": f"{seed}/unary", "n": chk.pick(3000, 100000)}], label="unary")
    if want("ternary"):
        ab, mpos, mother, absmall = subgrid_ternary()
        cases = [{"mon": "ternary", "part": "pos", "lo": i, "hi": i + 1} for i in range(len(mpos))]
        cases += [{"mon": "ternary", "part": "other", "lo": i, "hi": i + 1} for i in range(len(mother))]
        nr = chk.pick(4, 60)
        cases += [{"mon": "ternary", "part": "random", "seed": f"{seed}/ter/{i}", "n": 2500} for i in range(nr)]
        chk.pmap(w_ternary, cases, label="ternary modular")
    if want("random"):
        nb, per = chk.pick((16, 1500), (500, 4000))
        cases = [{"mon": "random", "seed": f"{seed}/rand/{i}", "n": per} for i in range(nb)]
        chk.pmap(w_random, cases, label="random pairs")
    if want("near"):
        nb, per = chk.pick((8, 1000), (100, 4000))
        cases = [{"mon": "near", "seed": f"{seed}/near/{i}", "n": per} for i in range(nb)]
        chk.pmap(w_near, cases, label="near-overflow pairs")
    if want("mulband"):
        hi, step = chk.pick((802, 50), (20002, 250))
        cases = [{"mon": "mulband", "lo": lo, "hi": min(hi, lo + step)} for lo in range(2, hi, step)]
        chk.pmap(w_mulband, cases, label="multiplication band")
    if want("around") and not chk.quick():
        cases = []
        for B in boundaries():
            for ilo in range(-128, 129, 16):
                cases.append({"mon": "around", "B": B, "ilo": ilo, "ihi": min(129, ilo + 16)})
        chk.pmap(w_around, cases, label="int8 x int8 around boundaries")

    st = chk.stats
    mp = st.pop("max_pow_ulp_distance", None)
    per_op = {k.split(":", 1)[1]: v for k, v in st.items() if k.startswith("cells:")}
    for k in list(st):
        if k.startswith("cells:"):
            del st[k]
    chk.extra["cells_checked"] = st.get("cells", 0)
    chk.extra["cells_per_operator"] = per_op
    chk.extra["operators_covered"] = sorted(per_op)
    chk.extra["cells_where_only_no_crash_is_required"] = st.get("cells_nocrash_only", 0)
    chk.extra["grid_size"] = {"ints": len(ints), "floats": len(floats)}
    chk.extra["max_pow_ulp_distance_observed"] = max(mp) if mp else 0
    chk.exhaustive = False
