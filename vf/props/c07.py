"""C07 - arithmetic is exact on int64, overflows to float, and never crashes.

Monitor: reference model (vf/model/arith.py: Python big ints + IEEE doubles, written from
reference-main-arithmetic.md and the function help texts) against the real binary.
Operands reach Miller as DATA fields (DKVP columns a,b,c: the inference -> disposition
matrix -> kernel path users hit); one mlr process evaluates every operator of a family
(21 binary / 8 unary / 4 ternary) on a few thousand operand rows and prints, per cell,
typeof(r) plus an exact rendering (fmtnum %d for ints, %.17le for floats).  A process that
dies (Go panic / fatal exit / CPU cap / deadlock) is localised to the (row, operator) cells that kill it by
halving the operator set and then re-running the rows as a stream (one record per batch, flushed: the output of
a dying process shows how far it got; rows with an int-0 divisor / modulus are scheduled in a process of their
own so that they cannot take a whole batch with them).  A single (row, operator) process that exhausts its CPU
cap, floods its output or deadlocks is a violation of kind "hang"; only the wall-clock watchdog stays
inconclusive.

The same model judges the operands delivered in other ways (MODES below): first-touched fields with one
operator per process, JSON numbers, computed intermediates, compound assignments, DSL literals; 15 % of the int
operands in data text are spelled 0x / -0x / 0b / 0o.

Sub-monitors (--only): grid, pow2, unary, ternary, random, near, mulband, pownear1, touch, json, computed,
opassign, literal, around (thorough only).
"""
import hashlib
import math
import random
import struct

from .. import run as R
from ..harness import add_violation, bump, case_result
from ..model import arith as A

BINARIES = ("mlr-verif",)
LEVEL = "exploration"

MIN, MAX = A.MIN, A.MAX
BIG = 1 << 53     # ints beyond this are not exactly representable as doubles
INF, NAN = A.INF, A.NAN


# ------------------------------------------------------------------------------------------
# the Miller side

ENC = ('func enc(r) { t = typeof(r); if (t == "int") { return "i" . fmtnum(r, "%d") } '
       'elif (t == "float") { return "f" . fmtnum(r, "%.17le") } else { return t } }')

FIELDS = {"bin": ("a", "b"), "un": ("a",), "ter": ("a", "b", "c")}
OPS = {"bin": A.BINARY, "un": A.UNARY, "ter": A.TERNARY}

INFIX = ("+", "-", "*", "/", "//", "%", "**", ".+", ".-", ".*", "./", "&", "|", "^", "<<", ">>", ">>>")
# compound assignments of the grammar that are arithmetic (there is no `.+=` and no `min=`)
OPASSIGN = ("+", "-", "*", "/", "//", "%", "**", "&", "|", "^", "<<", ">>", ">>>")

# How the operands reach the operator (all judged by the same model):
#   data      DKVP fields, every operator of the family in one map literal, after an is_string() test of each
#             operand (the conversion of Inf/NaN text needs it) - the inferred-from-data path
#   touch     DKVP fields, ONE operator per process and nothing reads the operand before the operator does:
#             type inference of the field happens inside the operator's own dispatch (first touch)
#   json      the same program, operands as JSON numbers
#   computed  operands are results of earlier computations (no original text): a local, an oosvar, a map element
#   opassign  t = $a; t OP= $b with t a local / oosvar / field / map element (13 arithmetic compound assignments)
#   literal   operands are literals in the DSL text (mlr -n put -f), one expression per cell
MODES = ("data", "touch", "json", "computed", "opassign", "literal")


def op_expr(op, x="$a", y="$b", z="$c"):
    if op in INFIX:
        return f"{x} {op} {y}"
    if op in ("pow", "min", "max", "roundm"):
        return f"{op}({x}, {y})"
    if op == "neg":
        return f"-{x}"
    if op == "pos":
        return f"+{x}"
    if op == "~":
        return f"~ {x}"
    if op in ("abs", "ceil", "floor", "round", "sgn"):
        return f"{op}({x})"
    if op in A.TERNARY:
        return f"{op}({x}, {y}, {z})"
    raise KeyError(op)


COMPUTED_NAMES = {"a": "a", "b": "@b", "c": "m[3]"}
LVALUES = ("t", "@t", "$t", "m[1]")


def program(kind, ops, mode="data"):
    """Inf/NaN cannot arrive as inferred data (documented: they stay strings unless float() is
    applied), so a string operand is passed through float() first; every other operand is used
    as inferred from the field."""
    lines = [ENC]
    if mode in ("data", "json"):
        for n in FIELDS[kind]:
            lines.append(f"if (is_string(${n})) {{ ${n} = float(${n}) }}")
        cells = ", ".join(f'"o{k}": enc({op_expr(op)})' for k, op in ops)
    elif mode == "touch":
        cells = ", ".join(f'"o{k}": enc({op_expr(op)})' for k, op in ops)
    elif mode == "computed":
        # x * 1.0 is x for every double (IEEE), n .+ 0 is n for every int64: the operand keeps its value and
        # type but is now the output of a computation, held in a local / an oosvar / a map element
        lines.append("m = {}; a = 0;")             # declared here: a first assignment inside if {} would be block-local
        for n in FIELDS[kind]:
            lv = COMPUTED_NAMES[n]
            lines.append(f"if (is_string(${n})) {{ {lv} = float(${n}) }} elif (is_float(${n})) {{ {lv} = ${n} * 1.0 }} "
                         f"else {{ {lv} = ${n} .+ 0 }}")
        names = [COMPUTED_NAMES[n] for n in ("a", "b", "c")]
        cells = ", ".join(f'"o{k}": enc({op_expr(op, *names)})' for k, op in ops)
    elif mode == "opassign":
        for n in FIELDS[kind]:
            lines.append(f"if (is_string(${n})) {{ ${n} = float(${n}) }}")
        lines.append("m = {}; o = {};")
        for k, op in ops:
            lv = LVALUES[k % len(LVALUES)]
            lines.append(f"{lv} = $a; {lv} {op}= $b; o[{k}] = enc({lv});")
        cells = ", ".join(f'"o{k}": o[{k}]' for k, op in ops)
    else:
        raise KeyError(mode)
    lines.append('$* = {"i": $i, ' + cells + "};")
    return "\n".join(lines)


def literal(x, code=0):
    """DSL literal for an operand.  A negative number is written as a parenthesised unary minus (the
    documented precedence puts ** above unary minus); -2^63 has no decimal literal (9223372036854775808 is
    beyond int64, hence a float) and is written in hex."""
    if A.is_int(x):
        if x == MIN:
            return "0x8000000000000000"
        body = {1: "0x%x", 4: "0o{:o}"}.get(code)
        if body is None:
            t = str(abs(x))
        elif "%" in body:
            t = body % abs(x)
        else:
            t = body.format(abs(x))
        return f"(-{t})" if x < 0 else t
    t = repr(abs(x))
    return f"(-{t})" if math.copysign(1, x) < 0 else t


def literal_program(kind, ops, rows, idx, spells):
    lines = [ENC, "end {"]
    for i in idx:
        lits = [literal(x, spells[i][j] if spells else 0) for j, x in enumerate(rows[i])]
        cells = ' . "," . '.join(f'"o{k}=" . enc({op_expr(op, *lits)})' for k, op in ops)
        lines.append(f'print "i={i}," . {cells};')
    lines.append("}")
    return "\n".join(lines) + "\n"


# spelling codes of an int operand in data text
SP_DEC, SP_HEX2C, SP_HEXSM, SP_BIN, SP_OCT = 0, 1, 2, 3, 4


def spell(x, code=0):
    if A.is_int(x):
        if code == SP_HEX2C or code is True:
            return "0x%x" % (x % (1 << 64)) if x < 0 else "0x%x" % x
        if code == SP_HEXSM:
            return ("-0x%x" % -x) if x < 0 else "0x%x" % x
        if code == SP_BIN and x != MIN:          # no two's-complement reading is documented for 0b / 0o
            return ("-0b{:b}" if x < 0 else "0b{:b}").format(abs(x))
        if code == SP_OCT and x != MIN:
            return ("-0o{:o}" if x < 0 else "0o{:o}").format(abs(x))
        return str(x)
    if x != x:
        return "NaN"
    if x == INF:
        return "Inf"
    if x == -INF:
        return "-Inf"
    return repr(x)


def row_text(kind, i, row, sp=None):
    parts = [f"i={i}"]
    for j, n in enumerate(FIELDS[kind]):
        parts.append(f"{n}={spell(row[j], sp[j] if sp else 0)}")
    return ",".join(parts)


def row_json(kind, i, row):
    parts = [f'"i": {i}']
    for j, n in enumerate(FIELDS[kind]):
        x = row[j]
        parts.append(f'"{n}": ' + (spell(x) if A.is_int(x) or A.finite(x) else '"' + spell(x) + '"'))
    return "{" + ", ".join(parts) + "}"


def shell_repro(kind, op, row, sp=None, mode="data"):
    if mode == "literal":
        lits = [literal(x, sp[j] if sp else 0) for j, x in enumerate(row)]
        return f"mlr -n put 'end {{ r = {op_expr(op, *lits)}; print typeof(r) . \" \" . r }}'"
    data = row_text(kind, 0, row, sp).split(",", 1)[1]
    pre = "".join(f"if (is_string(${n})) {{${n} = float(${n})}} " for j, n in enumerate(FIELDS[kind])
                  if not A.is_int(row[j]) and not A.finite(row[j]))
    if mode == "opassign":
        return f"echo '{data}' | mlr put '{pre}$r = $a; $r {op}= $b; $t = typeof($r)'"
    return f"echo '{data}' | mlr put '{pre}$r = {op_expr(op)}; $t = typeof($r)'"


def parse_cell(s):
    if s.startswith("i"):
        try:
            return ("int", int(s[1:]))
        except ValueError:
            return ("unparsable:" + s,)
    if s.startswith("f") and s != "funct":
        try:
            return ("float", float(s[1:]))
        except ValueError:
            return ("unparsable:" + s,)
    return (s,)


class Died(Exception):
    def __init__(self, r):
        self.r = r


class Ctx:
    """How one batch is delivered: mode, per-row spelling codes, resource caps."""
    __slots__ = ("mode", "spells")

    def __init__(self, mode="data", spells=None):
        self.mode = mode
        self.spells = spells


STREAM = ["--records-per-batch", "1", "--fflush"]


def invocation(kind, ops, rows, idx, ctx, stream=False):
    """(argv, stdin, files) of the process that evaluates ops over rows[idx].  stream: one record per batch and
    a flush after every record, so that the output of a process that dies shows how far it got."""
    sp = ctx.spells
    pre = STREAM if stream else []
    if ctx.mode == "literal":
        return (["-n", "put", "-f", "prog.mlr"], "", {"prog.mlr": literal_program(kind, ops, rows, idx, sp)})
    if ctx.mode == "json":
        stdin = "[\n" + ",\n".join(row_json(kind, i, rows[i]) for i in idx) + "\n]\n"
        return (pre + ["--ijson", "--odkvp", "put", program(kind, ops, "json")], stdin, None)
    stdin = "\n".join(row_text(kind, i, rows[i], sp[i] if sp else None) for i in idx) + "\n"
    return (pre + ["--idkvp", "--odkvp", "put", program(kind, ops, ctx.mode)], stdin, None)


def run_rows(kind, ops, rows, idx, ctx, cpu_s=4, stream=False):
    """One mlr process over rows[idx]; returns {row index: {op index: got}} or raises Died."""
    argv, stdin, files = invocation(kind, ops, rows, idx, ctx, stream)
    r = R.mlr(argv, stdin=stdin, files=files, cpu_s=cpu_s, watchdog=120.0)
    if not r.ok:
        raise Died(r)
    out = {}
    for line in r.out.splitlines():
        f = dict(p.split("=", 1) for p in line.split(",") if "=" in p)
        try:
            i = int(f["i"])
        except (KeyError, ValueError):
            raise Died(r)
        out[i] = {k: parse_cell(f.get(f"o{k}", "missing")) for k, _ in ops}
    if set(out) != set(idx):
        raise Died(r)
    return out


def death_label(r):
    """cpu / output-cap / deadlock of a process that was given ONE row and ONE operator is a hang of that
    cell (a violation: neither a number nor an error value was produced); only the wall-clock watchdog
    ("slow": may be the machine) stays inconclusive."""
    if r.verdict == "slow":
        return "slow"
    if r.verdict in ("deadlock", "cpu", "output-cap"):
        return "hang"
    if r.crashed():
        return "crash"
    return "abort"


def death_text(r):
    if r.verdict in ("deadlock", "cpu", "output-cap", "slow"):
        return {"cpu": "CPU limit exhausted (does not terminate)", "output-cap": "unbounded output",
                "deadlock": "all goroutines blocked", "slow": "wall-clock watchdog"}[r.verdict]
    for line in r.err.splitlines():
        if line.startswith("panic:") or line.startswith("fatal error:") or line.startswith("mlr:"):
            return line[:200]
    return (r.err.strip().splitlines() or [f"rc={r.rc} signal={r.signal}"])[0][:200]


def row_class(row):
    return tuple(A.cls(x) for x in row)


CPU_RECOVERY = 1          # RLIMIT_CPU (s, +2 s to the hard limit) of the re-runs; a healthy sub-batch needs < 0.1 s
HANG_CELLS_PER_OP = 3     # every confirmed hanging cell costs its CPU cap; stop localising after that many
DEATHS_PER_CLASS = 3      # single-row deaths confirmed per operand class; further rows of that class are not re-run
RECOVERY_BUDGET = 150     # processes per case spent on localising deaths; beyond it the deaths are reported unlocalised


def completed_prefix(r, chunk, k):
    """Rows of `chunk` (in order) whose result line was completely written before the process died."""
    done = {}
    for line in r.out.split("\n")[:-1]:
        f = dict(p.split("=", 1) for p in line.split(",") if "=" in p)
        try:
            i = int(f["i"])
        except (KeyError, ValueError):
            break
        if f"o{k}" not in f:
            break
        done[i] = parse_cell(f[f"o{k}"])
    n = 0
    while n < len(chunk) and chunk[n] in done:
        n += 1
    return n, done


PROBE = 4


def recover(kind, opk, rows, idx, ctx, table, res):
    """A process running the single operator opk over rows[idx] died: find every cell that kills it.
    The re-runs stream (one record per batch, flush per record), so the output of a dying process tells how far
    it got: the rows it completed keep their results, the next few rows are tried alone, the rest is run again.
    Once a killing row is known, rows of the same operand class are tried one by one (they usually all die, and
    a process can only report its first), up to DEATHS_PER_CLASS per class."""
    k, op = opk
    bad_classes = set()
    deaths = {}
    hangs = 0
    last_text = ""
    stream = ctx.mode != "literal"
    work = [list(idx)]
    while work:
        chunk = work.pop()
        if hangs >= HANG_CELLS_PER_OP:
            # enough hanging cells shown: rows of the classes that hang are left alone, the others get one more run
            rest = [i for i in chunk if row_class(rows[i]) not in bad_classes]
            got = None
            if rest:
                try:
                    got = run_rows(kind, [opk], rows, rest, ctx, cpu_s=CPU_RECOVERY)
                    bump(res, "recovery_runs")
                except Died:
                    bump(res, "recovery_runs")
            for i in chunk:
                if got is not None and i in got:
                    table.setdefault(i, {})[k] = got[i][k]
                else:
                    table.setdefault(i, {})[k] = ("died", "unlocalised", "not localised (enough hanging cells found)", "")
            continue
        if res["stats"].get("recovery_runs", 0) >= RECOVERY_BUDGET:
            for i in chunk:
                table.setdefault(i, {})[k] = ("died", "unlocalised", "not localised (budget spent): " + last_text, "")
            continue
        sat = [i for i in chunk if deaths.get(row_class(rows[i]), 0) >= DEATHS_PER_CLASS]
        if sat:
            for i in sat:
                table.setdefault(i, {})[k] = ("died", "unlocalised", "same operand class as confirmed deaths", "")
            chunk = [i for i in chunk if deaths.get(row_class(rows[i]), 0) < DEATHS_PER_CLASS]
            if not chunk:
                continue
        if len(chunk) > 1 and bad_classes:
            sus = [i for i in chunk if row_class(rows[i]) in bad_classes]
            if sus:
                rest = [i for i in chunk if row_class(rows[i]) not in bad_classes]
                if rest:
                    work.append(rest)
                for i in reversed(sus):
                    work.append([i])
                continue
        try:
            got = run_rows(kind, [opk], rows, chunk, ctx, cpu_s=CPU_RECOVERY, stream=stream and len(chunk) > 1)
            bump(res, "recovery_runs")
            for i in chunk:
                table.setdefault(i, {})[k] = got[i][k]
        except Died as d:
            bump(res, "recovery_runs")
            last_text = death_text(d.r)
            if len(chunk) == 1:
                lab = death_label(d.r)
                if lab in ("hang", "slow"):
                    hangs += 1
                table.setdefault(chunk[0], {})[k] = ("died", lab, death_text(d.r), d.r.verdict)
                c = row_class(rows[chunk[0]])
                bad_classes.add(c)
                deaths[c] = deaths.get(c, 0) + 1
                continue
            n, done = completed_prefix(d.r, chunk, k) if stream else (0, {})
            for i in chunk[:n]:
                table.setdefault(i, {})[k] = done[i]
            rest = chunk[n:]
            if not rest:                      # died after its last row: fall back to plain halving
                n, rest = 0, chunk
                mid = len(rest) // 2
                work.append(rest[mid:])
                work.append(rest[:mid])
            elif stream:
                head, tail = rest[:PROBE], rest[PROBE:]
                if tail:
                    work.append(tail)
                for i in reversed(head):
                    work.append([i])
            else:
                mid = len(rest) // 2
                if rest[mid:]:
                    work.append(rest[mid:])
                if rest[:mid]:
                    work.append(rest[:mid])


def eval_ops(kind, ops, rows, idx, ctx, table, res, cpu_s=4):
    """Fill table[row][op] for the given operators and rows; when the process dies, halve the
    operator set until the dying operator(s) are alone, then localise the rows."""
    try:
        got = run_rows(kind, ops, rows, idx, ctx, cpu_s=cpu_s)
        for i in idx:
            table.setdefault(i, {}).update(got[i])
        return
    except Died:
        bump(res, "dying_processes")
    if len(ops) == 1:
        recover(kind, ops[0], rows, idx, ctx, table, res)
        return
    mid = len(ops) // 2
    eval_ops(kind, ops[:mid], rows, idx, ctx, table, res, cpu_s=2)
    eval_ops(kind, ops[mid:], rows, idx, ctx, table, res, cpu_s=2)


LITERAL_ROWS_PER_PROCESS = 250


def evaluate(kind, rows, ctx, res, opsel=None):
    """Rows whose last operand is the int 0 (zero divisor / zero modulus) run in a process of
    their own: that is only scheduling (a dying process takes its whole batch with it), every
    cell is still evaluated and judged the same way."""
    ops = [(k, op) for k, op in enumerate(OPS[kind]) if opsel is None or k in opsel]
    zero = [i for i, row in enumerate(rows) if kind != "un" and A.is_int(row[-1]) and row[-1] == 0]
    zs = set(zero)
    main = [i for i in range(len(rows)) if i not in zs]
    table = {}
    for part in (main, zero):
        if not part:
            continue
        if ctx.mode == "touch":
            for opk in ops:                       # one operator per process: each is the first to touch the fields
                eval_ops(kind, [opk], rows, part, ctx, table, res)
        elif ctx.mode == "literal":
            for lo in range(0, len(part), LITERAL_ROWS_PER_PROCESS):
                eval_ops(kind, ops, rows, part[lo:lo + LITERAL_ROWS_PER_PROCESS], ctx, table, res)
        else:
            eval_ops(kind, ops, rows, part, ctx, table, res)
    return table


# ------------------------------------------------------------------------------------------
# non-triviality (DESIGN C07): exact result within 2^11 of +-2^63 or +-2^53, or a zero/extreme
# operand, or int and float mixed

_EDGES = (1 << 63, -(1 << 63), 1 << 53, -(1 << 53))


def _near_edge(r):
    return any(abs(r - e) <= 2048 for e in _EDGES)


def nontrivial(kind, row):
    ints = [x for x in row if A.is_int(x)]
    if len(ints) != len(row):
        if ints:
            return True                      # mixed
        if any((not A.finite(x)) or x == 0 for x in row):
            return True
        return any(abs(abs(x) - 2.0 ** 63) <= 4096 or abs(abs(x) - 2.0 ** 53) <= 4 for x in row)
    if any(x in (0, MIN, MAX, MIN + 1) for x in row):
        return True
    if any(_near_edge(x) for x in row):
        return True
    if kind == "un":
        return False
    a, b = row[0], row[1]
    if _near_edge(a + b) or _near_edge(a - b) or _near_edge(a * b):
        return True
    if 0 <= b <= 64 and abs(a) > 1 and b * math.log2(abs(a)) < 70 and _near_edge(a ** b):
        return True
    return False


def rowkey(kind, row):
    h = hashlib.blake2b(repr((kind, row)).encode(), digest_size=8).digest()
    return int.from_bytes(h, "big")


# ------------------------------------------------------------------------------------------
# judging one batch

SIG_CAP = 4   # witnesses kept per (case, signature); the rest are only counted


def check_rows(kind, rows, res, ctx=None, opsel=None):
    ctx = ctx or Ctx()
    mode = ctx.mode
    table = evaluate(kind, rows, ctx, res, opsel)
    ops = OPS[kind]
    seen_sigs = {}
    ntk = []
    maxpow = 0
    maxpow_ratio = 0.0
    ncells = 0
    for i, row in enumerate(rows):
        if nontrivial(kind, row):
            ntk.append(rowkey(kind, row))
        a = row[0]
        b = row[1] if len(row) > 1 else None
        c = row[2] if len(row) > 2 else None
        sp = ctx.spells[i] if ctx.spells else None
        for k, op in enumerate(ops):
            if opsel is not None and k not in opsel:
                continue
            ncells += 1
            got = table.get(i, {}).get(k)
            if got is None:
                res["inconc"] += 1
                continue
            bump(res, "cells")
            bump(res, "cells:" + op)
            bump(res, "cells_mode:" + mode)
            exp = A.expect(op, a, b, c)
            if exp.anynum:
                bump(res, "cells_nocrash_only")
            elif exp.anyfloat:
                bump(res, "cells_type_only")
            sig = None
            if got[0] == "died":
                if got[1] in ("slow", "unlocalised"):
                    res["inconc"] += 1
                    continue
                sig = {"kind": got[1], "op": op, "a": A.cls(a), "b": A.cls(b), "c": A.cls(c),
                       "cell": f"{op}({A.cls(a)},{A.cls(b)},{A.cls(c)})"}
                if got[1] == "hang":
                    sig["verdict"] = got[3]
                    what = f"{op_text(op, row)} does not terminate: {got[2]} (single row, single operator)"
                else:
                    what = f"{op_text(op, row)} kills the process: {got[2]}"
                gottxt = got[2]
            else:
                if op == "*" and exp.note == "times-band" and got[0] == "float":
                    bump(res, "times_band_float_for_a_product_that_fits")
                if op in ("**", "pow") and got[0] == "float" and exp.floats and not exp.anynum:
                    d = min((A.ulp_distance(got[1], y) for y in exp.floats
                             if A.ulp_distance(got[1], y) is not None), default=None)
                    if d is not None and d <= exp.ulps:
                        maxpow = max(maxpow, d)
                        if not A.is_int(b) and abs(b) >= 1024 and A.finite(b):
                            maxpow_ratio = max(maxpow_ratio, d / abs(b))
                v = A.judge(exp, got)
                if v is not None:
                    big = (any(A.is_int(x) and abs(x) > BIG for x in row) or any(abs(x) > BIG for x in exp.ints)
                           or (exp.exact is not None and abs(exp.exact) > BIG))
                    sig = {"kind": v[0], "op": op, "a": A.cls(a), "b": A.cls(b), "c": A.cls(c), "note": exp.note,
                           "beyond_2^53": bool(big), "cell": f"{op}({A.cls(a)},{A.cls(b)},{A.cls(c)})"}
                    gottxt = render(got)
                    what = f"{op_text(op, row)} gives {gottxt}; documented: {exp.describe()} [{v[1]}]"
            if sig is None:
                continue
            if mode != "data":
                sig["delivery"] = mode
                what += f" [operands delivered as: {mode}]"
            sk = tuple(sorted(sig.items()))
            n = seen_sigs.get(sk, 0)
            seen_sigs[sk] = n + 1
            if n >= SIG_CAP:
                bump(res, "violations_same_signature_not_listed")
                continue
            one = Ctx(mode, {0: sp} if sp else None)
            argv, stdin, files = invocation(kind, [(k, op)], {0: row}, [0], one)
            det = {"argv": argv, "stdin": stdin, "shell": shell_repro(kind, op, row, sp, mode),
                   "operands": [spell(x) for x in row], "expected": exp.describe(), "got": gottxt}
            if files:
                det["files"] = files
            add_violation(res, sig, what, det)
    res["nontrivial_keys"] = ntk
    res["evals"] = ncells
    if maxpow:
        res["stats"]["max_pow_ulp_distance"] = [maxpow]   # set-union in the harness; max taken in run()
    if maxpow_ratio:
        res["stats"]["max_pow_ulp_per_unit_exponent"] = [round(maxpow_ratio, 4)]
    return table


def render(got):
    if got[0] == "int":
        return f"int {got[1]}"
    if got[0] == "float":
        return f"float {got[1]!r}"
    return got[0]


def op_text(op, row):
    s = [spell(x) for x in row]
    if op in A.UNARY:
        return {"neg": f"-({s[0]})", "pos": f"+({s[0]})", "~": f"~({s[0]})"}.get(op, f"{op}({s[0]})")
    if op in A.TERNARY:
        return f"{op}({s[0]}, {s[1]}, {s[2]})"
    if op in ("pow", "min", "max", "roundm"):
        return f"{op}({s[0]}, {s[1]})"
    return f"{s[0]} {op} {s[1]}"


# ------------------------------------------------------------------------------------------
# operand grids

def grid():
    g = {0, 1, -1, 2, -2, 3, -3, 5, 7, 10, -10, 21, 40, 62, 63, 64, 65, -62, -63, -64, -65,
         MAX, -MAX, MIN, MAX - 1, MIN + 1, MIN + 2,
         3037000498, 3037000499, 3037000500, 3037000501, 3037000502, -3037000499, -3037000500,
         2097151, 2097152, 2642245, 2642246,               # cube roots of 2^63
         55108, 55109, 6208, 6209,                         # 4th / 5th roots
         3074457345618258602, 3074457345618258603,         # 2^63 / 3
         4611686018427387903, 4611686018427387904, 4611686018427387905,
         -4611686018427387904, -4611686018427387905,
         9223372036854774784, 9223372036854774783, 9223372036854774785, 9223372036854775296,
         9007199254740993, -9007199254740993, 9007199254740991}
    for k in (7, 8, 15, 16, 31, 32, 52, 53, 62):
        for d in (-1, 0, 1):
            g.add((1 << k) + d)
            g.add(-((1 << k) + d))
    ints = sorted(g)
    assert all(A.fits(x) for x in ints)
    floats = [0.0, -0.0, 0.5, -0.5, 1.5, -1.5, 2.5, -2.5, 1.0, -1.0, 2.0, 3.0, 0.1, 63.0, 64.0, -3.0,
              1e308, -1e308, 5e-324, -5e-324, 2.2250738585072014e-308, 1.7976931348623157e+308,
              9007199254740992.0, 9007199254740994.0, -9007199254740992.0, 4503599627370496.5,
              9223372036854775808.0, -9223372036854775808.0, 9223372036854774784.0, -9223372036854777856.0,
              18446744073709551616.0, 4294967296.0, 1e19, 123456.789, -7.25,
              INF, -INF, NAN]
    return ints, floats


def pow2_set():
    """+-(2^k + d) for every k in 0..64 and d in -1, 0, 1 that fits int64 (the quantifier's "2^k+-1 for k<=64")."""
    g = set()
    for k in range(0, 65):
        for d in (-1, 0, 1):
            for v in ((1 << k) + d, -((1 << k) + d)):
                if A.fits(v):
                    g.add(v)
    return sorted(g)


def pow2_floats():
    out = []
    for k in (24, 31, 32, 52, 53, 62, 63, 64):
        x = 2.0 ** k
        out += [x, -x, math.nextafter(x, INF), math.nextafter(x, 0.0), x + 0.5 if k < 52 else x]
    return sorted(set(out))


def coarse_grid():
    ints = [0, 1, -1, 2, -2, 3, 7, -10, 63, 64, 65, MAX, MIN, MAX - 1, MIN + 1, 3037000500, -3037000500,
            1 << 31, 1 << 32, (1 << 24) + 1, (1 << 53) + 1, -((1 << 53) + 1), 1 << 62, -(1 << 62),
            4611686018427387905, 9223372036854775296]
    floats = [0.0, -0.0, 0.5, -1.5, 2.5, 1e308, 5e-324, 9007199254740992.0, 9223372036854775808.0,
              -9223372036854775808.0, 18446744073709551616.0, 123456.789, INF, -INF, NAN]
    return ints + floats


MNEG = [-1, -2, -3, -7, -10, -64, -65537, -2147483647, -4294967296, -3037000500, -1000000007,
        -4611686018427387904, -9223372036854775783, MIN + 1, MIN]


def subgrid_ternary():
    ab = [0, 1, -1, 2, 3, 7, 10, -2, -3, 2147483647, 2147483648, 4294967296, 4294967297,
          3037000499, 3037000500, 9007199254740993, 4611686018427387904, 4611686018427387905,
          9223372036854775783, MAX, MAX - 1, MIN, MIN + 1, -4294967296, -4611686018427387904,
          -3037000500, 65537, 1000000007, 63, 64]
    mpos = [1, 2, 3, 7, 10, 64, 65537, 2147483647, 4294967296, 4294967311, 3037000500,
            1000000007, 4611686018427387904, 9223372036854775783, MAX - 1, MAX]
    mother = [0, -1, -2, -7, MIN, MIN + 1, -4294967296, 1.5, 0.0, -0.0, 7.0, NAN, INF, -INF]
    absmall = [0, 1, -1, 7, MAX, MIN, 4294967297, 2.5]
    return ab, mpos, mother, absmall


def boundaries():
    return [0, 1 << 7, 1 << 8, 1 << 15, 1 << 16, 1 << 31, 1 << 32, -(1 << 31), -(1 << 32), 1 << 52, 1 << 53,
            -(1 << 53), 1 << 62, -(1 << 62), MAX - 128, MIN + 128, 3037000500, -3037000500,
            3074457345618258603, 4611686018427387904 - 300, 9223372036854774784 - 64]


# ------------------------------------------------------------------------------------------
# random operands

def rand_int(rng):
    m = rng.random()
    if m < 0.35:
        return rng.getrandbits(64) - (1 << 63)
    if m < 0.75:
        v = rng.getrandbits(rng.randint(1, 63))
        return -v if rng.random() < 0.5 else v
    if m < 0.9:
        e = rng.choice([MAX, MIN, 1 << 62, -(1 << 62), 1 << 53, 1 << 32, 1 << 31, 0])
        v = e + rng.randint(-300, 300)
        return min(MAX, max(MIN, v))
    return rng.randint(-70, 70)


def rand_float(rng):
    m = rng.random()
    if m < 0.25:
        x = struct.unpack(">d", struct.pack(">Q", rng.getrandbits(64)))[0]
        return x
    if m < 0.55:
        return rng.choice([-1, 1]) * rng.random() * 10.0 ** rng.randint(-5, 20)
    if m < 0.75:
        return float(rng.randint(-1000, 1000)) + rng.choice([0.0, 0.5, 0.25])
    if m < 0.9:
        e = rng.choice([2.0 ** 63, -2.0 ** 63, 2.0 ** 53, 2.0 ** 64, 2.0 ** 31])
        for _ in range(rng.randint(0, 3)):
            e = math.nextafter(e, rng.choice([INF, -INF]))
        return e
    return rng.choice([0.0, -0.0, INF, -INF, NAN, 5e-324, 1e308, 0.5, -0.5])


def rand_operand(rng, pfloat):
    return rand_float(rng) if rng.random() < pfloat else rand_int(rng)


def near_pairs(rng, n):
    """Pairs built backwards from a result r within +-3000 of +-2^63 (or of +-2^53)."""
    rows = []
    while len(rows) < n:
        edge = rng.choice([1 << 63, 1 << 63, -(1 << 63), -(1 << 63), 1 << 53, -(1 << 53)])
        r = edge + rng.randint(-3000, 3000)
        how = rng.choice("+-**/p")
        if how == "+":
            a = rand_int(rng)
            b = r - a
        elif how == "-":
            a = rand_int(rng)
            b = a - r
        elif how == "*":
            a = rng.getrandbits(rng.randint(2, 62)) + 2
            if rng.random() < 0.5:
                a = -a
            b = r // a + rng.choice([0, 0, 1, -1])
        elif how == "/":
            b = rng.choice([-1, 1, 2, -2, 3, 7, -7, 1024])
            a = (r // abs(b)) * b if abs(r) > (1 << 62) else r * b
        else:
            b = rng.randint(2, 63)
            a = int(round(abs(r) ** (1.0 / b))) + rng.choice([0, 0, 1, -1])
            if rng.random() < 0.3:
                a = -a
        if A.fits(a) and A.fits(b):
            rows.append((a, b) if rng.random() < 0.8 else (b, a))
    return rows


def mulband_pairs(s_lo, s_hi):
    """Pairs (s, t) with s*t just beyond 2^63.  reference-main-arithmetic.md says integer
    multiplication detects overflow by testing the *double* product against 2^63-1024; the
    pairs where the exact product overflows although that double product does not are searched
    here from the documented rule (not from the implementation) and are the probes that matter."""
    rows = []
    for s in range(s_lo, s_hi):
        t0 = -(-(1 << 63) // s)          # ceil(2^63 / s): smallest t with s*t >= 2^63
        fs = float(s)
        found = 0
        for j in range(0, 1400):
            t = t0 + j
            if abs(fs * float(t)) <= A.TIMES_THRESHOLD:
                rows.append((s, t))
                rows.append((-s, -t))
                rows.append((t, -s))     # exact product <= -2^63-1 (or = -2^63 - something)
                found += 1
                if found >= 2:
                    break
        for j in (-1, 0, 1):
            rows.append((s, t0 + j))
            rows.append((-s, t0 + j))
    return [r for r in rows if A.fits(r[0]) and A.fits(r[1])]


# ------------------------------------------------------------------------------------------
# workers (one case = one batch = one mlr process unless something dies)

def auto_spells(kind, rows, frac=0.15):
    """Deterministic per-row spelling of int operands in the data text: `frac` of them as 0x two's-complement,
    -0x sign-magnitude, 0b or 0o (reference-main-arithmetic.md: "Anything scannable as int, e.g 123 or 0xabcd
    ... 0o ... 0b")."""
    out = []
    for row in rows:
        rng = random.Random(rowkey(kind, row))
        out.append(tuple((rng.choice((SP_HEX2C, SP_HEXSM, SP_BIN, SP_OCT)) if (A.is_int(x) and rng.random() < frac)
                          else SP_DEC) for x in row))
    return out


def _finish(case, kind, rows, spells=None, mode="data", opsel=None):
    res = case_result("c07:" + hashlib.sha1(repr(case).encode()).hexdigest()[:16], nontrivial=False)
    if mode in ("touch", "literal"):
        # Inf/NaN have no literal and as field text they are strings until float() is applied (which would be
        # the first touch): not deliverable in these modes
        keep = [i for i, row in enumerate(rows) if all(A.is_int(x) or A.finite(x) for x in row)]
        rows = [rows[i] for i in keep]
        if spells:
            spells = [spells[i] for i in keep]
    if mode == "json":
        spells = None
    elif spells is None:
        spells = auto_spells(kind, rows)
    if mode == "literal" and spells:
        # the DSL grammar has decimal, 0x and 0o int literals (no 0b literal; not this property's business)
        spells = [tuple(c if c in (SP_HEX2C, SP_OCT) else SP_DEC for c in sp) for sp in spells]
    check_rows(kind, rows, res, Ctx(mode, spells), opsel)
    if rows:
        j = len(rows) // 2
        r0 = rows[j]
        res["sample"] = {"monitor": case["mon"], "family": kind, "rows_in_batch": len(rows), "delivery": mode,
                         "one_row": [spell(x, spells[j][n] if spells else 0) for n, x in enumerate(r0)],
                         "operators": [op for k, op in enumerate(OPS[kind]) if opsel is None or k in opsel]}
    return res


def w_grid(case):
    ints, floats = grid()
    g = ints + floats
    rows = [(a, b) for a in g[case["lo"]:case["hi"]] for b in g]
    return _finish(case, "bin", rows)


def w_pow2(case):
    P = pow2_set()
    Q = P + (pow2_floats() if case.get("floats") else [])
    rows = [(a, b) for a in Q[case["lo"]:case["hi"]] for b in Q]
    return _finish(case, "bin", rows)


def w_unary(case):
    ints, floats = grid()
    rows = [(a,) for a in ints + floats + pow2_set() + pow2_floats()]
    rng = random.Random(case["seed"])
    rows += [(rand_operand(rng, 0.4),) for _ in range(case["n"])]
    return _finish(case, "un", rows)


def rand_triples(rng, n):
    P = pow2_set()
    rows = []
    for _ in range(n):
        a, b = rand_int(rng), rand_int(rng)
        q = rng.random()
        if q < 0.7:
            m = rng.getrandbits(rng.randint(1, 63)) + 1
        elif q < 0.8:
            m = MAX - rng.randint(0, 100)
        elif q < 0.9:
            m = -(rng.getrandbits(rng.randint(1, 63)) + 1)
        else:
            m = rand_operand(rng, 0.3)
        if rng.random() < 0.3:
            b = min(MAX, abs(b))
        if rng.random() < 0.25:
            a, b = rng.choice(P), rng.choice(P)
            if rng.random() < 0.5:
                m = rng.choice(P)
        rows.append((a, b, m))
    return rows


def w_ternary(case):
    ab, mpos, mother, absmall = subgrid_ternary()
    if case["part"] == "pos":
        ms = mpos[case["lo"]:case["hi"]]
        rows = [(a, b, m) for m in ms for a in ab for b in ab]
    elif case["part"] == "neg":
        rows = [(a, b, m) for m in MNEG[case["lo"]:case["hi"]] for a in ab for b in ab]
    elif case["part"] == "other":
        rows = [(a, b, m) for m in mother[case["lo"]:case["hi"]] for a in absmall for b in absmall]
    else:
        rows = rand_triples(random.Random(case["seed"]), case["n"])
    return _finish(case, "ter", rows)


def rand_pairs(rng, n):
    rows = []
    for _ in range(n):
        q = rng.random()
        if q < 0.55:
            row = (rand_int(rng), rand_int(rng))
        elif q < 0.8:
            row = (rand_operand(rng, 0.5), rand_operand(rng, 0.5))
        elif q < 0.9:
            row = (rand_int(rng), rng.randint(-70, 70))          # shifts, powers
        else:
            row = (rand_float(rng), rand_float(rng))
        rows.append(row)
    return rows


def w_random(case):
    rng = random.Random(case["seed"])
    rows = rand_pairs(rng, case["n"])
    spells = [tuple(rng.choice((SP_HEX2C, SP_HEX2C, SP_HEXSM, SP_BIN, SP_OCT)) if rng.random() < 0.5 else SP_DEC
                    for _ in row) if rng.random() < 0.2 else (SP_DEC, SP_DEC) for row in rows]
    return _finish(case, "bin", rows, spells)


def w_near(case):
    rng = random.Random(case["seed"])
    return _finish(case, "bin", near_pairs(rng, case["n"]))


def w_mulband(case):
    return _finish(case, "bin", mulband_pairs(case["lo"], case["hi"]))


def w_around(case):
    B = case["B"]
    rows = []
    for i in range(case["ilo"], case["ihi"]):
        a = B + i
        if not A.fits(a):
            continue
        for j in range(-128, 129):
            rows.append((a, j))
    return _finish(case, "bin", rows)


def pow_near_one(rng, n):
    """x = 1 +- d and a large exponent y with |y * d| < 700: the only place where a huge exponent has a finite,
    non-trivial power; this is where the exponent-proportional tolerance of ** / pow is actually exercised."""
    rows = []
    while len(rows) < n:
        e = rng.uniform(2, 15.5)
        d = 10.0 ** (-e) * rng.uniform(1, 10)
        x = 1.0 + d if rng.random() < 0.6 else 1.0 - d
        t = rng.uniform(-690, 690)
        y = t / d
        if abs(y) < 64:
            continue
        if rng.random() < 0.5 and abs(y) < 2.0 ** 62:
            y = int(y)
        rows.append((x, y))
    return rows


def w_pownear1(case):
    rng = random.Random(case["seed"])
    ks = [k for k, op in enumerate(A.BINARY) if op in ("**", "pow")]
    return _finish(case, "bin", pow_near_one(rng, case["n"]), opsel=set(ks))


def w_mode(case):
    """The same model, the operands delivered another way (see MODES)."""
    mode, kind = case["mode"], case["kind"]
    rng = random.Random(case["seed"])
    cg = coarse_grid()
    opsel = None
    if kind == "bin":
        rows = [(a, b) for a in cg for b in cg] if case.get("cross") else []
        rows += rand_pairs(rng, case["n"])
        rows += [tuple(r) for r in near_pairs(rng, case["n"] // 4)]
        if mode == "opassign":
            opsel = {k for k, op in enumerate(A.BINARY) if op in OPASSIGN}
    elif kind == "un":
        ints, floats = grid()
        rows = [(a,) for a in ints + floats] + [(rand_operand(rng, 0.4),) for _ in range(case["n"])]
    else:
        sm = [0, 1, -1, 7, MAX, MIN, 4294967297, 3037000500, 2.5]
        rows = [(a, b, m) for a in sm for b in sm for m in (1, 7, 10, MAX, 4294967311, -7, 0, 7.0)] if case.get("cross") else []
        rows += rand_triples(rng, case["n"])
    if "op" in case:                                # first-touch rotation: this process family runs ONE operator
        opsel = {case["op"]}
    return _finish(case, kind, rows, mode=mode, opsel=opsel)


# ------------------------------------------------------------------------------------------

def run(chk):
    only = chk.only
    want = lambda name: (only is None) or (name in only)
    ints, floats = grid()
    ng = len(ints) + len(floats)
    P = pow2_set()
    seed = f"{chk.seed}/C07/{chk.tier}"

    chk.rule = (
        "cases: (grid) the full cross product G x G of a boundary grid G (|G|=%d: 0, +-1..3, +-2^k and "
        "+-(2^k+-1) for k in 7,8,15,16,31,32,52,53,62, +-(2^63-1), -2^63, integer roots of 2^63, 2^63/3, the "
        "1024-band below 2^63, 2^53+-1, and %d floats incl. +-0.0, +-Inf, NaN, denormal, 1e308, 2^53, 2^63, 2^64) "
        "for 21 binary operators; (pow2) P x P for P = all +-(2^k+d), k=0..64, d in -1,0,1 that fit int64 (|P|=%d; "
        "thorough: plus the doubles 2^k and their neighbours); (unary) G + P + random operands for 8 unary "
        "operators; (ternary) 30x30 operands x 16 positive moduli and x 15 negative moduli + 8x8 x 14 zero/float "
        "moduli + random triples (10%% negative moduli, 25%% drawn from P) for madd/msub/mmul/mexp; (random) seeded "
        "int64/float64 pairs (uniform bits, log-uniform magnitude, near-boundary, small); (near) pairs built "
        "backwards from a result within 3000 of +-2^63 / +-2^53 for + - * / **; (mulband) multiplier pairs s*t just "
        "beyond 2^63 including those the documented double-product overflow test cannot see; (pownear1) x = 1+-d "
        "with exponents up to 7e17 whose power is finite; (touch, json, computed, opassign, literal) a coarse "
        "41x41 grid + random + near-overflow pairs (and unary / ternary samples) delivered as first-touched fields "
        "(one operator per process), JSON numbers, computed intermediates in a local / oosvar / map element, "
        "through the 13 arithmetic compound assignments on local / oosvar / field / map-element lvalues, and as DSL "
        "literals; (around, thorough) a=B+i, b=j for |i|,|j|<=128 around 21 boundaries B. 15%% of int operands in "
        "data text are spelled 0x (two's complement or -0x), 0b or 0o. One evaluation = one (operand row, "
        "operator) cell. "
        "A row is non-trivial when an operand is 0 / -2^63 / 2^63-1 / -0.0 / Inf / NaN, or int and float are mixed, "
        "or an operand or the exact sum/difference/product/power lies within 2^11 of +-2^63 or +-2^53; distinct by "
        "hash of (family, operand tuple)." % (ng, len(floats), len(P)))
    chk.assumptions = [
        "Operands are int64 or float64 values delivered as DKVP field text (ints decimal, or - 15% - as 0x "
        "two's-complement hex, -0x sign-magnitude hex, 0b, 0o: reference-main-arithmetic.md 'Anything scannable as "
        "int'; -2^63 only decimal or hex; floats as shortest round-trip decimal), as JSON numbers, as DSL literals "
        "(negative numbers as parenthesised unary minus because ** binds tighter; -2^63 as 0x8000000000000000 "
        "because the decimal literal 9223372036854775808 is beyond int64), or as computed values (n .+ 0 for ints, "
        "x * 1.0 for floats: identity on value and type). Inf/NaN are delivered as the strings "
        "Inf/-Inf/NaN and converted with float(), because reference-main-data-types.md documents that such field "
        "values stay strings unless float() is applied; they are not delivered as literals or first-touch fields.",
        "Results are read as typeof(r) and fmtnum(r,\"%d\") (ints) / fmtnum(r,\"%.17le\") (floats, 18 significant "
        "digits identify a double); float results are compared by bit pattern (NaN == NaN).",
        "* : documented tolerance (reference-main-arithmetic.md: 'Miller checks for overflow in 64-bit integer "
        "multiplication by seeing whether the absolute value of the double-precision product exceeds ... "
        "9223372036854774784'; Miller's own regression case int64-io/0004 pins 0x7ffffffffffffe00 * 1 = float): a "
        "float result is accepted whenever |double(a)*double(b)| > 9223372036854774784 even if the exact product "
        "fits (e.g. 9223372036854775807 * 1 = 9223372036854775808.0; counted in "
        "times_band_float_for_a_product_that_fits); the exact int is always accepted; a wrapped int never.",
        "On int64 overflow of + - * / // ** the float may be either the double operation on the converted operands or "
        "the correctly rounded exact result (the docs only say 'converts to float').",
        "** and pow on floats / overflowing ints: Go's math.Pow is not correctly rounded; results within %d ulp of "
        "C/IEEE pow() are accepted, plus %.2f ulp per unit of |exponent| (the worst case of repeated squaring is "
        "|y| * 2^-53 relative = |y|/2..|y| ulp) plus 2|yf ln x| ulp for a fractional part yf of the exponent (rounding "
        "of the argument of exp(yf log x)); reference-dsl-operators.md: functions are pass-throughs to the Go "
        "library; the largest distance observed and the largest distance per unit of exponent are reported; "
        "subnormal bases/results are not compared." % (A.POW_ULPS, A.POW_ULPS_PER_UNIT),
        "// and % with a float operand: floor(x/y) and x - y*floor(x/y) or Python's x//y, x%y are all accepted "
        "(the docs say 'pythonic' without defining the float case); ./ with a float operand: quotient with or "
        "without truncation; the sign of a zero FLOAT result of // % ./ ceil floor round sgn roundm min max is not "
        "compared (an int 0 is never accepted for a float).",
        "Only 'no crash, result is a number or an error value' is required (statement's last sentence, docs silent) "
        "for: int zero divisor of // % ./ roundm, modulus 0 or float operand of madd/msub/mmul/mexp, shift counts "
        "outside 0..63, float operands of & | ^ ~ << >> >>>. Only 'a float or an error value, never an int' (type "
        "claim 'mixed int/float operations are double operations') for: float zero divisor of // % roundm, % with "
        "Inf/NaN or an overflowing quotient, roundm with Inf/NaN.",
        "Negative modulus of madd/msub/mmul/mexp (help: 'a + b mod m (integers)'): the exact residue with the sign of "
        "the modulus (pythonic, as the docs define %), the exact residue modulo |m|, or an error value; negative "
        "exponent of mexp: the modular inverse power (either convention) or an error value. Nothing else.",
        "NaN through min/max: NaN, or the other operand (as float or in its own type), or an error; sgn(NaN): NaN, "
        "a float zero or an error.",
        "% follows the property statement (sign of the divisor, as Python), which for a positive divisor equals the "
        "docs' 'never negative'.",
        "abs(-2^63): the int -2^63 (int-preserving, as documented for abs) or the float 2^63 are both accepted.",
        "min/max with a float operand: the float of the winning operand, or the winning operand itself as an int "
        "when it IS an int; operands equal as doubles are interchangeable; an integral float winner is never an "
        "int. roundm on ints: help 'round($x/$m)*$m' on the exact quotient, halves away from zero (as round()); "
        "when that multiple is beyond int64: its float (4 ulp) or an error value.",
        "A cell is a hang (violation) when the process given that ONE row and ONE operator exhausts its CPU cap "
        "(1 s + 2 s grace; a healthy cell takes microseconds), produces unbounded output or deadlocks; only the wall-clock "
        "watchdog verdict 'slow' and batches that could not be bisected stay inconclusive.",
        "Transcendental functions, bitcount, msub-style functions on strings, and .+ on non-numbers are outside the "
        "statement and not exercised here.",
    ]

    if want("grid"):
        step = 4 if chk.quick() else 2
        cases = [{"mon": "grid", "lo": lo, "hi": min(ng, lo + step)} for lo in range(0, ng, step)]
        chk.pmap(w_grid, cases, label="grid GxG")
    if want("pow2"):
        fl = not chk.quick()
        nq = len(P) + (len(pow2_floats()) if fl else 0)
        step = 8
        cases = [{"mon": "pow2", "lo": lo, "hi": min(nq, lo + step), "floats": fl} for lo in range(0, nq, step)]
        chk.pmap(w_pow2, cases, label="2^k+-1 x 2^k+-1, k=0..64")
    if want("unary"):
        chk.pmap(w_unary, [{"mon": "unary", "seed": f"{seed}/unary", "n": chk.pick(3000, 100000)}], label="unary")
    if want("ternary"):
        ab, mpos, mother, absmall = subgrid_ternary()
        cases = [{"mon": "ternary", "part": "pos", "lo": i, "hi": i + 1} for i in range(len(mpos))]
        cases += [{"mon": "ternary", "part": "neg", "lo": i, "hi": i + 1} for i in range(len(MNEG))]
        cases += [{"mon": "ternary", "part": "other", "lo": i, "hi": i + 1} for i in range(len(mother))]
        nr = chk.pick(4, 60)
        cases += [{"mon": "ternary", "part": "random", "seed": f"{seed}/ter/{i}", "n": 2500} for i in range(nr)]
        chk.pmap(w_ternary, cases, label="ternary modular")
    if want("random"):
        nb, per = chk.pick((16, 1500), (500, 4000))
        cases = [{"mon": "random", "seed": f"{seed}/rand/{i}", "n": per} for i in range(nb)]
        chk.pmap(w_random, cases, label="random pairs")
    if want("near"):
        nb, per = chk.pick((8, 1000), (100, 4000))
        cases = [{"mon": "near", "seed": f"{seed}/near/{i}", "n": per} for i in range(nb)]
        chk.pmap(w_near, cases, label="near-overflow pairs")
    if want("mulband"):
        hi, step = chk.pick((802, 50), (20002, 250))
        cases = [{"mon": "mulband", "lo": lo, "hi": min(hi, lo + step)} for lo in range(2, hi, step)]
        chk.pmap(w_mulband, cases, label="multiplication band")
    if want("pownear1"):
        nb, per = chk.pick((2, 1500), (40, 4000))
        cases = [{"mon": "pownear1", "seed": f"{seed}/pn1/{i}", "n": per} for i in range(nb)]
        chk.pmap(w_pownear1, cases, label="powers of 1+-d with huge exponents")
    if want("touch"):
        # every operator is, in its own process, the first thing that looks at the operand fields
        reps = chk.pick(1, 6)
        cases = []
        for rep in range(reps):
            for kind, n in (("bin", 800), ("un", 400), ("ter", 600)):
                for k in range(len(OPS[kind])):
                    cases.append({"mon": "touch", "mode": "touch", "kind": kind, "op": k, "cross": rep == 0,
                                  "seed": f"{seed}/touch/{kind}/{rep}", "n": n})
        chk.pmap(w_mode, cases, label="first-touch: one operator per process")
    for mode, nbin in (("json", 1000), ("computed", 1000), ("opassign", 1500), ("literal", 400)):
        if not want(mode):
            continue
        reps = chk.pick(1, 12)
        cases = []
        for rep in range(reps):
            cases.append({"mon": mode, "mode": mode, "kind": "bin", "cross": rep == 0,
                          "seed": f"{seed}/{mode}/bin/{rep}", "n": nbin})
            if mode != "opassign":
                cases.append({"mon": mode, "mode": mode, "kind": "un", "seed": f"{seed}/{mode}/un/{rep}", "n": 300})
                cases.append({"mon": mode, "mode": mode, "kind": "ter", "cross": rep == 0,
                              "seed": f"{seed}/{mode}/ter/{rep}", "n": 500})
        chk.pmap(w_mode, cases, label=f"operands delivered as: {mode}")
    if want("around") and not chk.quick():
        cases = []
        for B in boundaries():
            for ilo in range(-128, 129, 16):
                cases.append({"mon": "around", "B": B, "ilo": ilo, "ihi": min(129, ilo + 16)})
        chk.pmap(w_around, cases, label="int8 x int8 around boundaries")

    st = chk.stats
    mp = st.pop("max_pow_ulp_distance", None)
    mr = st.pop("max_pow_ulp_per_unit_exponent", None)
    per_op = {k.split(":", 1)[1]: v for k, v in st.items() if k.startswith("cells:")}
    per_mode = {k.split(":", 1)[1]: v for k, v in st.items() if k.startswith("cells_mode:")}
    for k in list(st):
        if k.startswith("cells:") or k.startswith("cells_mode:"):
            del st[k]
    chk.extra["cells_checked"] = st.get("cells", 0)
    chk.extra["cells_per_operator"] = per_op
    chk.extra["cells_per_delivery"] = per_mode
    chk.extra["operators_covered"] = sorted(per_op)
    chk.extra["cells_where_only_no_crash_is_required"] = st.get("cells_nocrash_only", 0)
    chk.extra["cells_where_only_float_type_is_required"] = st.get("cells_type_only", 0)
    chk.extra["times_band_float_for_a_product_that_fits"] = st.get("times_band_float_for_a_product_that_fits", 0)
    chk.extra["grid_size"] = {"ints": len(ints), "floats": len(floats), "pow2": len(P)}
    chk.extra["max_pow_ulp_distance_observed"] = max(mp) if mp else 0
    chk.extra["max_pow_ulp_per_unit_exponent_observed"] = max(mr) if mr else 0
    chk.exhaustive = False
