"""C05 - then-chaining equals piping; inputs concatenate; NR/FNR/FILENAME/FILENUM/NF track the
source; the same records arrive from every input-source form.  Three monitors (DESIGN.md, C05):

  a  chain vs pipe (metamorphic): `mlr A then B [then C [then D]]` against the same verbs run as
     separate mlr processes, each fed the previous one's stdout, through JSON / JSON Lines /
     DKVP / CSV / TSV intermediates (text intermediates only where the stage's records are inside the
     format's lossless domain).  Compared on parsed records (key order + value text [+ JSON kind]).
  b  context model: file lists (empty files, header-only files, headers differing per file, implicit
     header, ragged rows, comment lines, byte-order marks, barred PPRINT, no final newline, CRLF, schema changes
     inside csvlite/tsvlite/pprint files, odd file names) x batch sizes {1,2,500, and 513/1000/5000 for long lists}
     x 17 input formats (every reader), against an arithmetic model of
     NR/FNR/FILENAME/FILENUM/NF (also mid-expression), end-block NR, context surviving pass-through
     verbs, `cat --filename --filenum`, and `mlr V f1..fn` == concat of `mlr V fi`; plus a sweep of every
     reader x every per-file reader option over lists whose files all have their own columns.
  c  input-source forms: the same records as plain files, --from, --mfrom, --files lists (with / without final
     newline, CRLF, given twice, mixed with the other ways of naming inputs), file:// names, stdin, .gz/.bz2/.z/.zst by
     extension, --gzin/--bz2in/--zin/--zstdin by flag (files and stdin), --prepipe / --prepipex /
     --prepipe-gunzip / --prepipe-zcat, prepipe overriding extension and flag, multi-member gzip,
     mixed lists; all must equal the model (and hence the plain-file run).
"""
import bz2
import gzip
import hashlib
import json
import os
import random
import re
import shutil
import subprocess
import zlib

from .. import run as R
from ..harness import add_violation, bump, case_result

BINARIES = ("mlr-verif",)
LEVEL = "exploration"

NOFLAT = ["--no-auto-flatten", "--no-auto-unflatten"]


def _h(*xs):
    return hashlib.sha1(repr(xs).encode()).hexdigest()[:16]


# ==========================================================================================
# Tolerant scanner for Miller's JSON / JSON Lines output.  Keeps key order, duplicate keys, the
# exact text of bare tokens (numbers are compared as text, never as floats) and whether a value
# was a JSON string ("s"), a bare token ("b": number / true / false / null) or nested ("m").

class ScanError(ValueError):
    pass


class _Scan:
    def __init__(self, s):
        self.s = s
        self.i = 0
        self.n = len(s)

    def ws(self):
        s, n = self.s, self.n
        i = self.i
        while i < n and s[i] in " \t\r\n":
            i += 1
        self.i = i

    def string(self):
        s = self.s
        j = self.i + 1
        n = self.n
        while True:
            if j >= n:
                raise ScanError("unterminated string at %d" % self.i)
            ch = s[j]
            if ch == "\\":
                j += 2
                continue
            if ch == '"':
                break
            j += 1
        raw = s[self.i:j + 1]
        self.i = j + 1
        try:
            return json.loads(raw)
        except ValueError:
            return raw[1:-1]

    def value(self):
        self.ws()
        if self.i >= self.n:
            raise ScanError("value expected at end of text")
        c = self.s[self.i]
        if c == '"':
            return ("s", self.string())
        if c == "{":
            return ("m", json.dumps(self.obj(), ensure_ascii=False))
        if c == "[":
            self.i += 1
            items = []
            while True:
                self.ws()
                if self.i >= self.n:
                    raise ScanError("unterminated array")
                if self.s[self.i] == "]":
                    self.i += 1
                    break
                if self.s[self.i] == ",":
                    self.i += 1
                    continue
                items.append(self.value())
            return ("m", json.dumps(items, ensure_ascii=False))
        j = self.i
        s, n = self.s, self.n
        while j < n and s[j] not in ",}] \t\r\n":
            j += 1
        tok = s[self.i:j]
        if not tok:
            raise ScanError("empty token at %d" % self.i)
        self.i = j
        return ("b", tok)

    def obj(self):
        # at '{'
        self.i += 1
        out = []
        while True:
            self.ws()
            if self.i >= self.n:
                raise ScanError("unterminated object")
            c = self.s[self.i]
            if c == "}":
                self.i += 1
                return out
            if c == ",":
                self.i += 1
                continue
            if c != '"':
                raise ScanError("key expected at %d: %r" % (self.i, self.s[self.i:self.i + 20]))
            k = self.string()
            self.ws()
            if self.i >= self.n or self.s[self.i] != ":":
                raise ScanError("colon expected at %d" % self.i)
            self.i += 1
            kind, v = self.value()
            out.append((k, v, kind))


def scan_records(text):
    """-> list of records; record = list of (key, text, kind)."""
    sc = _Scan(text)
    out = []
    while True:
        sc.ws()
        if sc.i >= sc.n:
            return out
        c = sc.s[sc.i]
        if c in "[],":
            sc.i += 1
            continue
        if c == "{":
            out.append(sc.obj())
            continue
        raise ScanError("record expected at %d: %r" % (sc.i, sc.s[sc.i:sc.i + 40]))


def kt(recs):
    """(key, text) view."""
    return [[(k, v) for k, v, _ in r] for r in recs]


def _short(recs, n=6):
    return [[list(f) for f in r] for r in recs[:n]]


def diff_class(exp, got, with_kind):
    e2, g2 = kt(exp), kt(got)
    if len(exp) != len(got):
        return "count"
    if e2 == g2:
        return "type" if with_kind else "none"
    if sorted(map(repr, e2)) == sorted(map(repr, g2)):
        return "order"
    for a, b in zip(e2, g2):
        if [k for k, _ in a] != [k for k, _ in b]:
            return "keys"
    return "value"


def first_diff(exp, got):
    for idx, (a, b) in enumerate(zip(exp, got)):
        if a != b:
            return {"index": idx, "expected": [list(f) for f in a], "got": [list(f) for f in b]}
    return {"index": min(len(exp), len(got)), "expected_n": len(exp), "got_n": len(got),
            "expected_tail": _short(exp[len(got):], 3), "got_tail": _short(got[len(exp):], 3)}


def _bad_run(res, r, what, detail, sigextra=None, crash_violation=True):
    """Hang / crash handling common to all monitors. True if the run cannot be used.
    (a) passes crash_violation=False: a verb that panics does so chained and piped alike - that is C18's
    subject; for C05 it is a failing run like any other (counted in observed.a_crash_traces_seen)."""
    if r.verdict == "slow":
        res["inconc"] += 1
        return True
    if r.verdict in ("deadlock", "cpu", "output-cap"):
        sig = {"kind": "hang", "verdict": r.verdict, "blocked": "|".join(r.hang_sig or [])}
        sig.update(sigextra or {})
        add_violation(res, sig, f"{what}: run does not terminate normally ({r.verdict})",
                      dict(detail, dump=(r.dump or "")[-4000:]))
        return True
    if r.crashed() and not crash_violation:
        bump(res, "a_crash_traces_seen")
        return False
    if r.crashed():
        sig = {"kind": "crash"}
        sig.update(sigextra or {})
        add_violation(res, sig, f"{what}: crash trace", dict(detail, stderr=r.err[-3000:]))
        return True
    return False


# ==========================================================================================
# (a) chain vs pipe

A_POOL = ["pan", "eks", "wye", "zee", "hat"]
B_POOL = ["x1", "x2", "x3", "", "Y"]
S_POOL = ["u;v;w", "u", "v;u", "", "w;w;u", "  pad  ded ", "lo;hi"]
M_POOL = ["p:1;q:2", "q:5", "p:3;r:4;q:0", "r:7"]

_JSON_NUM = re.compile(r"-?(0|[1-9][0-9]*)(\.[0-9]+)?([eE][-+]?[0-9]+)?")
# conservative: anything that might be taken for a number (or is one) when read back from text
# (meant as a superset of every spelling Miller's inference accepts; a string value of this shape is kept off text formats)
_NUMBERISH = re.compile(r"[-+]?(0x[0-9a-f_.p+-]+|0b[01_]+|0o[0-7_]+|[0-9_.]*[0-9][0-9_.]*(e[-+]?[0-9_]*)?|inf|infinity|nan)", re.I)


def _respell(rng, v):
    """A different spelling of the same number that Miller documents as numeric (hex, leading '+',
    no leading zero, exponent)."""
    try:
        if re.fullmatch(r"-?[0-9]+", v):
            n = int(v)
            c = rng.randrange(4)
            if c == 0 and n >= 0:
                return "0x%X" % n
            if c == 1 and n >= 0:
                return "+%d" % n
            if c == 2 and n >= 0:
                return "0b" + bin(n)[2:]
            return v
        if re.fullmatch(r"-?0\.[0-9]+", v):
            c = rng.randrange(3)
            if c == 0:
                return v.replace("0.", ".", 1)
            if c == 1:
                return v + "e0"
            return v
    except ValueError:
        pass
    return v


def a_records(rng, n, ragged, hetero, wide, rich, homog=False):
    out = []
    m_always = rng.random() < 0.5
    for k in range(n):
        rec = [("id", f"r{k+1}")]
        if rng.random() >= ragged:
            rec.append(("a", rng.choice(A_POOL)))
        if rng.random() >= ragged:
            rec.append(("b", rng.choice(B_POOL)))
        if rng.random() >= ragged:
            rec.append(("i", str(rng.randint(-20, 60))))
        if rng.random() >= ragged:
            rec.append(("x", f"{rng.uniform(-5, 5):.4f}"))
        if rng.random() >= ragged:
            rec.append(("y", rng.choice([f"{rng.uniform(0, 100):.2f}", str(rng.randint(0, 9)), ""])))
        if rng.random() >= ragged:
            rec.append(("s", rng.choice(S_POOL)))
        if rng.random() >= ragged:
            rec.append(("t", str(rng.randint(0, 2_000_000_000))))
        if (m_always if homog else rng.random() >= max(ragged, 0.5)):
            rec.append(("m", rng.choice(M_POOL)))
        if rng.random() >= ragged:
            rec.append(("rc", str(rng.choice([0, 1, 1, 2, 3]))))       # a small count (repeat -f)
        if hetero and rng.random() < 0.3:
            rec.append((rng.choice(["p", "q", "r"]), rng.choice(["u", "v", "3", "0.5"])))
        if wide:
            for j in range(12):
                rec.append((f"w{j}", str(rng.randint(0, 99))))
        if rich:
            rec = [(k2, _respell(rng, v) if rng.random() < 0.35 else v) for k2, v in rec]
        out.append(rec)
    return out


def dkvp_text(recs):
    return "".join(",".join(f"{k}={v}" for k, v in r) + "\n" for r in recs)


def json_obj_text(r, all_strings=False):
    items = []
    for k, v in r:
        if not all_strings and _JSON_NUM.fullmatch(v):
            items.append(json.dumps(k, ensure_ascii=False) + ": " + v)
        else:
            items.append(json.dumps(k, ensure_ascii=False) + ": " + json.dumps(v, ensure_ascii=False))
    return "{" + ", ".join(items) + "}"


def json_text(recs, array=True, all_strings=False):
    objs = [json_obj_text(r, all_strings) for r in recs]
    if array:
        return "[\n" + ",\n".join(objs) + "\n]\n"
    return "".join(o + "\n" for o in objs)


def csv_text(recs, sep=","):
    if not recs:
        return ""
    hdr = [k for k, _ in recs[0]]
    lines = [sep.join(hdr)]
    for r in recs:
        lines.append(sep.join(v for _, v in r))
    return "\n".join(lines) + "\n"


DSL = [
    (["put", '$z = $x . "_" . $i'], "put-dot"),
    (["put", "$nf = NF; unset $b"], "put-nf"),
    (["put", "$s2 = $i * 2 + 1; $r = $x * 0.1"], "put-arith"),
    (["put", "$q = $i / 7; $md = $i % 5; $d = $i // 3"], "put-div"),
    (["put", "@s += $i; $rs = @s"], "put-rsum"),
    (["put", "-q", '@c[$a] += 1; end { emit @c, "a" }'], "put-emit-end"),
    (["put", "-q", 'is_not_empty($a) && is_not_empty($b) { @sum[$a][$b] += $i } end { emit @sum, "a", "b" }'], "put-emit-2"),
    (["put", "-q", 'emit mapsum({"id": $id}, {"v": $i . "!"})'], "put-emit-rec"),
    (["put", "begin { @n = 0 } @n += 1; $n = @n; end { emit @n }"], "put-count"),
    (["put", "--ojsonl", "-q", 'tee > "/dev/null", $*'], "put-tee-null"),
    (["put", "$len = strlen($a); $up = toupper($b)"], "put-str"),
    (["put", 'if (is_present($i) && $i > 10) {$big = "yes"} else {$big = "no"}'], "put-if"),
    (["put", '$* = mapexcept($*, "y"); $new = $a . ":" . $b'], "put-mapexcept"),
    (["put", 'for (k, v in $*) { if (k =~ "^[xi]$") { $[k."_sq"] = v * v } }'], "put-for"),
    (["put", '$ty = typeof($y) . "/" . typeof($i) . "/" . typeof($a) . "/" . typeof($nosuch)'], "put-typeof"),
    (["put", '$ta = asserting_not_null($id); $tz = typeof($z) . typeof($s2) . typeof($q) . typeof($v)'], "put-typeof2"),
    (["put", '$* = sort($*, "r")'], "put-sortkeys"),
    (["put", '$mm = {"u": $i, "v": {"w": $a}}'], "put-map"),
    (["put", "-S", '$c = $a . $b'], "put-S"),
    (["put", 'unset $x; $y = is_empty($y) ? "E" : $y'], "put-ternary"),
    (["put", '$k = sub($a, "e", "X") . gsub($b, "[0-9]", "#")'], "put-sub"),
    (["put", '$first = splitax($s, ";")[1]'], "put-splitax"),
    (["put", "-q", 'is_not_empty($a) && is_not_empty($b) { @sum[$a][$b] += $i; @cnt[$a][$b] += 1 } end { emitp (@sum, @cnt), "a" }'], "put-emitp-lashed"),
    (["put", "-q", '@last = $*; end { emit @last }'], "put-emit-last"),
    (["put", "-q", '@recs[$id] = $*; end { emit @recs, "id" }'], "put-retain-all"),
    (["put", '$prev = @prev ?? "none"; @prev = $id'], "put-lag"),
    (["put", "-q", 'if (is_present(@held)) { emit @held } @held = $*; end { emit @held }'], "put-delay-1"),
    (["put", 'begin { @first = "" } if (@first == "") { @first = $id } $first = @first; $seen = @n ?? 0; @n = $seen + 1'], "put-first-seen"),
    (["put", "-q", 'emit1 {"id": $id, "k": strlen($a)}'], "put-emit1"),
    (["put", '@m[$a] = max(@m[$a] ?? $i, $i); $runmax = @m[$a]; unset @m["nosuch"]'], "put-runmax"),
    (["filter", "-q", 'true; end { emit {"done": "yes"} }'], "filter-q-end"),
    (["filter", "$i % 2 == 0"], "filter-mod"),
    (["filter", "-x", 'is_present($a) && $a == "pan"'], "filter-x"),
    (["filter", 'is_present($x) && $x > 0 || $b == ""'], "filter-or"),
    (["filter", "NF >= 6"], "filter-nf"),
    (["filter", 'is_string($a) && strlen($a) == 3 && $a < "q"'], "filter-str"),
]

EARLY_FAMILIES = ("head", "seqgen", "nothing", "check")
# Verbs that draw pseudo-random numbers.  `mlr --seed n` makes their output reproducible (flag table), so with the same
# --seed on the chain and on every piped process a chain holding ONE such verb must equal the pipe; two of them in one
# chain draw from one shared generator in an order the docs do not fix: such chains are declined.
# (`sample` used to drive its reservoir step by the record's original NR - `count-similar then sample` differed from the pipe;
# repaired in /repo by e56d2f443, found by this catalogue entry and independently elsewhere.)
RANDOM_FAMILIES = ("shuffle", "bootstrap", "sample", "bootstrap-ci")

# Quick-tier core: every (upstream that duplicates / retains / regroups / side-writes records) x (downstream whose
# result depends on exactly which records arrive, in which order, as separate objects) pair.  These are the
# places where chaining can differ from piping: record aliasing between verbs, end-of-stream forwarding,
# early-exit signalling reaching a retaining verb.
CORE_UP = ["repeat", "tee", "split", "nest-explode", "nest-implode", "fill-down", "unsparsify", "count-similar", "tac", "group-by",
           "group-like", "sort", "top", "head-g", "tail", "uniq-a", "join", "reshape-w2l", "reshape-l2w", "fraction", "rank",
           "stats1-s", "step", "decimate", "gap", "put-emit-end", "put-emit-rec", "put-count", "seqgen", "regularize"]
CORE_DOWN = ["cat-n", "put-count", "put-rsum", "step", "head", "tac", "count", "put-dot", "label", "fill-down", "tee", "uniq-a",
             "tail-from", "decimate", "head-neg", "put-lag"]      # (second row: position-counting verbs, added after seeded change C11r2-a)


# Key-lifecycle core (added after seeded change C05-a): every (upstream that renames / removes / re-creates / reorders
# field names in place) x (downstream that reaches a field by name) pair, on narrow and on wide (> 12 fields, where
# Miller switches to a per-record key index) records.  A stale name->entry association left behind by the upstream verb is
# invisible to the writer and shows only when a later verb in the same chain looks the name up.
KEY_UP = [
    ("rename-aZ", ["rename", "a,z"]), ("rename-ab", ["rename", "a,b"]), ("rename-swap", ["rename", "x,y,y,x"]),
    ("rename-r", ["rename", "-r", "^(.)$,f_\\1"]), ("rename-gr", ["rename", "-g", "-r", "[aeiou],V"]),
    ("rename-w", ["rename", "w3,a,a,w3"]), ("label", ["label", "ID,AA,a"]), ("label-1", ["label", "b"]),
    ("reorder", ["reorder", "-f", "x,a"]), ("reorder-e", ["reorder", "-e", "-f", "a,id"]),
    ("cut-x", ["cut", "-x", "-f", "a,w5"]), ("cut-o", ["cut", "-o", "-f", "x,b,a,id,w1,w2,w3,w4,w5,w6,w7,w8,w9,w10"]),
    ("put-unset", ["put", "unset $a"]), ("put-unset-assign", ["put", 'unset $a; $a = "re"']),
    ("put-mapexcept", ["put", '$* = mapexcept($*, "a")']), ("put-star", ["put", '$* = mapsum({"a": "first"}, $*)']),
    ("put-positional-name", ["put", '$[[2]] = "z"']), ("put-positional-name-w", ["put", '$[[14]] = "a"']),
    ("put-rename-for", ["put", 'map o = {}; for (k, v in $*) { o[k == "a" ? "z" : k] = v } $* = o']),
    ("sort-within-records", ["sort-within-records"]), ("sort-within-records-r", ["sort-within-records", "-r"]),
    ("template", ["template", "-f", "w3,a,zz,id"]), ("unsparsify-f", ["unsparsify", "-f", "zz,a"]),
    ("regularize", ["regularize"]), ("nest-explode-f", ["nest", "--explode", "--values", "--across-fields", "-f", "s"]),
    ("merge-fields", ["merge-fields", "-a", "sum", "-f", "x,i", "-o", "a"]), ("merge-fields-c", ["merge-fields", "-a", "count", "-c", "w", "-o", "w"]),
    ("reshape-w2l", ["reshape", "-i", "x,a", "-o", "key,value"]), ("sec2gmt", ["sec2gmt", "t"]),
    ("fill-empty", ["fill-empty", "-v", "E"]), ("altkv", ["altkv"]), ("sparsify", ["sparsify"]),
    ("case-k", ["case", "-u", "-k", "-f", "a,b"]), ("unspace-k", ["unspace", "-k"]), ("json-stringify", ["json-stringify", "-f", "a"]),
]
KEY_DOWN = [
    ("put-assign-a", ["put", '$a = "new"']), ("put-assign-z", ["put", '$z = "new"']), ("put-read-a", ["put", '$got = $a . "|" . $z . "|" . $A']),
    ("put-present", ["put", '$pa = is_present($a); $pz = is_present($z); $pw = is_present($w3); $pb = is_present($b)']),
    ("put-unset-a", ["put", "unset $a"]), ("put-unset-z", ["put", "unset $z, $b"]),
    ("put-star-index", ["put", '$q = $*["a"] ?? "absent"; $*["w3"] = "W"']),
    ("cut-x-a", ["cut", "-x", "-f", "a"]), ("cut-f-az", ["cut", "-f", "a,z,id,w3"]), ("cut-o-az", ["cut", "-o", "-f", "z,a,w11"]),
    ("rename-ba", ["rename", "b,a"]), ("rename-za", ["rename", "z,a"]), ("rename-a-new", ["rename", "a,n,w3,a"]),
    ("reorder-a", ["reorder", "-f", "a"]), ("reorder-e-z", ["reorder", "-e", "-f", "z,a"]),
    ("sort-f-a", ["sort", "-f", "a", "-nr", "w3"]), ("head-g-a", ["head", "-n", "1", "-g", "a"]), ("count-distinct-a", ["count-distinct", "-f", "a"]),
    ("fill-down-a", ["fill-down", "-a", "-f", "a,z"]), ("having-a", ["having-fields", "--at-least", "a"]), ("having-z", ["having-fields", "--at-least", "z"]), ("having-none", ["having-fields", "--none-matching", "^a$"]),
    ("nest-implode-a", ["nest", "--ivar", ";", "-f", "a"]), ("sec2gmt-a", ["sec2gmt", "a,w3,t"]), ("template-a", ["template", "-f", "a,z,w3"]),
    ("unsparsify-a", ["unsparsify", "-f", "a,z"]), ("stats1-a", ["stats1", "-a", "count,mode", "-f", "a,w3"]), ("label-a", ["label", "a"]),
    ("sub-a", ["sub", "-f", "a,z", "e", "E"]), ("merge-fields-a", ["merge-fields", "-k", "-a", "count", "-f", "a,z,w3", "-o", "azw"]),
]


def catalogue(rng):
    """One random option set per family. -> list of (family, argv, aux-files dict)."""
    k = rng.choice([0, 1, 2, 3, 5, 17])
    g = rng.choice(["a", "b", "a,b"])
    f = rng.choice(["a", "b", "i", "x", "y"])
    nf = rng.choice(["i", "x", "y"])
    C = []

    def add(fam, argv, aux=None):
        C.append((fam, argv, aux or {}))

    add("cat", ["cat"])
    add("cat-n", ["cat"] + rng.choice([["-n"], ["-n", "-g", g], ["-N", "idx"], ["-N", "idx", "-g", g]]))
    # head -n k / -n -k (all but the last k); tail -n k / -n +k (from the k-th on); each plain and by category
    add("head", ["head", "-n", str(k)])
    add("head-neg", ["head", "-n", "-" + str(rng.choice([1, 2, 3, 5]))] + rng.choice([[], ["-g", g]]))
    add("head-g", ["head", "-n", str(max(1, k % 4)), "-g", g])
    add("tail", ["tail", "-n", rng.choice(["", "", "+"]) + str(rng.choice([1, 2, 3, 5, 17]) if k == 0 else k)] + rng.choice([[], [], ["-g", g]]))
    add("tail-from", ["tail", "-n", "+" + str(rng.choice([2, 3, 4, 6]))] + rng.choice([[], [], ["-g", g]]))
    add("tac", ["tac"])
    sf = []
    for _ in range(rng.randint(1, 2)):
        sf += [rng.choice(["-f", "-r", "-nf", "-nr", "-c", "-cr", "-t", "-tr"]), rng.choice(["a", "b", "i", "x", "y", "id", "a,b"])]
    add("sort", ["sort"] + sf + (["-b"] if rng.random() < 0.1 else []))
    add("uniq-g", ["uniq", rng.choice(["-g", "-f"]), g] + rng.choice([[], ["-c"], ["-n"], ["-c", "-o", "cnt"]]))
    add("uniq-a", ["uniq", "-a"] + rng.choice([[], ["-c"], ["-n"]]))
    add("uniq-x", ["uniq", "-x", "id,x,y,i,t,s,m"] + rng.choice([[], ["-c"]]))
    add("count", ["count"] + rng.choice([[], ["-g", g], ["-n", "-g", g], ["-o", "N"]]))
    add("count-distinct", ["count-distinct"] + rng.choice([["-f", g], ["-f", g, "-n"], ["-f", g, "-u"], ["-f", g, "-o", "N"], ["-g", "a,b", "-u"],
                                                           ["-x", "id,x,y,i,t,s,m"], ["-x", "id,x,y,i,t,s,m", "-n"]]))
    add("count-similar", ["count-similar", "-g", g] + rng.choice([[], ["-o", "cs"]]))
    add("stats1", ["stats1", "-a", rng.choice(["mean,sum,count,min,max", "p10,p50,p90,p25.2",
                                               "mode,antimode,distinct_count,null_count",
                                               "var,meaneb,minlen,maxlen", "median,stddev,skewness"]),
                   ] + rng.choice([["-f", "x,i"], ["-f", "i"], ["-f", "y"], ["-f", "x,y,i"], ["--fr", "^[xi]$"], ["--fx", "^[^xyi]"]])
        + rng.choice([[], ["-g", g], ["-i"], ["-g", "a", "-i"], ["--gr", "^[ab]$"], ["--gx", "^[^a]"]]))
    add("stats1-grfx", ["stats1", "-a", "count,sum,mode", "--grfx", "^[ab]$"])
    add("stats1-s", ["stats1", "-a", "sum,count", "-f", nf] + rng.choice([["-s"], ["-s", "-g", "a"], ["-w", "3"], ["-w", "2", "-g", "a"], ["-w", "1"]]))
    add("stats2", ["stats2", "-a", rng.choice(["cov", "corr", "linreg-ols,r2", "covx", "linreg-pca"]), "-f", rng.choice(["x,i", "x,i,i,t"])] + rng.choice([[], ["-g", "a"]]))
    add("stats2-fit", ["stats2", "-a", rng.choice(["linreg-ols", "linreg-pca", "linreg-ols,r2"]), "-f", "x,i"] + rng.choice([["--fit"], ["--fit", "-g", "a"], ["-s"]]))
    add("step", ["step", "-a", rng.choice(["delta,shift,counter,rsum", "shift_lag,ratio", "shift_lead,from-first",
                                           "rprod,counter", "slwin_2_2", "ewma", "delta_2,ratio_2", "shift_lag_3,shift_lead_2", "shift_2,counter",
                                           "slwin_0_2,slwin_3_0", "counter", "rsum,from-first"]), "-f", rng.choice(["i", "x", "i,x"])]
        + rng.choice([[], ["-g", "a"], ["-g", "a,b"]]))
    add("step-ewma", ["step", "-a", "ewma", "-d", "0.1,0.9", "-f", "x"] + rng.choice([[], ["-o", "smooth,rough"]]))
    add("merge-fields", rng.choice([["merge-fields", "-a", "sum,count", "-f", "x,i", "-o", "xi"],
                                    ["merge-fields", "-k", "-a", "max,min", "-c", "x,y", "-o", "m"],
                                    ["merge-fields", "-a", "mean,var", "-r", "^[xyi]$", "-o", "R"],
                                    ["merge-fields", "-k", "-a", "p50,count", "-f", "i,t", "-o", "it"],
                                    ["merge-fields", "-i", "-a", "p25,median", "-f", "x,i,t", "-o", "q"],
                                    ["merge-fields", "-a", "null_count,distinct_count,mode,antimode,minlen", "-f", "a,b,y", "-o", "ab"],
                                    ["merge-fields", "-k", "-a", "sum,maxlen", "-c", "w1,w2", "-o", "ww"]]))
    d = rng.choice(DSL)
    add(d[1], list(d[0]))
    d2 = rng.choice(DSL)
    if d2[1] != d[1]:
        add(d2[1], list(d2[0]))
    add("cut", rng.choice([["cut", "-f", "id,a,x"], ["cut", "-o", "-f", "x,id"], ["cut", "-x", "-f", f],
                           ["cut", "-r", "-f", "^[ab]$"], ["cut", "-x", "-r", "-f", '"^W"i'], ["cut", "-f", "nosuch"]]))
    add("having-fields", ["having-fields"] + rng.choice([["--at-least", f], ["--all-matching", "^[a-z]"],
                                                         ["--any-matching", "^[pqr]$"], ["--none-matching", "^y$"],
                                                         ["--at-most", "id,a,b,i,x,y,s,t,rc"], ["--which-are", "id,a,b,i,x,y,s,t,rc"],
                                                         ["--at-least", "a,b"]]))
    add("rename", rng.choice([["rename", "a,A"], ["rename", "-r", "^(.)$,f_\\1"], ["rename", "-g", "-r", "[aeiou],V"],
                              ["rename", "a,b"], ["rename", "x,y,y,x"]]))
    add("reorder", rng.choice([["reorder", "-f", "x,i"], ["reorder", "-e", "-f", "id"], ["reorder", "-e", "-f", "a,nosuch"],
                               ["reorder", "-r", "^[xy],^i"], ["reorder", "-e", "-r", "^[ab]$"], ["reorder", "-f", "x,i", "-b", "a"],
                               ["reorder", "-f", "id,b", "-a", "x"]]))
    add("regularize", ["regularize"])
    add("unsparsify", ["unsparsify"] + rng.choice([[], ["--fill-with", "X"]]))
    add("unsparsify-f", ["unsparsify", "-f", "a,b,zz"])
    add("fill-down", ["fill-down"] + rng.choice([["-f", "a"], ["-a", "-f", "b"], ["--all"], ["-a", "--all"], ["-f", "y,b"],
                                                 ["--only-if-absent", "-f", "m,p"], ["-f", "m,y,nosuch"]]))
    add("fill-empty", ["fill-empty"] + rng.choice([[], ["-v", "E"], ["-S", "-v", "E"]]))
    add("label", ["label", rng.choice(["ID,AA", "q", "a,b,c,d"])])
    add("sec2gmt", ["sec2gmt"] + rng.choice([[], ["-3"], ["--millis"], ["-6", "--micros"], ["-" + str(rng.randint(1, 9))], ["--nanos"],
                                             ["-9", "--nanos"], ["-1", "--millis"]]) + [rng.choice(["t", "i", "t,i", "x"])])
    add("sec2gmtdate", ["sec2gmtdate", rng.choice(["t", "i,t"])])
    add("nest-explode", ["nest"] + rng.choice([["--evar", ";", "-f", "s"],
                                               ["--explode", "--values", "--across-fields", "-f", "s"],
                                               ["--explode", "--pairs", "--across-records", "-f", "m"],
                                               ["--explode", "--pairs", "--across-fields", "-f", "m"],
                                               ["--explode", "--values", "--across-records", "-f", "a", "--nested-fs", "e"],
                                               ["--explode", "--values", "--across-records", "-f", "s"],
                                               ["--explode", "--values", "--across-fields", "-r", "^[sm]$"],
                                               ["--evar", ";", "-r", "^s"],
                                               ["--explode", "--pairs", "--across-records", "-f", "m", "--nested-ps", ":", "--nested-fs", ";"],
                                               ["--explode", "--pairs", "--across-fields", "-f", "s", "--nested-ps", ";"]]))
    add("nest-implode", ["nest"] + rng.choice([["--ivar", ";", "-f", rng.choice(["b", "a", "s"])],
                                               ["--implode", "--values", "--across-records", "-f", rng.choice(["b", "a"])],
                                               ["--implode", "--values", "--across-records", "--nested-fs", "|", "-f", "a"]]))
    add("group-by", ["group-by", g])
    add("group-like", ["group-like"])
    add("decimate", ["decimate", "-n", str(rng.choice([2, 3, 4]))] + rng.choice([[], ["-b"], ["-e"], ["-e", "-g", "a"], ["-b", "-g", g], ["-g", g]]))
    add("top", ["top", "-n", str(rng.choice([1, 2, 3]))] + rng.choice([["-f", nf], ["-f", nf, "-a"], ["-f", nf, "-g", "a", "-a"], ["-f", nf, "--min"],
                                                                      ["-f", nf, "-g", g, "-o", "rank"], ["-f", "i,x"], ["-f", "i,x", "--min", "-g", "a"],
                                                                      ["-f", nf, "--max", "-F"]]))
    add("fraction", ["fraction", "-f", rng.choice(["t", "i", "t,i"])] + rng.choice([[], ["-p"], ["-c"], ["-g", "a"], ["-p", "-c"], ["-c", "-g", g]]))
    add("rank", ["rank", "-f", rng.choice([nf, "i,x"])] + rng.choice([[], ["-g", "a"], ["--sorted"], ["--sorted", "-g", "a"]]))
    add("nothing", ["nothing"])
    add("sort-within-records", ["sort-within-records"] + rng.choice([[], ["-r"]]))
    add("altkv", ["altkv"])
    add("sparsify", ["sparsify"] + rng.choice([[], ["-s", "Y"], ["-f", "b,y"]]))
    add("template", ["template", "-f", "id,zz,a,i"] + rng.choice([[], ["--fill-with", "F"]]))
    add("gap", ["gap"] + rng.choice([["-n", "4"], ["-g", "a"]]))
    add("grep", ["grep"] + rng.choice([["-i", "PAN"], ["-v", "eks"], ["-a", "x1"], ["a=wye"]]))
    add("json-stringify", ["json-stringify", "-f", "a"])
    add("most-frequent", rng.choice([["most-frequent", "-f", "a"], ["least-frequent", "-f", "b", "-b"],
                                     ["most-frequent", "-f", "a,b", "-n", "2"], ["least-frequent", "-f", "a", "-o", "N"]]))
    add("histogram", ["histogram", "-f", "i,x"] + rng.choice([["--lo", "-20", "--hi", "60", "--nbins", "4"],
                                                              ["--auto", "--nbins", "3"],
                                                              ["--lo", "0", "--hi", "10", "--nbins", "2", "-o", "h_"]]))
    add("seqgen", ["seqgen"] + rng.choice([["--start", "1", "--stop", str(rng.choice([0, 1, 5, 700]))], ["--start", "5", "--stop", "1", "--step", "-1"],
                                           ["--start", "1", "--stop", "2", "--step", "0.25"], ["--start", "3", "--stop", "3", "--step", "0"],
                                           ["--start", "10", "--stop", "40", "--step", "7"]])
        + rng.choice([[], ["-f", "i"], ["-f", "id"]]))
    add("repeat", ["repeat"] + rng.choice([["-n", "0"], ["-n", "2"], ["-n", "2"], ["-n", "3"], ["-f", "rc"]]))
    add("skip-trivial-records", ["skip-trivial-records"])
    add("case", ["case", rng.choice(["-u", "-l", "-s", "-t"])] + rng.choice([["-k"], ["-v"], []]) + ["-f", rng.choice(["a,b", "a", "s,id"])])
    add("sub", [rng.choice(["sub", "gsub", "ssub"])] + rng.choice([["-f", "a,b"], ["-a"], ["-f", "s,id"]]) + ["e", "E"])
    add("format-values", ["format-values"] + rng.choice([[], ["-n"], ["-f", "%.3f"], ["-n", "-f", "%.3e"], ["-s", "[%s]"]]))
    add("reshape-w2l", ["reshape"] + rng.choice([["-i", "x,y"], ["-r", "^[xyi]$"]]) + ["-o", "key,value"])
    add("reshape-l2w", ["reshape", "-s", rng.choice(["a,i", "b,x", "key,value"])])
    add("summary", ["summary"] + rng.choice([[], ["--transpose"], ["-a", "field_type,count,null_count,distinct_count,mode"],
                                             ["-a", "mean,min,max,minlen,maxlen,median", "--transpose"],
                                             ["-x", "mean,stddev,var,skewness"]]))
    add("remove-empty-columns", ["remove-empty-columns"])
    add("clean-whitespace", ["clean-whitespace"] + rng.choice([[], ["-k"], ["-v"]]))
    add("unspace", ["unspace"] + rng.choice([[], ["-f", "."], ["-k"], ["-v"]]))
    add("sparkline", ["sparkline", "-f", nf])
    add("check", ["check"])
    add("join", ["join", "-i", "dkvp"] + rng.choice([["-j", "a"], ["-j", "a", "--lp", "L_", "--rp", "R_"], ["--np", "--ul", "-j", "a"],
                                                      ["--np", "--ur", "-j", "a"], ["--ul", "--ur", "-j", "b"],
                                                      ["-l", "a", "-r", "b", "-j", "ab"], ["-s", "-j", "a"]]) + ["-f", "left.dkvp"],
        {"left.dkvp": True})
    # (added after the audit: the deterministic verbs of `mlr help list-verbs` that were missing)
    add("flatten", ["flatten"] + rng.choice([[], ["-s", ":"], ["-f", "mm,c"]]))
    add("unflatten", ["unflatten"] + rng.choice([[], ["-s", "_"], ["-s", "_", "-f", "x_sq,f_a"]]))
    add("json-parse", ["json-parse"] + rng.choice([["-f", "i,x"], ["-k"], ["-k", "-f", "a,i,mm"]]))
    add("utf8-to-latin1", ["utf8-to-latin1"])
    add("latin1-to-utf8", ["latin1-to-utf8"])
    add("bar", ["bar", "-f", rng.choice(["i", "x,i"])] + rng.choice([["--lo", "-20", "--hi", "60", "-w", "10"], ["--auto", "-w", "8"]]))
    add("describe", ["describe"] + rng.choice([[], ["-n", "3"], ["-n", "0"]]))
    # random verbs, reproducible under --seed (flag table); at most one per chain (see RANDOM_FAMILIES)
    add("shuffle", ["shuffle"])
    add("bootstrap", ["bootstrap"])
    add("sample", ["sample", "-k", str(rng.choice([1, 2])), "-g", rng.choice(["a", "b"])])
    add("bootstrap-ci", ["bootstrap-ci", "-f", rng.choice(["x", "x,i"]), "-n", "40"] + rng.choice([[], ["-g", "a"], ["-a", "mean,median"]]))
    add("tee", ["tee", "--ojsonl", "--jvquoteall", "@SIDE@.out"])
    add("split", ["split", "-v", "--ojsonl", "--jvquoteall", "--prefix", "@SIDE@"] + rng.choice([["-g", "a"], ["-n", "3"], ["-m", "2"], ["-g", "a,b", "-j", "+"],
                                                                                                 ["-n", "1"], ["-m", "3", "--suffix", "part"]]))
    return C


def _left_file(rng):
    recs = []
    for k in range(rng.choice([0, 3, 7])):
        recs.append([("a", rng.choice(A_POOL + ["nil"])), ("b", rng.choice(B_POOL)), ("lv", str(rng.randint(100, 199))), ("x", f"{rng.uniform(0, 1):.3f}")])
    return dkvp_text(recs)


IFLAG = {"json": ["--ijson"], "jsonl": ["--ijsonl"], "dkvp": ["--idkvp"], "csv": ["--icsv"], "tsv": ["--itsv"]}
OFLAG = {"json": ["--ojson"], "jsonl": ["--ojsonl"], "dkvp": ["--odkvp"], "csv": ["--ocsv"], "tsv": ["--otsv"]}


def _nested_unreadable(text):
    """text = the scanner's rendering of a nested value (objects: [key, text, kind] triples; arrays: [kind, text] pairs).
    True if it holds a bare token that is not JSON (an error value)."""
    try:
        data = json.loads(text)
    except ValueError:
        return True
    for item in data:
        if len(item) == 3:
            _, v, kind = item
        else:
            kind, v = item
        if kind == "b" and v not in ("true", "false", "null") and not _JSON_NUM.fullmatch(v):
            return True
        if kind == "m" and _nested_unreadable(v):
            return True
    return False


def in_domain(fmt, recs):
    """Can `recs` (scanned from a JSON Lines observation of the stage) travel through `fmt` and be
    re-read as the same records with the same inferred types?  Limitations used here are inherent in the
    format's syntax or documented (reference-main-data-types.md: from-text values are type-inferred,
    so a *string* that looks like a number, a boolean, or a map cannot survive a text format)."""
    for r in recs:
        for k, v, kind in r:
            if kind == "b" and v not in ("true", "false", "null") and not _JSON_NUM.fullmatch(v):
                return False     # e.g. a bare (error): Miller cannot read its own rendering of an error value back
            if kind == "m" and _nested_unreadable(v):
                return False     # the same inside a map / an array
    if fmt in ("json", "jsonl"):
        return True
    for r in recs:
        for k, v, kind in r:
            if kind == "m":
                return False
            if kind == "b" and v in ("true", "false", "null"):
                return False
            if kind == "s" and _NUMBERISH.fullmatch(v):
                return False
    if fmt == "dkvp":
        for r in recs:
            for k, v, _ in r:
                if k == "" or any(c in k for c in ",=\n\r") or any(c in v for c in ",\n\r"):
                    return False
        return True
    if fmt in ("csv", "tsv"):
        bad = ',"\n\r' if fmt == "csv" else "\t\\\n\r"
        keys = None
        for r in recs:
            ks = [k for k, _, _ in r]
            if not ks:
                return False
            if keys is None:
                keys = ks
            elif ks != keys:
                return False
            if len(r) == 1 and r[0][1] == "":
                return False
            for k, v, _ in r:
                if k == "" or any(c in k for c in bad) or any(c in v for c in bad):
                    return False
        return True
    return False


def _side_files(cwd, prefix):
    out = {}
    if not cwd or not os.path.isdir(cwd):
        return out
    for fn in sorted(os.listdir(cwd)):
        if fn.startswith(prefix):
            try:
                with open(os.path.join(cwd, fn), "rb") as fh:
                    out[fn] = fh.read().decode("utf-8", "surrogateescape")
            except OSError:
                pass
    return out


def _mk_verbs(picks):
    """Replace side-file placeholders by position-unique names."""
    verbs = []
    for j, (fam, argv, aux) in enumerate(picks):
        side = None
        av = []
        for a in argv:
            if "@SIDE@" in a:
                side = f"side{j}"
                a = a.replace("@SIDE@", side)
            av.append(a)
        verbs.append({"fam": fam, "argv": av, "side": side, "aux": aux})
    return verbs


# The one documented reason for `A then B` to differ from `A | B` through a lossless format: numbers read from text are
# typed by their spelling (reference-main-arithmetic.md), so a *float* whose rendering is an integer literal (7.0 * 2 prints
# as 14) is an int for the next process but still a float for the next verb of a chain.  The RETYPE program touches nothing
# but exactly those values (also inside maps and arrays; the record itself is never rebuilt, other fields are never
# assigned): it assigns each of them int(v) - what the boundary does - or, as the CONTROL variant, assigns each of them
# the unchanged v.  It reports on stderr: VF_NORM per value touched, VF_UNSAFE for a value whose int() would not print
# like the float did (|v| >= 2^53, negative zero; left alone).
_RETYPE_TEMPLATE = ('func vf_nz(v) {'
                    ' if (is_map(v)) { return apply(v, func(k, w) { return {k: vf_nz(w)}; }); }'
                    ' if (is_array(v)) { return apply(v, func(w) { return vf_nz(w); }); }'
                    ' if (is_float(v) && string(v) =~ "^[-+]?[0-9]+$") {'
                    ' if (abs(v) >= 9007199254740992 || string(v) =~ "^[-+]0+$") { eprint "VF_UNSAFE"; return v; }'
                    ' eprint "VF_NORM"; @vf_n += 1; return @CONV@; }'
                    ' return v; }'
                    ' begin { @vf_n = 0 }'
                    ' for (k, v in $*) {'
                    ' if (is_float(v) || is_map(v) || is_array(v)) {'
                    ' var before = @vf_n; var w = vf_nz(v); if (@vf_n > before) { $[k] = w } } }')
RETYPE = _RETYPE_TEMPLATE.replace("@CONV@", "int(v)")
RETYPE_CONTROL = _RETYPE_TEMPLATE.replace("@CONV@", "v")


def _chain_with_inserted(res, verbs, pre, inp, aux, program):
    """The chain once more with `put program` inserted at every `then` boundary.
    -> (records or None, number of values touched, unsafe seen, argv)."""
    argv = list(pre)
    for j, v in enumerate(verbs):
        if j:
            argv += ["then", "put", program, "then"]
        argv += v["argv"]
    r = R.mlr(argv, stdin=inp, files=aux)
    bump(res, "a_runs")
    err = r.err or ""
    n_norm = err.count("VF_NORM")
    unsafe = "VF_UNSAFE" in err
    if r.verdict != "exited" or r.rc != 0:
        return None, n_norm, unsafe, argv
    try:
        return scan_records(r.out), n_norm, unsafe, argv
    except ScanError:
        return None, n_norm, unsafe, argv


def pipe_case(case):
    rng = random.Random(case["seed"])
    tier = case["tier"]
    cat = catalogue(rng)
    if "explicit" in case:
        picks = [(fam, list(argv), {}) for fam, argv in case["explicit"]]
    elif "families" in case:
        byfam = {c[0]: c for c in cat}
        picks = [byfam[f] for f in case["families"] if f in byfam]
        if len(picks) != len(case["families"]):
            # a DSL family not drawn this time: draw it explicitly
            picks = []
            for f in case["families"]:
                if f in byfam:
                    picks.append(byfam[f])
                else:
                    d = [d for d in DSL if d[1] == f][0]
                    picks.append((d[1], list(d[0]), {}))
    else:
        L = case["len"]
        picks = [rng.choice(cat) for _ in range(L)]
    verbs = _mk_verbs(picks)
    fams = [v["fam"] for v in verbs]
    n_random = sum(1 for f in fams if f in RANDOM_FAMILIES)
    seedflag = ["--seed", str(rng.randint(1, 99999))] if n_random else []
    rich = rng.random() < 0.25
    if case.get("plans") == ["json"]:
        rich = False       # the number-spelling profile never travels through JSON (see assumptions): it would leave this pair unjudged
    # big: more records than the default batch (500) and than the readers' 512-record arena slab, read in ONE batch
    # (--records-per-batch 513 / 1000 / 2000) or in several
    big = rng.random() < (0.04 if case.get("core") else 0.12)
    n = rng.choice([0, 1, 2, 3, 5, 8, 13, 40])
    if case.get("core"):
        n = rng.choice([3, 5, 8, 13, 40])
    if big:
        n = rng.choice([513, 620] if case.get("core") else [513, 620, 1300])
    ifmt = rng.choice(["dkvp", "dkvp", "json", "csv"]) if not rich else rng.choice(["dkvp", "csv"])
    homog = ifmt == "csv"
    recs = a_records(rng, n, ragged=0 if homog else rng.choice([0, 0.15]), hetero=(not homog and rng.random() < 0.3),
                     wide=case.get("wide", rng.random() < 0.25), rich=rich, homog=homog)
    if ifmt == "dkvp":
        inp = dkvp_text(recs)
    elif ifmt == "json":
        inp = json_text(recs, array=rng.random() < 0.7)
    else:
        inp = csv_text(recs)
    aux = {}
    if any(v["aux"] for v in verbs):
        aux["left.dkvp"] = _left_file(rng)
    final = ["--ojsonl"] + (["--jvquoteall"] if rich else [])
    with_kind = not rich
    chain_rpb = rng.choice([[], [], ["--records-per-batch", "1"], ["--records-per-batch", "2"], ["--records-per-batch", "7"]])
    if big:
        chain_rpb = rng.choice([[], ["--records-per-batch", "513"], ["--records-per-batch", "1000"], ["--records-per-batch", "2000"],
                                ["--records-per-batch", "511"]])
    chain_argv = []
    for j, v in enumerate(verbs):
        if j:
            chain_argv.append("then")
        chain_argv += v["argv"]
    any_side = any(v["side"] for v in verbs)
    key = _h("a", fams, [v["argv"] for v in verbs], case["seed"])
    res = case_result(key, nontrivial=False)
    res["evals"] = 0
    famsig = "+".join(fams)
    if n_random > 1:
        res["skipped"] += 1
        bump(res, "a_declined_two_random_verbs_share_one_generator")
        return res

    # ---- the chain
    chain_rpb = seedflag + chain_rpb
    full_chain = chain_rpb + IFLAG[ifmt] + final + NOFLAT + chain_argv
    rc = R.mlr(full_chain, stdin=inp, files=aux, keep_cwd=any_side)
    chain_side = {}
    if any_side:
        for v in verbs:
            if v["side"]:
                chain_side[v["side"]] = _side_files(rc.cwd, v["side"])
        shutil.rmtree(rc.cwd, ignore_errors=True)
    bump(res, "a_runs")
    detail0 = {"argv": full_chain, "stdin": inp if len(inp) < 6000 else inp[:6000] + "...(truncated; regenerate from seed)",
               "files": aux, "gen_seed": case["seed"]}
    if _bad_run(res, rc, f"chain mlr {' '.join(chain_argv)}", detail0, {"verbs": famsig}, crash_violation=False):
        return res
    chain_ok = rc.rc == 0
    chain_recs = None
    if chain_ok:
        try:
            chain_recs = scan_records(rc.out)
        except ScanError as ex:
            add_violation(res, {"kind": "chain-output-unparseable", "verbs": famsig},
                          f"chain output is not a sequence of JSON records: {ex}", dict(detail0, stdout=rc.out[:2000]))
            return res

    # ---- the pipes
    def prefer_json(r2):
        if len(case.get("plans") or ()) == 1:
            return ["jsonl"]         # all-ordered-pairs block: the stage's JSON Lines observation itself is the intermediate (one process less)
        return [r2.choice(["json", "jsonl"])]

    def prefer_dkvp(r2):
        return ["dkvp", "jsonl"]

    def prefer_xsv(r2):
        return [r2.choice(["csv", "tsv"]), "dkvp", "json"]

    plans = [("json", prefer_json)]
    if len(verbs) >= 2:
        plans += [("dkvp", prefer_dkvp), ("xsv", prefer_xsv)]
    if "explicit" in case and tier == "quick":
        # key-lifecycle core: ~1000 pairs; one intermediate each in the quick tier: JSON, or - for the number-spelling profile,
        # which never travels through JSON - DKVP (before the audit these 25% of the pairs went unjudged)
        plans = plans[1:2] if rich else plans[:1]
    if case.get("plans"):
        plans = [pl for pl in plans if pl[0] in case["plans"]]   # all-ordered-pairs block: one intermediate-format plan per pair
    seen_fmt_seqs = set()
    stage_changes = None
    for pname, prefer in plans:
        if rich and pname == "json":
            continue   # JSON output re-renders non-JSON number spellings (documented): not lossless for this input profile
        cur = inp
        cur_ifmt = ifmt
        fmts = []
        stages_detail = []
        failed_at = None
        pipe_side = {}
        stage_recs = []
        stage_inputs = []
        abort = False
        for j, v in enumerate(verbs):
            stage_inputs.append((cur_ifmt, cur))
            last = (j == len(verbs) - 1)
            rpb = rng.choice([[], [], ["--records-per-batch", "1"], ["--records-per-batch", "3"]] + ([["--records-per-batch", "1000"]] * 2 if big else []))
            base = seedflag + rpb + IFLAG[cur_ifmt]
            if last:
                argv = base + final + NOFLAT + v["argv"]
                r = R.mlr(argv, stdin=cur, files=aux, keep_cwd=bool(v["side"]))
                bump(res, "a_runs")
                stages_detail.append({"argv": argv})
                if v["side"]:
                    pipe_side[v["side"]] = _side_files(r.cwd, v["side"])
                    shutil.rmtree(r.cwd, ignore_errors=True)
                if _bad_run(res, r, f"pipe stage {j+1} mlr {' '.join(v['argv'])}",
                            {"argv": argv, "stdin": cur[:6000], "files": aux, "gen_seed": case["seed"]}, {"verbs": famsig}, crash_violation=False):
                    abort = True
                    break
                if r.rc != 0:
                    failed_at = (j, r.err[-500:])
                    break
                out_final = r.out
            else:
                argv = base + ["--ojsonl"] + NOFLAT + v["argv"]
                r = R.mlr(argv, stdin=cur, files=aux, keep_cwd=bool(v["side"]))
                bump(res, "a_runs")
                if v["side"]:
                    pipe_side[v["side"]] = _side_files(r.cwd, v["side"])
                    shutil.rmtree(r.cwd, ignore_errors=True)
                if _bad_run(res, r, f"pipe stage {j+1} mlr {' '.join(v['argv'])}",
                            {"argv": argv, "stdin": cur[:6000], "files": aux, "gen_seed": case["seed"]}, {"verbs": famsig}, crash_violation=False):
                    abort = True
                    break
                if r.rc != 0:
                    stages_detail.append({"argv": argv})
                    failed_at = (j, r.err[-500:])
                    break
                try:
                    obs = scan_records(r.out)
                except ScanError as ex:
                    # no catalogue verb prints non-record text (print/dump/emit-to-stdout are excluded), so this is judged
                    # exactly like the same condition on the chain side
                    add_violation(res, {"kind": "pipe-stage-output-unparseable", "verb": v["fam"]},
                                  f"mlr {' '.join(v['argv'])} --ojsonl: output is not a sequence of JSON records: {ex}",
                                  {"argv": argv, "stdin": cur[:6000], "files": aux, "stdout": r.out[:2000], "gen_seed": case["seed"]})
                    abort = True
                    break
                stage_recs.append(obs)
                fmt = None
                for cand in prefer(rng):
                    if rich and cand in ("json", "jsonl"):
                        continue
                    if in_domain(cand, obs):
                        fmt = cand
                        break
                if fmt is None:
                    res["skipped"] += 1
                    bump(res, "a_declined_no_lossless_text_format")
                    abort = True
                    break
                if fmt == "jsonl":
                    nxt = r.out
                    stages_detail.append({"argv": argv})
                else:
                    argv2 = base + OFLAG[fmt] + NOFLAT + v["argv"]
                    r2 = R.mlr(argv2, stdin=cur, files=aux)
                    bump(res, "a_runs")
                    stages_detail.append({"argv": argv2})
                    if _bad_run(res, r2, f"pipe stage {j+1} mlr {' '.join(v['argv'])}",
                                {"argv": argv2, "stdin": cur[:6000], "files": aux, "gen_seed": case["seed"]}, {"verbs": famsig}, crash_violation=False):
                        abort = True
                        break
                    if r2.rc != 0:
                        add_violation(res, {"kind": "stage-status-differs-by-oformat", "verb": v["fam"], "ofmt": fmt},
                                      f"mlr {' '.join(v['argv'])} succeeds with --ojsonl but fails with {OFLAG[fmt][0]} on the same input",
                                      {"argv": argv2, "stdin": cur[:6000], "files": aux, "stderr": r2.err[-1000:]})
                        abort = True
                        break
                    nxt = r2.out
                fmts.append(fmt)
                cur = nxt
                cur_ifmt = fmt
        if abort:
            continue
        if tuple(fmts) in seen_fmt_seqs and failed_at is None:
            continue
        seen_fmt_seqs.add(tuple(fmts))
        midsig = ",".join(fmts)
        detail = {"chain_argv": full_chain, "argv": full_chain, "stdin": detail0["stdin"], "files": aux,
                  "pipe_stages": stages_detail, "intermediate_formats": fmts, "gen_seed": case["seed"]}
        res["evals"] += 1
        bump(res, "a_pipelines_compared")
        for fm in fmts:
            bump(res, "a_mid_" + fm)
        if failed_at is not None or not chain_ok:
            if chain_ok and failed_at is not None and any(w["fam"] in EARLY_FAMILIES for w in verbs[failed_at[0] + 1:]):
                # a later verb that stops consuming input (head, seqgen: documented) can end the chain before the
                # upstream verb meets the record it fails on; the sequential pipe emulation always runs it to the end
                res["skipped"] += 1
                bump(res, "a_upstream_failure_masked_by_early_exit")
            elif (failed_at is not None) != (not chain_ok):
                m = re.search(r"mlr: (open) .*: (no such file)", rc.err or "")
                add_violation(res, {"kind": "chain-pipe-status-differs", "verbs": famsig, "mid": midsig,
                                    "chain_err": "open-no-such-file" if m else ("other" if not chain_ok else "-"),
                                    "tokens_before_then": "|".join(f"{v['argv'][0]} {v['argv'][-1]}" for v in verbs[:-1])},
                              f"mlr {' '.join(chain_argv)}: chain {'fails' if not chain_ok else 'succeeds'} but pipe "
                              f"{'fails at stage %d' % (failed_at[0] + 1) if failed_at else 'succeeds'}",
                              dict(detail, chain_stderr=rc.err[-800:], stage_stderr=failed_at[1] if failed_at else ""))
            else:
                res["skipped"] += 1
                bump(res, "a_both_fail")
            continue
        try:
            pipe_recs = scan_records(out_final)
        except ScanError as ex:
            add_violation(res, {"kind": "pipe-output-unparseable", "verbs": famsig, "mid": midsig},
                          f"pipe output is not a sequence of JSON records: {ex}", dict(detail, stdout=out_final[:2000]))
            continue
        same = (chain_recs == pipe_recs) if with_kind else (kt(chain_recs) == kt(pipe_recs))
        if not same:
            dc = diff_class(chain_recs, pipe_recs, with_kind)
            vclass = "-"
            if dc in ("type", "value"):
                vclass = "other"
                for ra, rb in zip(chain_recs, pipe_recs):
                    bad = [(fa, fb) for fa, fb in zip(ra, rb) if fa != fb]
                    if bad:
                        t = bad[0][0][1]
                        if re.fullmatch(r"-?[0-9]{19,}", t) and not (-2**63 <= int(t) < 2**63):
                            vclass = "int-literal-beyond-int64"
                        break
            # Explain before accusing - constructively.  The only documented source of a chain/pipe difference is the
            # loss of float-ness of a float spelled like an integer at a text boundary (see RETYPE).  The excuse holds only if
            # (1) re-running the chain with exactly those values re-typed at every `then` touches at least one value,
            # (2) the CONTROL run - the same inserted program assigning the same values unchanged - reproduces the original
            #     chain output (so the inserted stage by itself hides nothing: a stale index, an aliased record ...), and
            # (3) the re-typed run equals the pipe's output record for record, i.e. the whole difference - the differing
            #     cells included - is accounted for by those values and nothing else.
            retyped_note = None
            if dc in ("value", "type"):
                same_as = (lambda x, y: x is not None and ((x == y) if with_kind else (kt(x) == kt(y))))
                pre = chain_rpb + IFLAG[ifmt] + final + NOFLAT
                rt_recs, n_norm, unsafe, rt_argv = _chain_with_inserted(res, verbs, pre, inp, aux, RETYPE)
                retyped_note = {"values_retyped_at_boundaries": n_norm, "retyped_chain_argv": rt_argv}
                if n_norm or unsafe:
                    ct_recs, _, _, _ = _chain_with_inserted(res, verbs, pre, inp, aux, RETYPE_CONTROL)
                    control_ok = same_as(ct_recs, chain_recs)
                    retyped_note["control_run_equals_chain"] = control_ok
                    retyped_note["retyped_chain_equals_pipe"] = same_as(rt_recs, pipe_recs)
                    if control_ok and n_norm and same_as(rt_recs, pipe_recs):
                        res["skipped"] += 1
                        bump(res, "a_declined_integral_float_crosses_boundary")
                        continue
                    if control_ok and unsafe:
                        # a float >= 2^53 (or -0) spelled like an integer crossed a boundary: int() of it need not print like
                        # the float did, so the re-typed run cannot stand in for the pipe; nothing can be concluded
                        res["skipped"] += 1
                        bump(res, "a_declined_integral_float_unsafe_to_retype")
                        continue
            # a record with duplicate field names (not representable in any format) made by some stage?
            dup_from = "-"
            for v, obs in zip(verbs, stage_recs + [chain_recs]):
                if any(len({k for k, _, _ in r}) != len(r) for r in obs):
                    dup_from = v["fam"]
                    break
            # is either side unstable by itself?  Repeat the chain, and the last pipe stage on the very same input bytes.
            nondet = []
            for _ in range(3):
                rr = R.mlr(full_chain, stdin=inp, files=aux)
                bump(res, "a_runs")
                if rr.verdict == "exited" and rr.out != rc.out:
                    nondet.append("chain")
                    break
            for _ in range(3):
                rr = R.mlr(stages_detail[-1]["argv"], stdin=cur, files=aux)
                bump(res, "a_runs")
                if rr.verdict == "exited" and rr.out != out_final:
                    nondet.append("pipe-last-stage")
                    break
            add_violation(res, {"kind": "chain-vs-pipe", "verbs": famsig, "mid": midsig, "diff": dc, "value_class": vclass,
                                "dup_keys_from": dup_from, "unstable": "+".join(nondet) or "-",
                                "verb_heads": "|".join(" ".join(v["argv"][:3]) for v in verbs)},
                          f"`mlr {' '.join(chain_argv)}` differs from the same verbs piped through {midsig or 'nothing'} ({dc}; "
                          f"{len(chain_recs)} vs {len(pipe_recs)} records)",
                          dict(detail, expected=_short(chain_recs), got=_short(pipe_recs), first_diff=first_diff(chain_recs, pipe_recs),
                               integral_float_excuse=retyped_note))
        # side files (tee / split): same records reach the file whether chained or piped, unless a later
        # verb stops the stream early (head without -g is documented to cease consuming input)
        for j, v in enumerate(verbs):
            if not v["side"]:
                continue
            if any(w["fam"] in EARLY_FAMILIES for w in verbs[j + 1:]):
                continue
            cs, ps = chain_side.get(v["side"], {}), pipe_side.get(v["side"], {})
            try:
                csr = {fn: kt(scan_records(t)) for fn, t in cs.items()}
                psr = {fn: kt(scan_records(t)) for fn, t in ps.items()}
            except ScanError:
                res["skipped"] += 1
                continue
            bump(res, "a_side_files_compared", len(csr))
            if csr != psr:
                add_violation(res, {"kind": "chain-vs-pipe-side-file", "verb": v["fam"], "verbs": famsig, "mid": midsig},
                              f"files written by {v['fam']} differ between chain and pipe: {sorted(csr)} vs {sorted(psr)}",
                              dict(detail, chain_files={k: x[:3] for k, x in csr.items()}, pipe_files={k: x[:3] for k, x in psr.items()}))
        if stage_changes is None and pname in ("json", "dkvp"):
            # non-trivial: every stage's output differs from its input
            seq = [[list(r) for r in recs]] + [kt(x) for x in stage_recs] + [kt(pipe_recs)]
            stage_changes = all(seq[i] != seq[i + 1] for i in range(len(seq) - 1))
    res["nontrivial"] = bool(stage_changes)
    sample = {"monitor": "a", "chain": chain_argv, "input_format": ifmt, "n_records": n,
                     "profile": "number-spellings(text intermediates only)" if rich else "json-safe",
                     "intermediate_format_sequences": [list(x) for x in seen_fmt_seqs]}
    res["stats"]["a_families"] = list(fams)
    if case.get("sample"):
        res["sample"] = sample
    return res


# ==========================================================================================
# (b) context model over file lists

WORDS = ["pan", "eks", "wye", "zee", "hat", "7", "-3", "0.25", "12", "4.50", "abc", "Q"]
KEYPOOL = ["a", "b", "c", "d", "e", "g", "h", "u", "v", "w", "p", "q"]   # disjoint from the probe's field names
NAME_POOL = ["in{}.dat", "in{}.dat", "d{}/part.txt", "sp ace{}.dat", "dätä{}.x", "a=b{}.dat", "x,y{}.in"]
B_FORMATS = ["dkvp", "nidx", "json", "jsonl", "csv", "csvlite", "tsv", "xtab", "pprint",
             "tsvlite", "markdown", "usv", "asv", "dkvpx", "yaml", "recutils", "dcf"]     # (second row added after the audit: every reader with its own per-file handling)
B_IFLAGS = {"dkvp": ["--idkvp"], "nidx": ["--inidx", "--ifs", " ", "--repifs"], "json": ["--ijson"], "jsonl": ["--ijsonl"],
            "csv": ["--icsv"], "csvlite": ["--icsvlite"], "tsv": ["--itsv"], "xtab": ["--ixtab"], "pprint": ["--ipprint"],
            "tsvlite": ["--itsvlite"], "markdown": ["--imd"], "usv": ["--iusv"], "asv": ["--iasv"], "dkvpx": ["-i", "dkvpx"],
            "yaml": ["--iyaml"], "recutils": ["--irecutils"], "dcf": ["--idcf"]}
B_TABULAR = ("csv", "csvlite", "tsv", "tsvlite", "pprint", "markdown", "usv", "asv")
B_SEP = {"csv": ",", "csvlite": ",", "tsv": "\t", "tsvlite": "\t", "pprint": " ", "usv": "\u241f", "asv": "\x1f"}
B_RS = {"usv": "\u241e", "asv": "\x1e"}
# reader options that are per-file state (each is documented for the readers listed; see assumptions)
B_OPTS = {
    "csv": ["implicit", "ragged", "comments", "bom"], "tsv": ["implicit", "ragged", "comments"],
    "csvlite": ["implicit", "ragged", "comments", "bom"], "tsvlite": ["implicit", "ragged", "comments"],
    "pprint": ["implicit", "ragged", "comments", "barred"], "usv": ["implicit"], "asv": ["implicit"],
    "dkvp": ["comments"], "nidx": ["comments"],
}

# NF is read at the start, after appends, after unsetting a field in the middle, at the tail and at the head
PROBE = "$nf0=NF;$nr=NR;$fnr=FNR;$f=FILENAME;$k=FILENUM;$nf1=NF;$new=1;$nf2=NF;unset $new;$nf3=NF;$tail=1;unset $tail;$nf4=NF;unset $@FIRST@;$nf5=NF"


def probe_model(rec, ctx, first="id"):
    """The documented meaning of PROBE (reference-dsl-variables.md: NF is re-evaluated at each reference)."""
    d = dict(rec)
    order = [k for k, _ in rec]

    def put(k, v):
        if k not in d:
            order.append(k)
        d[k] = v
    put("nf0", str(len(order)))
    put("nr", str(ctx["nr"]))
    put("fnr", str(ctx["fnr"]))
    put("f", ctx["f"])
    put("k", str(ctx["k"]))
    put("nf1", str(len(order)))
    put("new", "1")
    put("nf2", str(len(order)))
    order.remove("new")
    del d["new"]
    put("nf3", str(len(order)))
    put("nf4", str(len(order)))          # $tail was appended and removed again
    if first in d:
        order.remove(first)
        del d[first]
    put("nf5", str(len(order)))
    return [(k, d[k]) for k in order]


def _val(rng, allow_empty):
    if allow_empty and rng.random() < 0.12:
        return ""
    return rng.choice(WORDS)


def b_file(rng, fmt, fi, prev_keys, opts):
    """One file: -> dict(kind, records=[[(k,v)...]] as Miller should read them, text, keys)."""
    allow_empty = fmt in ("dkvp", "dkvpx", "json", "jsonl", "csv", "csvlite", "tsv", "tsvlite", "usv", "asv")
    tabular = fmt in B_TABULAR
    kind = rng.choices(["normal", "empty", "header-only", "json-empty-array"], [0.7, 0.15, 0.1, 0.05])[0]
    if kind == "header-only" and not tabular:
        kind = "empty"
    if kind == "json-empty-array" and fmt != "json":
        kind = "normal"
    # sizes around the default batch (500) and the readers' record slab (512)
    n = rng.choice([1, 1, 2, 3, 5, 9] + ([499, 501, 513, 1003, 1100] if rng.random() < 0.10 else []))
    nblocks = 1
    if fmt in ("csvlite", "pprint", "tsvlite") and not opts and rng.random() < 0.3:
        nblocks = 2
    blocks = []
    keys = prev_keys
    for b in range(nblocks):
        c = rng.random()
        if keys is None or c < 0.4 or b > 0:
            nk = rng.randint(0, 5)
            keys = ["id"] + rng.sample(KEYPOOL, nk)
        elif c < 0.55:
            keys = ["id"] + rng.sample(keys[1:], len(keys) - 1)     # same names, other order
        rows = []
        nb = n if b == 0 else rng.choice([1, 2])
        for j in range(nb):
            rows.append([f"{fi}.{b}.{j+1}"] + [_val(rng, allow_empty) for _ in keys[1:]])
        blocks.append((list(keys), rows))
    if kind in ("empty", "json-empty-array"):
        blocks = []
    if kind == "header-only":
        blocks = [(blocks[0][0], [])]
    eol = "\r\n" if (fmt in ("dkvp", "dkvpx", "nidx", "csv", "tsv", "csvlite", "tsvlite") and rng.random() < 0.15) else "\n"
    eol = B_RS.get(fmt, eol)
    final_eol = rng.random() >= 0.25
    records = []
    lines = []
    text = None
    if not tabular:
        # non-tabular: records may be heterogeneous inside a file
        for keys_b, rows in blocks:
            for row in rows:
                rec = list(zip(keys_b, row))
                if rng.random() < 0.25 and len(rec) > 1:
                    drop = rng.randrange(1, len(rec))
                    rec = rec[:drop] + rec[drop + 1:]
                records.append(rec)
        if fmt == "yaml":
            # key order is not this property's subject (the YAML reader's is C01-F6): keys are written, and expected, sorted
            records = [sorted(r) for r in records]
        if fmt in ("dkvp", "dkvpx"):
            lines = [",".join(f"{k}={v}" for k, v in r) for r in records]
        elif fmt == "nidx":
            lines = [(" " * rng.choice([1, 1, 2])).join(v for _, v in r) for r in records]
            records = [[(str(p + 1), v) for p, (_, v) in enumerate(r)] for r in records]
        elif fmt == "jsonl":
            lines = [json_obj_text(r, all_strings=rng.random() < 0.3) for r in records]
        elif fmt == "xtab":
            for idx, r in enumerate(records):
                if idx:
                    lines.append("")
                w = max(len(k) for k, _ in r) if rng.random() < 0.5 else 0
                for k, v in r:
                    lines.append(k.ljust(w) + " " + v)
        elif fmt in ("recutils", "dcf"):
            # `Name: value` lines, records separated by one (or more: recutils) blank lines
            for idx, r in enumerate(records):
                if idx:
                    lines += [""] * (rng.choice([1, 1, 2]) if fmt == "recutils" else 1)
                for k, v in r:
                    lines.append(f"{k}: {v}")
        elif fmt == "yaml":
            # all scalars double-quoted (strings): a list of maps, or one document per record separated by `---`
            q = lambda x: json.dumps(x, ensure_ascii=False)
            if rng.random() < 0.5:
                for r in records:
                    for p, (k, v) in enumerate(r):
                        lines.append(("- " if p == 0 else "  ") + f"{q(k)}: {q(v)}")
            else:
                for idx, r in enumerate(records):
                    if idx:
                        lines.append("---")
                    for k, v in r:
                        lines.append(f"{q(k)}: {q(v)}")
        elif fmt == "json":
            if kind == "json-empty-array":
                text = rng.choice(["[]", "[\n]\n", "[ ]\n"])
            elif kind == "empty":
                text = ""
            else:
                text = json_text(records, array=rng.random() < 0.6, all_strings=rng.random() < 0.3)
                if not final_eol:
                    text = text.rstrip("\n")
    else:
        sep = B_SEP.get(fmt)
        implicit = opts.get("implicit")
        ragged = opts.get("ragged")
        barred = opts.get("barred")
        for bi, (keys_b, rows) in enumerate(blocks):
            if bi:
                lines.append("")
            cellrows = []
            for row in rows:
                cells = list(row)
                if ragged and rng.random() < 0.4:
                    if rng.random() < 0.5 and len(cells) > 1:
                        cells = cells[:rng.randint(1, len(cells) - 1)]
                    else:
                        cells = cells + [rng.choice(WORDS) for _ in range(rng.randint(1, 2))]
                cellrows.append(cells)
            if fmt == "markdown":
                fmtrow = lambda cells: "| " + " | ".join(cells) + " |"
            elif fmt == "pprint" and (barred or (not ragged and rng.random() < 0.5)):
                widths = [max([len(k)] + [len(r[c]) for r in rows]) for c, k in enumerate(keys_b)]
                if barred:
                    fmtrow = lambda cells: "| " + " | ".join(c.ljust(w) for c, w in zip(cells, widths)) + " |"
                else:
                    fmtrow = lambda cells: " ".join(c.ljust(w) for c, w in zip(cells, widths)).rstrip(" ")
            else:
                fmtrow = lambda cells: sep.join(cells)
            bar = ("+" + "+".join("-" * (w + 2) for w in widths) + "+") if barred else None
            if barred:
                lines.append(bar)
            lines.append(fmtrow(keys_b))
            if barred:
                lines.append(bar)
            if fmt == "markdown":
                lines.append("| " + " | ".join("---" for _ in keys_b) + " |")
            if implicit:
                records.append([(str(p + 1), k) for p, k in enumerate(keys_b)])
            for cells in cellrows:
                lines.append(fmtrow(cells))
                if implicit:
                    records.append([(str(p + 1), v) for p, v in enumerate(cells)])
                else:
                    # surplus values get their 1-up column number as key (flag table + recorded example in
                    # record-heterogeneity.md). Too-short rows: the flag table says the remaining keys are filled with
                    # empty strings (TSV, CSV-lite, TSV-lite, PPRINT readers); the CSV reader keeps only the keys it has
                    # values for (the recorded example in record-heterogeneity.md)
                    rec = []
                    for p, v in enumerate(cells):
                        rec.append((keys_b[p] if p < len(keys_b) else str(p + 1), v))
                    if fmt != "csv":
                        rec += [(k2, "") for k2 in keys_b[len(cells):]]
                    records.append(rec)
            if barred and cellrows:
                lines.append(bar)
    if opts.get("comments") and fmt in ("dkvp", "nidx", "csv", "csvlite", "tsv", "tsvlite", "pprint") and lines:
        # --skip-comments: lines starting with # are not data, wherever they stand (before the header too); no effect on FNR
        out_lines = []
        if rng.random() < 0.6:
            out_lines.append(f"# file {fi} starts")
            if rng.random() < 0.3:
                out_lines.append("#")
        for ln in lines:
            out_lines.append(ln)
            if rng.random() < 0.2:
                out_lines.append(f"#note after {len(out_lines)}")
        lines = out_lines
    if text is None:
        text = eol.join(lines)
        if lines and final_eol:
            text += eol
    if opts.get("bom") and text and rng.random() < 0.75:
        text = "\ufeff" + text      # a byte-order mark at the head of this file (whichever its position in the list)
    last_keys = blocks[-1][0] if blocks else prev_keys
    return {"kind": kind if blocks or kind != "normal" else "empty", "records": records, "text": text, "keys": last_keys}


def b_context(files):
    """files: list of (name, records) -> list of (record, ctx) in reading order; the arithmetic model."""
    out = []
    nr = 0
    for k, (name, recs) in enumerate(files, 1):
        for j, rec in enumerate(recs, 1):
            nr += 1
            out.append((rec, {"nr": nr, "fnr": j, "f": name, "k": k}))
    return out


MIDS = [
    ("none", [], lambda rc: rc),
    ("tac", ["tac"], lambda rc: rc[::-1]),
    ("filter-NR-odd", ["filter", "NR % 2 == 1"], lambda rc: [x for x in rc if x[1]["nr"] % 2 == 1]),
    ("filter-FNR-1", ["filter", "FNR == 1"], lambda rc: [x for x in rc if x[1]["fnr"] == 1]),
    ("filter-FILENUM-even", ["filter", "FILENUM % 2 == 0"], lambda rc: [x for x in rc if x[1]["k"] % 2 == 0]),
    ("repeat-2", ["repeat", "-n", "2"], lambda rc: [x for x in rc for _ in range(2)]),
    ("tail-3", ["tail", "-n", "3"], lambda rc: rc[-3:]),
    ("head-2", ["head", "-n", "2"], lambda rc: rc[:2]),
    ("decimate-2", ["decimate", "-n", "2"], lambda rc: [x for i, x in enumerate(rc) if i % 2 == 1]),
]

STATELESS = [
    ["cat"], ["put", "$zz = NF"], ["rename", "-r", "^(.)$,x_\\1"], ["reorder", "-e", "-f", "id"], ["sort-within-records"],
    ["fill-empty"], ["cut", "-x", "-f", "id"], ["put", "-q", 'emit mapsum($*, {"n": NF})'], ["sec2gmt", "a,b"],
    ["having-fields", "--at-least", "a"], ["filter", 'NF > 2'], ["label", "K1,K2"], ["altkv"],
]


def ctx_case(case):
    rng = random.Random(case["seed"])
    fmt = case["fmt"]
    opts = {}
    if case.get("force_opts") is not None:
        opts = dict(case["force_opts"])
    elif fmt in B_OPTS:
        c = rng.random()
        avail = B_OPTS[fmt]
        if c < 0.2 and "implicit" in avail:
            opts["implicit"] = True
        elif c < 0.4 and "ragged" in avail:
            opts["ragged"] = True
        elif 0.4 <= c < 0.5 and "comments" in avail:
            opts["comments"] = True
        elif 0.5 <= c < 0.58 and "bom" in avail:
            opts["bom"] = True
        elif 0.5 <= c < 0.58 and "barred" in avail:
            opts["barred"] = True
    nfiles = rng.choice([1, 2, 2, 3, 3, 4, 5])
    files = {}
    flist = []
    prev_keys = None
    used = set()
    for fi in range(1, nfiles + 1):
        if flist and rng.random() < 0.08:
            name, fd = rng.choice(flist)          # the same file named twice
            flist.append((name, fd))
            continue
        name = rng.choice(NAME_POOL).format(fi)
        if name in used:
            name = f"in{fi}.dat"
        used.add(name)
        fd = b_file(rng, fmt, fi, prev_keys, opts)
        prev_keys = fd["keys"] if (rng.random() < 0.6 and not case.get("fresh_keys")) else None
        files[name] = fd["text"].encode("utf-8")
        flist.append((name, fd))
    names = [n for n, _ in flist]
    model = b_context([(n, fd["records"]) for n, fd in flist])
    N = len(model)
    nonempty = sum(1 for _, fd in flist if fd["records"])
    flags = list(B_IFLAGS[fmt])
    if opts.get("implicit"):
        flags.append(rng.choice(["--implicit-csv-header", "--headerless-csv-input", "--hi"]) if fmt == "csv" else
                     rng.choice(["--implicit-tsv-header", "--implicit-csv-header"]) if fmt in ("tsv", "tsvlite") else "--implicit-csv-header")
    if opts.get("ragged"):
        flags.append(rng.choice(["--allow-ragged-csv-input", "--ragged", "--allow-ragged-tsv-input"]))
    if opts.get("comments"):
        flags.append("--skip-comments")
    if opts.get("barred"):
        flags.append("--barred-input")
    out = ["--ojsonl", "--jvquoteall"]
    key = _h("b", case["seed"])
    res = case_result(key, nontrivial=(nonempty >= 2))
    res["evals"] = 0
    kinds = "+".join(sorted(set(fd["kind"] for _, fd in flist)))
    base_detail = {"files": files, "gen_seed": case["seed"], "format": fmt, "file_kinds": [fd["kind"] for _, fd in flist]}

    def run(argv, what, sigx):
        r = R.mlr(argv, files=files)
        bump(res, "b_runs")
        d = dict(base_detail, argv=argv)
        if _bad_run(res, r, what, d, sigx):
            return None, d
        if r.rc != 0:
            add_violation(res, dict({"kind": "ctx-run-fails"}, **sigx), f"{what}: exit {r.rc} on well-formed input: {r.err.strip()[-200:]}",
                          dict(d, stderr=r.err[-1500:]))
            return None, d
        try:
            return kt(scan_records(r.out)), d
        except ScanError as ex:
            add_violation(res, dict({"kind": "ctx-output-unparseable"}, **sigx), f"{what}: output unparseable ({ex})", dict(d, stdout=r.out[:1500]))
            return None, d

    first = "1" if (fmt == "nidx" or opts.get("implicit")) else "id"
    probe = PROBE.replace("@FIRST@", first)
    variants = ["core", rng.choice(["mid", "mid", "catfile", "perfile", "endonly"])]
    mid = rng.choice(MIDS[1:])
    for b in ("1", "2", "500") + ((rng.choice(["513", "1000", "5000"]),) if N > 500 else ()):
        bflag = ["--records-per-batch", b]
        for var in variants:
            sigx = {"format": fmt, "variant": var if var != "mid" else "mid:" + mid[0], "rpb": b,
                    "opts": "+".join(sorted(opts)) or "-"}
            if var == "core":
                argv = bflag + flags + out + ["put", probe + '; end { emit {"e1": NR} }', "then", "put", 'end { emit {"e2": NR} }'] + names
                exp = [probe_model(rec, ctx, first) for rec, ctx in model] + [[("e1", str(N))], [("e2", str(N))]]
            elif var == "mid":
                argv = bflag + flags + out + mid[1] + ["then", "put", probe + '; end { emit {"e1": NR} }'] + names
                exp = [probe_model(rec, ctx, first) for rec, ctx in mid[2](model)]
                if mid[0] != "head-2":
                    exp = exp + [[("e1", str(N))]]
            elif var == "catfile":
                argv = bflag + flags + out + ["cat", "--filename", "--filenum", "then", "put", "$nr=NR;$fnr=FNR"] + names
                exp = None   # order of the two prepended fields is not documented: accept either
            elif var == "perfile":
                argv = bflag + flags + out + ["put", "-q", '@count[FILENAME] += 1; @last[FILENAME] = FNR; @num[FILENAME] = FILENUM; '
                                              'end { emit (@count, @last, @num), "FILENAME" }'] + names
                agg = {}
                for rec, ctx in model:
                    a = agg.setdefault(ctx["f"], [0, 0, 0])
                    a[0] += 1
                    a[1] = ctx["fnr"]
                    a[2] = ctx["k"]
                exp = [[("FILENAME", f), ("count", str(a[0])), ("last", str(a[1])), ("num", str(a[2]))] for f, a in agg.items()]
            else:
                argv = bflag + flags + out + ["put", "-q", 'end { emit {"n": NR} }'] + names
                exp = [[("n", str(N))]]
            got, d = run(argv, f"{fmt} file list, {var}", sigx)
            if got is None:
                continue
            res["evals"] += 1
            if var == "mid" and mid[0] == "head-2":
                got = [r for r in got if not (len(r) == 1 and r[0][0] == "e1")]   # end NR after early exit: not specified
            if var == "catfile":
                ok = len(got) == N
                if ok:
                    for g, (rec, ctx) in zip(got, model):
                        e1 = [("filename", ctx["f"]), ("filenum", str(ctx["k"]))] + list(rec) + [("nr", str(ctx["nr"])), ("fnr", str(ctx["fnr"]))]
                        e2 = [e1[1], e1[0]] + e1[2:]
                        if g != e1 and g != e2:
                            ok = False
                            break
                if not ok:
                    add_violation(res, dict({"kind": "ctx-model", "what": "cat-filename-filenum"}, **sigx),
                                  f"cat --filename --filenum then put NR/FNR differs from the file-list model ({fmt}, batch {b})",
                                  dict(d, got=got[:8], model=[(r, c) for r, c in model[:8]]))
                continue
            if got != exp:
                fd = first_diff(exp, got)
                # classify which context variable is off
                wrong = "records"
                if len(exp) == len(got):
                    wk = set()
                    for a, g in zip(exp, got):
                        if a != g:
                            da, dg = dict(a), dict(g)
                            if [k for k, _ in a] != [k for k, _ in g]:
                                wk.add("keys")
                            else:
                                wk |= {k for k in da if da[k] != dg.get(k)}
                    wrong = ",".join(sorted(wk))[:60]
                else:
                    wrong = "count"
                add_violation(res, dict({"kind": "ctx-model", "what": wrong, "file_kinds": kinds}, **sigx),
                              f"{var} probe over {len(names)} {fmt} files (batch {b}) differs from the NR/FNR/FILENAME/FILENUM/NF model: {wrong}",
                              dict(d, first_diff=fd, expected=exp[:6], got=got[:6]))
    # inputs concatenate: mlr V f1..fn == concat(mlr V fi) for a stateless V
    if "concat" in case.get("subs", ("concat",)):
        V = rng.choice(STATELESS)
        sigx = {"format": fmt, "variant": "concat", "verb": V[0], "opts": "+".join(sorted(opts)) or "-"}
        allgot, d = run(flags + out + V + names, f"{fmt} concat (all files)", sigx)
        if allgot is not None:
            parts = []
            ok = True
            for nm in names:
                g, _ = run(flags + out + V + [nm], f"{fmt} concat (single file)", sigx)
                if g is None:
                    ok = False
                    break
                parts += g
            if ok:
                res["evals"] += 1
                if parts != allgot:
                    add_violation(res, dict({"kind": "concat"}, **sigx),
                                  f"mlr {' '.join(V)} f1..f{len(names)} differs from the concatenation of the single-file runs ({fmt})",
                                  dict(d, first_diff=first_diff(parts, allgot)))
    res["stats"]["b_formats"] = [fmt]
    res["stats"]["b_file_kinds"] = [fd["kind"] for _, fd in flist]
    res["stats"]["b_opts"] = sorted(opts) or ["-"]
    sample = {"monitor": "b", "format": fmt, "files": [{"name": n, "kind": fd["kind"], "records": len(fd["records"])} for n, fd in flist],
                     "flags": flags, "variants": variants, "mid": mid[0], "total_records": N}
    if case.get("sample"):
        res["sample"] = sample
    return res


# ==========================================================================================
# (c) input-source forms

def _find_tool(name):
    for p in (shutil.which(name), f"/usr/bin/{name}", f"/usr/local/bin/{name}", f"/root/miniconda/bin/{name}"):
        if p and os.path.exists(p):
            return p
    return None


def _zstd(data):
    exe = _find_tool("zstd")
    if not exe:
        return None
    try:
        p = subprocess.run([exe, "-q", "-c"], input=data, capture_output=True, timeout=60)
    except (OSError, subprocess.TimeoutExpired):
        return None
    if p.returncode != 0:
        return None
    return p.stdout


def _gz(data, rng, multi=False, named=None):
    if multi and len(data) > 1:
        cut = rng.randint(1, len(data) - 1)
        return gzip.compress(data[:cut], rng.choice([1, 6, 9]), mtime=0) + gzip.compress(data[cut:], 6, mtime=0)
    if named:
        import io
        bio = io.BytesIO()
        with gzip.GzipFile(filename=named, mode="wb", fileobj=bio, mtime=1234567890) as g:
            g.write(data)
        return bio.getvalue()
    return gzip.compress(data, rng.choice([1, 6, 9]), mtime=0)


C_IFLAGS = dict(B_IFLAGS)
SRC_PROBE = "$nr=NR;$fnr=FNR;$k=FILENUM;$f=FILENAME"


def c_render(fmt, recs, rng):
    if fmt == "dkvp":
        return dkvp_text(recs)
    if fmt == "nidx":
        return "".join(" ".join(v for _, v in r) + "\n" for r in recs)
    if fmt == "json":
        return json_text(recs, array=rng.random() < 0.6) if recs else rng.choice(["", "[]\n"])
    if fmt == "jsonl":
        return json_text(recs, array=False)
    if fmt == "csv":
        return csv_text(recs, ",")
    if fmt == "tsv":
        return csv_text(recs, "\t")
    if fmt == "xtab":
        return "\n".join("".join(f"{k} {v}\n" for k, v in r) for r in recs)
    raise ValueError(fmt)


def src_case(case):
    rng = random.Random(case["seed"])
    fmt = case["fmt"]
    nfiles = rng.choice([1, 1, 2, 3])
    sizes = [0, 1, 3, 50, 700] + ([20000] if case["tier"] == "thorough" and rng.random() < 0.3 else [])
    nameclass = rng.choices(["plain", "space", "quote", "subdir"], [0.6, 0.15, 0.1, 0.15])[0]
    stems = []
    datas = []
    recsets = []
    keys = ["id"] + rng.sample(KEYPOOL, rng.randint(1, 5))
    for fi in range(1, nfiles + 1):
        n = rng.choice(sizes)
        if fmt == "csv" and rng.random() < 0.3:
            keys = ["id"] + rng.sample(KEYPOOL, rng.randint(1, 5))
        recs = [[("id", f"{fi}.{j+1}")] + [(k, rng.choice(WORDS)) for k in keys[1:]] for j in range(n)]
        text = c_render(fmt, recs, rng)
        if fmt == "nidx":
            recs = [[(str(p + 1), v) for p, (_, v) in enumerate(r)] for r in recs]
        stem = {"plain": f"in{fi}", "space": f"in put {fi}", "quote": f"it's{fi}", "subdir": f"sub{fi}/in"}[nameclass]
        stems.append(stem)
        datas.append(text.encode("utf-8"))
        recsets.append(recs)
    total = sum(len(r) for r in recsets)
    zst = [_zstd(d) for d in datas]
    have_zstd = all(z is not None for z in zst)
    zstdcat = _find_tool("zstdcat")
    iflags = C_IFLAGS[fmt]
    out = ["--ojsonl", "--jvquoteall"]
    verb = ["put", SRC_PROBE + '; end { emit {"END": NR} }']
    key = _h("c", case["seed"])
    res = case_result(key, nontrivial=False)
    res["evals"] = 0
    res["nontrivial_keys"] = []

    def expected(names, recsets_):
        m = b_context(list(zip(names, recsets_)))
        return [list(rec) + [("nr", str(c["nr"])), ("fnr", str(c["fnr"])), ("k", str(c["k"])), ("f", c["f"])] for rec, c in m] \
            + [[("END", str(len(m)))]]

    forms = []

    def form(name, pre, names, files, stdin=b"", env=None, exp_names=None, exp_recsets=None, post=None, abs_cwd=False):
        forms.append({"form": name, "pre": pre, "names": names, "files": files, "stdin": stdin, "env": env, "abs_cwd": abs_cwd,
                      "exp": expected(exp_names if exp_names is not None else names, exp_recsets if exp_recsets is not None else recsets),
                      "post": post or []})

    def named(ext):
        return [s + ext for s in stems]

    plain = named(".dat")
    pf = dict(zip(plain, datas))
    form("plain", [], plain, pf)
    fromflags = []
    for nme in plain:
        fromflags += ["--from", nme]
    form("from", fromflags, [], pf, exp_names=plain)
    form("mfrom", ["--mfrom"] + plain + ["--"], [], pf, exp_names=plain)
    form("from+rpb1", ["--records-per-batch", "1"] + fromflags, [], pf, exp_names=plain)
    form("from+rpb1000", ["--records-per-batch", "1000"] + fromflags, [], pf, exp_names=plain)
    # --files {list}: "a file which itself contains, one per line, names of input files. May be used more than once"
    # (flag table).  Lists with and without a final newline, the option given twice, mixed with --from / --mfrom / names
    # after the verb (all append to one list of inputs in command-line order), lists naming compressed files.
    def lst(names, final=True, eol="\n"):
        return (eol.join(names) + (eol if final else "")).encode("utf-8")

    h = max(1, nfiles // 2)
    first, rest = plain[:h], (plain[h:] or plain[:1])
    rs_first, rs_rest = recsets[:h], (recsets[h:] or recsets[:1])
    form("--files", ["--files", "list.txt"], [], dict(pf, **{"list.txt": lst(plain)}), exp_names=plain)
    form("--files-no-final-newline", ["--files", "list.txt"], [], dict(pf, **{"list.txt": lst(plain, final=False)}), exp_names=plain)
    form("--files-crlf", ["--files", "list.txt"], [], dict(pf, **{"list.txt": lst(plain, eol="\r\n")}), exp_names=plain)
    form("--files-twice", ["--files", "l1.txt", "--files", "l2.txt"], [],
         dict(pf, **{"l1.txt": lst(first, final=rng.random() < 0.5), "l2.txt": lst(rest, final=rng.random() < 0.5)}),
         exp_names=first + rest, exp_recsets=rs_first + rs_rest)
    form("--files+names-after-verb", ["--files", "l1.txt"], rest, dict(pf, **{"l1.txt": lst(first)}),
         exp_names=first + rest, exp_recsets=rs_first + rs_rest)
    form("--files+from", ["--files", "l1.txt"] + [x for nme in rest for x in ("--from", nme)], [], dict(pf, **{"l1.txt": lst(first)}),
         exp_names=first + rest, exp_recsets=rs_first + rs_rest)
    form("from+--files", [x for nme in first for x in ("--from", nme)] + ["--files", "l2.txt"], [], dict(pf, **{"l2.txt": lst(rest, final=False)}),
         exp_names=first + rest, exp_recsets=rs_first + rs_rest)
    form("mfrom+--files", ["--mfrom"] + first + ["--", "--files", "l2.txt"], [], dict(pf, **{"l2.txt": lst(rest)}),
         exp_names=first + rest, exp_recsets=rs_first + rs_rest)
    form("from+names-after-verb", [x for nme in first for x in ("--from", nme)], rest, pf,
         exp_names=first + rest, exp_recsets=rs_first + rs_rest)
    form("--files-in-subdir", ["--files", "lists/l.txt"], [], dict(pf, **{"lists/l.txt": lst(plain, final=False)}), exp_names=plain)
    # file:// names (new-in-miller-6.md: "You can read input with prefixes https://, http://, and file://"), relative and absolute
    form("file-uri", [], ["file://" + nme for nme in plain], pf)
    form("file-uri-absolute", [], ["file://@CWD@/" + nme for nme in plain], pf, abs_cwd=True)
    form("file-uri-from", [x for nme in plain for x in ("--from", "file://" + nme)], [], pf, exp_names=["file://" + nme for nme in plain])
    concat_ok = fmt in ("dkvp", "nidx", "jsonl", "xtab") or (fmt == "json" and False)
    if nfiles == 1:
        form("stdin", [], [], {}, stdin=datas[0], exp_names=["(stdin)"])
        form("stdin-gzin", ["--gzin"], [], {}, stdin=_gz(datas[0], rng), exp_names=["(stdin)"])
        form("stdin-bz2in", ["--bz2in"], [], {}, stdin=bz2.compress(datas[0]), exp_names=["(stdin)"])
        form("stdin-zin", ["--zin"], [], {}, stdin=zlib.compress(datas[0]), exp_names=["(stdin)"])
        form("stdin-prepipe-gunzip", ["--prepipe", "gunzip"], [], {}, stdin=_gz(datas[0], rng), exp_names=["(stdin)"])
    elif concat_ok and fmt != "xtab":
        allrecs = [r for rs in recsets for r in rs]
        form("stdin-concatenated", [], [], {}, stdin=b"".join(datas), exp_names=["(stdin)"], exp_recsets=[allrecs])
    gzs = [_gz(d, rng) for d in datas]
    bzs = [bz2.compress(d, rng.choice([1, 9])) for d in datas]
    zzs = [zlib.compress(d, rng.choice([1, 6, 9])) for d in datas]
    form("ext-gz", [], named(".gz"), dict(zip(named(".gz"), gzs)))
    form("--files-ext-gz", ["--files", "list.txt"], [], dict(zip(named(".gz"), gzs), **{"list.txt": lst(named(".gz"), final=rng.random() < 0.5)}),
         exp_names=named(".gz"))
    form("--files+gzin", ["--gzin", "--files", "list.txt"], [], dict(zip(named(".bin"), gzs), **{"list.txt": lst(named(".bin"))}),
         exp_names=named(".bin"))
    form("--files+prepipe", ["--prepipe", "gunzip", "--files", "list.txt"], [], dict(zip(named(".gz"), gzs), **{"list.txt": lst(named(".gz"), final=False)}),
         exp_names=named(".gz"))
    form("ext-bz2", [], named(".bz2"), dict(zip(named(".bz2"), bzs)))
    form("ext-z", [], named(".z"), dict(zip(named(".z"), zzs)))
    form("flag-gzin", ["--gzin"], named(".bin"), dict(zip(named(".bin"), gzs)))
    form("flag-bz2in", ["--bz2in"], named(".bin"), dict(zip(named(".bin"), bzs)))
    form("flag-zin", ["--zin"], named(".bin"), dict(zip(named(".bin"), zzs)))
    form("flag-gzin-after-from", ["--from", named(".bin")[0], "--gzin"], [], dict(zip(named(".bin"), gzs)),
         exp_names=named(".bin")[:1], exp_recsets=recsets[:1])
    form("ext-gz-multimember", [], named(".gz"), dict(zip(named(".gz"), [_gz(d, rng, multi=True) for d in datas])))
    form("ext-gz-named-header", [], named(".gz"), dict(zip(named(".gz"), [_gz(d, rng, named="orig.txt") for d in datas])))
    if have_zstd:
        form("ext-zst", [], named(".zst"), dict(zip(named(".zst"), zst)))
        form("flag-zstdin", ["--zstdin"], named(".bin"), dict(zip(named(".bin"), zst)))
        if zstdcat:
            form("prepipe-zstdcat-flag", ["--prepipe-zstdcat"], named(".zst"), dict(zip(named(".zst"), zst)),
                 env={"PATH": R.BASE_ENV["PATH"] + ":" + os.path.dirname(zstdcat)})
    else:
        res["skipped"] += 2
        bump(res, "c_zstd_forms_skipped_no_cli", 2)
    gzf = dict(zip(named(".gz"), gzs))
    for cmd in ("gunzip", "gzip -dc", "zcat -cf"):
        form("prepipe:" + cmd, ["--prepipe", cmd], named(".gz"), gzf)
    form("prepipe:bzip2 -dc", ["--prepipe", "bzip2 -dc"], named(".bz2"), dict(zip(named(".bz2"), bzs)))
    form("prepipe:cat", ["--prepipe", "cat"], plain, pf)
    form("prepipex:gzip -dc", ["--prepipex", "gzip -dc"], named(".gz"), gzf)
    form("prepipex:cat", ["--prepipex", "cat"], plain, pf)
    form("prepipex:bzip2 -dc", ["--prepipex", "bzip2 -dc"], named(".bz2"), dict(zip(named(".bz2"), bzs)))
    # commands that work under exactly one of the two documented conventions ({command} < {filename} vs {command} {filename})
    form("prepipe:sh -c cat", ["--prepipe", "sh -c cat"], plain, pf)
    form("prepipex:sh -c 'cat \"$0\"'", ["--prepipex", "sh -c 'cat \"$0\"'"], plain, pf)
    form("prepipe-gunzip-flag", ["--prepipe-gunzip"], named(".gz"), gzf)
    form("prepipe-zcat-flag", ["--prepipe-zcat"], named(".gz"), gzf)
    # documented: a prepipe replaces the decision made from the file suffix, and --gzin etc. are ignored with it
    form("prepipe-overrides-ext", ["--prepipe", "cat"], named(".gz"), dict(zip(named(".gz"), datas)))
    form("prepipe-overrides-flag", ["--gzin", "--prepipe", "cat"], plain, pf)
    form("prepipe-with-from", ["--prepipe", "gunzip", "--from", named(".gz")[0]], [], gzf, exp_names=named(".gz")[:1], exp_recsets=recsets[:1])
    if nfiles >= 2:
        exts = [rng.choice([".dat", ".gz", ".bz2", ".z"]) for _ in stems]
        mixed_names = [s + e for s, e in zip(stems, exts)]
        enc = {".dat": lambda i: datas[i], ".gz": lambda i: gzs[i], ".bz2": lambda i: bzs[i], ".z": lambda i: zzs[i]}
        form("ext-mixed", [], mixed_names, {nme: enc[e](i) for i, (nme, e) in enumerate(zip(mixed_names, exts))})
    def observe(fm):
        """-> (status, got, r): status in ok | bad-run | fails | unparseable | differs"""
        argv = fm["pre"] + iflags + out + verb + fm["names"]
        cwd = None
        if fm["abs_cwd"]:
            cwd = R.new_scratch()
            argv = [a.replace("@CWD@", cwd) for a in argv]
        r = R.mlr(argv, stdin=fm["stdin"], files=fm["files"], env=fm["env"], cwd=cwd)
        if cwd:
            shutil.rmtree(cwd, ignore_errors=True)
            r.stdout = (r.stdout or b"").replace(cwd.encode(), b"@CWD@")
            argv = [a.replace(cwd, "@CWD@") for a in argv]
        bump(res, "c_runs")
        if r.verdict != "exited" or r.crashed():
            return "bad-run", None, r, argv
        if r.rc != 0:
            return "fails", None, r, argv
        try:
            got = kt(scan_records(r.out))
        except ScanError:
            return "unparseable", None, r, argv
        return ("ok" if got == fm["exp"] else "differs"), got, r, argv

    for fm in forms:
        status, got, r, argv = observe(fm)
        sig = {"kind": "source-form", "form": fm["form"], "format": fmt, "name_class": nameclass}
        detail = {"argv": argv, "files": {k: (v if len(v) < 3000 else v[:3000]) for k, v in fm["files"].items()},
                  "stdin": fm["stdin"][:3000], "env": fm["env"], "gen_seed": case["seed"],
                  "note": "compressed bytes are produced by Python gzip/bz2/zlib (zstd by the zstd CLI) from the plain text"}
        if status == "bad-run":
            _bad_run(res, r, f"source form {fm['form']}", detail, sig)
            continue
        res["evals"] += 1
        bump(res, "c_form:" + fm["form"].split(":")[0])
        if total > 0:
            res["nontrivial_keys"].append(_h("c", case["seed"], fm["form"]))
        if status == "ok":
            continue
        # Is the failure a property of the command or of the schedule?  Repeat the identical run 5 more times
        # and look at the *shape* of what arrives: "tail-lost" = every run delivers, for every file, a prefix
        # of that file's records (nothing wrong, nothing reordered, only tails missing); it is "race-like"
        # if every file got at least one record through in some run, "always-nothing" if some file never
        # delivers anything (a command that cannot work, e.g. a mis-built shell line).
        runs = [(status, got, r.err)] + [observe(fm)[:3] for _ in range(5 if status == "differs" else 2)]
        runs = [(st, g, (e if isinstance(e, str) else e.err)) for st, g, e in runs]
        err = r.err
        sig["err"] = ("file-already-closed" if "file already closed" in err else
                      "shell-syntax" if ("/bin/sh:" in err and ("yntax error" in err or "nterminated" in err)) else
                      "command-not-found" if "not found" in err else ("other" if err.strip() else "-"))
        detail["repeats"] = [st for st, _, _ in runs]
        exp_by_file = {}
        for rec in fm["exp"][:-1]:
            exp_by_file.setdefault(dict(rec)["f"], []).append(rec[0][1])
        delivered = {f: 0 for f in exp_by_file}
        shaped = True
        for st, g, _ in runs:
            if st == "ok":
                for f in delivered:
                    delivered[f] = max(delivered[f], len(exp_by_file[f]))
                continue
            if st != "differs":
                continue        # a run that fails outright (e.g. a line cut in the middle no longer parses) has no shape
            by = {}
            for rec in g:
                dd = dict(rec)
                if "END" in dd and len(rec) == 1:
                    continue
                by.setdefault(dd.get("f"), []).append(rec[0][1] if rec else None)
            for f, ids in by.items():
                e = exp_by_file.get(f)
                # (the last record that got through may itself be cut in the middle of its line)
                if e is None or len(ids) > len(e) or e[:len(ids) - 1] != ids[:-1]:
                    shaped = False
                else:
                    delivered[f] = max(delivered[f], len(ids))
        if status == "fails" and all(st == "fails" for st, _, _ in runs):
            add_violation(res, dict(sig, diff="fails"),
                          f"input form {fm['form']} ({fmt}, {nameclass} file names): exit {r.rc} in {len(runs)} of {len(runs)} identical runs: {r.err.strip()[-160:]}",
                          dict(detail, stderr=r.err[-1500:]))
        elif status == "unparseable":
            add_violation(res, dict(sig, diff="unparseable"), f"input form {fm['form']}: output unparseable", dict(detail, stdout=r.out[:1500]))
        elif shaped:
            any_ok = any(st == "ok" for st, _, _ in runs)
            loss = "race-like" if (any_ok or all(delivered[f] > 0 or not exp_by_file[f] for f in delivered)) else "always-nothing"
            nbad = sum(1 for st, _, _ in runs if st != "ok")
            add_violation(res, dict(sig, diff="tail-lost", loss=loss),
                          f"input form {fm['form']} ({fmt}, {nameclass} file names) loses records: {nbad} of {len(runs)} identical runs deliver only a prefix of "
                          f"some file's records (first run: {max(0, len(got or [])-1)} of {len(fm['exp'])-1}; {loss})"
                          + (f"; stderr: {r.err.strip()[-120:]}" if r.err.strip() else ""),
                          dict(detail, first_diff=first_diff(fm["exp"], got or []), stderr=r.err[-1000:],
                               max_delivered_per_file=delivered, expected_per_file={f: len(v) for f, v in exp_by_file.items()}))
        else:
            got = got or []
            dc = "count" if len(got) != len(fm["exp"]) else "value"
            add_violation(res, dict(sig, diff=dc),
                          f"input form {fm['form']} ({fmt}, {nameclass} file names) yields {max(0, len(got)-1)} records, "
                          f"the plain-file model {len(fm['exp'])-1}" + (f"; stderr: {r.err.strip()[-120:]}" if r.err.strip() else ""),
                          dict(detail, first_diff=first_diff(fm["exp"], got), stderr=r.err[-1000:]))
    res["stats"]["c_formats"] = [fmt]
    res["stats"]["c_name_classes"] = [nameclass]
    sample = {"monitor": "c", "format": fmt, "files": nfiles, "records": [len(r) for r in recsets], "name_class": nameclass,
                     "forms": [f["form"] for f in forms]}
    if case.get("sample"):
        res["sample"] = sample
    return res


# ==========================================================================================

def _family_names():
    fams = [c[0] for c in catalogue(random.Random(0)) if not c[0].startswith(("put-", "filter-"))]
    return fams + [d[1] for d in DSL]


def run(chk):
    only = getattr(chk, "only", None)
    q = chk.quick()
    chk.sample_cap = 9
    fam_names = _family_names()
    chk.rule = (
        f"a: verb chains of length 2-4 drawn from a catalogue of {len(fam_names)} context-free verb/option families, each drawing among the documented "
        "option forms that select another internal path (head -n k / -n -k, tail -n k / -n +k, with and without -g, ...) (put/filter programs that do "
        "not read NR/FNR/FILENAME, no print; shuffle/bootstrap/sample/bootstrap-ci under one --seed, at most one per chain) x generated inputs "
        "(0..1300 records, DKVP/JSON/CSV, ragged/heterogeneous/wide, 25% with non-canonical number spellings; 4-12% of the cases have 513+ "
        "records read at --records-per-batch 511/513/1000/2000, i.e. beyond the 500-record default batch and the readers' 512-record slab) "
        "x up to 3 intermediate-format plans per chain (JSON|JSONL; DKVP; CSV|TSV), text formats only "
        "when the stage's records are inside that format's lossless domain; quick tier enumerates a 30 x 16 core of (duplicating / retaining / "
        "regrouping / file-writing upstream) x (order-, position- and identity-sensitive downstream) pairs and the " + f"{len(KEY_UP)} x {len(KEY_DOWN)}" + " key-lifecycle pairs; the thorough tier "
        "has the core block with all three plans, the key-lifecycle block on narrow (JSON + DKVP plans) and wide (JSON + CSV/TSV plans) records plus 400 up-up-down triples, 500 chains of length 3-4 "
        "with all three plans, and every ordered pair of families once with one plan (plans rotate over the pair matrix). "
        "Non-trivial = every stage's output differs from its input (A changes the input and B changes A's output). "
        "b: lists of 1-5 files per format (17 input formats: every reader Miller has) with empty / header-only / `[]` files, headers differing per file, "
        "implicit header, ragged rows, comment lines, byte-order marks, barred PPRINT, CRLF, no final newline, csvlite/tsvlite/pprint schema changes, "
        "odd file names, the same file twice, x batch sizes 1/2/500 (and 513/1000/5000 when the list holds > 500 records) x "
        "probe variants (core NF/NR/FNR/FILENAME/FILENUM + end-block NR in two chained puts; context after a pass-through verb; "
        "cat --filename --filenum; per-file aggregation; end only) + `mlr V f1..fn` == concat(`mlr V fi`); plus a sweep of every reader x every "
        "per-file reader option x lists whose files all have their own columns. Non-trivial = >= 2 non-empty files. "
        "c: each generated input (1-3 files, 0..20000 records) materialised in ~50 source forms (names after the verb, --from, --mfrom, --files lists "
        "with/without final newline / CRLF / twice / mixed with the others, file:// names, stdin, compression by extension / flag / prepipe); "
        "non-trivial = a form run over >= 1 record; distinct = by generator seed (and form)")
    fam_names = _family_names()
    if not only or "a" in only:
        cases = []
        if q:
            idx = 0
            for fa in CORE_UP:
                for fb in CORE_DOWN:
                    # quick tier: the JSON plan and one of the two text plans (alternating); the thorough tier has all three
                    cases.append({"seed": f"{chk.seed}/ac/{idx}", "tier": chk.tier, "families": [fa, fb], "core": True,
                                  "plans": ["json", "dkvp" if idx % 2 == 0 else "xsv"]})
                    idx += 1
            chk.extra["a_core_pairs_enumerated"] = idx
            kidx = 0
            for ua in KEY_UP:
                for da in KEY_DOWN:
                    cases.append({"seed": f"{chk.seed}/ak/{kidx}", "tier": chk.tier, "explicit": [ua, da], "core": True, "wide": kidx % 3 != 0})
                    kidx += 1
            chk.extra["a_key_lifecycle_pairs_enumerated"] = kidx
            for i in range(120):
                cases.append({"seed": f"{chk.seed}/a2/{i}", "tier": chk.tier, "len": 2})
            for i in range(70):
                cases.append({"seed": f"{chk.seed}/a3/{i}", "tier": chk.tier, "len": 3})
            for i in range(30):
                cases.append({"seed": f"{chk.seed}/a4/{i}", "tier": chk.tier, "len": 4})
        else:
            # every ordered pair of families once, each with ONE intermediate-format plan (JSON | DKVP | CSV/TSV, rotating so
            # that the three plans are spread evenly over the rows and the columns of the pair matrix); the blocks where
            # chaining can plausibly differ from piping (key-lifecycle pairs, long chains) keep all three plans
            idx = 0
            plan_names = ("json", "dkvp", "xsv")
            for ia, fa in enumerate(fam_names):
                for ib, fb in enumerate(fam_names):
                    cases.append({"seed": f"{chk.seed}/ap/{idx}", "tier": chk.tier, "families": [fa, fb],
                                  "plans": [plan_names[(ia + ib + int(chk.seed)) % 3]]})
                    idx += 1
            # and the quick tier's core pairs with all three plans
            for fa in CORE_UP:
                for fb in CORE_DOWN:
                    cases.append({"seed": f"{chk.seed}/ac/{idx}", "tier": chk.tier, "families": [fa, fb], "core": True})
                    idx += 1
            kidx = 0
            for ua in KEY_UP:
                for da in KEY_DOWN:
                    for wide in (True, False):
                        # every pair on wide and on narrow records; the JSON plan always, the two text plans split between the widths
                        # (the text plans only vary the piped reference, the key bookkeeping under test lives in the chain process)
                        cases.append({"seed": f"{chk.seed}/ak/{kidx}", "tier": chk.tier, "explicit": [ua, da], "core": True, "wide": wide,
                                      "plans": ["json", "xsv" if wide else "dkvp"]})
                        kidx += 1
            for i in range(400):   # key-lifecycle chains of length 3: up, up, down
                r3 = random.Random(f"{chk.seed}/ak3/{i}")
                cases.append({"seed": f"{chk.seed}/ak3/{i}", "tier": chk.tier, "explicit": [r3.choice(KEY_UP), r3.choice(KEY_UP), r3.choice(KEY_DOWN)],
                              "core": True, "wide": i % 4 != 0})
            chk.extra["a_key_lifecycle_pairs_enumerated"] = kidx
            for i in range(500):
                cases.append({"seed": f"{chk.seed}/a34/{i}", "tier": chk.tier, "len": 3 + (i % 2)})
            chk.extra["a_ordered_family_pairs_enumerated"] = len(fam_names) ** 2
        for c in cases[:2] + cases[-2:]:
            c["sample"] = True
        chk.pmap(pipe_case, cases, chunksize=4, label="a chain-vs-pipe")
    if not only or "b" in only:
        n = 9 if q else 28
        cases = [{"seed": f"{chk.seed}/b/{fmt}/{i}", "fmt": fmt, "tier": chk.tier} for fmt in B_FORMATS for i in range(n)]
        # reader-option sweep (added after seeded change C05-b, widened after the audit): per-file reader state (the header,
        # implicit or read; the BOM; comment lines before the header; the bars of barred PPRINT) must not leak from one file
        # to the next; every reader that has such state x every option set x file lists whose files all have their own
        # column count
        for fmt in B_FORMATS:
            if fmt in ("json", "jsonl"):
                continue
            for oi, oname in enumerate(B_OPTS.get(fmt, []) + ["-"]):
                fo = {} if oname == "-" else {oname: True}
                heavy = fmt in ("csv", "tsv") and oname in ("implicit", "ragged", "-")
                for i in range((6 if heavy else 3) if q else (40 if heavy else 12)):
                    cases.append({"seed": f"{chk.seed}/bo/{fmt}/{oi}/{i}", "fmt": fmt, "tier": chk.tier, "force_opts": fo, "fresh_keys": True})
        for c in cases[:1] + cases[len(cases) // 2:len(cases) // 2 + 1] + cases[-1:]:
            c["sample"] = True
        chk.pmap(ctx_case, cases, chunksize=2, label="b context model")
    if not only or "c" in only:
        fmts = ["dkvp", "csv", "json"] if q else ["dkvp", "csv", "json", "tsv", "nidx", "xtab", "jsonl"]
        n = 8 if q else 14
        cases = [{"seed": f"{chk.seed}/c/{fmt}/{i}", "fmt": fmt, "tier": chk.tier} for fmt in fmts for i in range(n)]
        for c in cases[:1] + cases[-1:]:
            c["sample"] = True
        chk.pmap(src_case, cases, label="c source forms")
    st = chk.stats
    fams_seen = st.pop("a_families", set())
    chk.extra["a_families_in_catalogue"] = len(fam_names)
    chk.extra["a_families_exercised"] = len(fams_seen)
    chk.extra["a_intermediate_formats"] = {k[6:]: v for k, v in st.items() if k.startswith("a_mid_")}
    chk.extra["b_formats_reached"] = sorted(st.pop("b_formats", set()))
    chk.extra["b_file_kinds_reached"] = sorted(st.pop("b_file_kinds", set()))
    chk.extra["b_reader_options_reached"] = sorted(st.pop("b_opts", set()))
    chk.extra["c_formats_reached"] = sorted(st.pop("c_formats", set()))
    chk.extra["c_name_classes"] = sorted(st.pop("c_name_classes", set()))
    chk.extra["c_forms_runs"] = {k[7:]: v for k, v in st.items() if k.startswith("c_form:")}
    for k in [k for k in st if k.startswith("c_form:")]:
        st.pop(k)
    chk.extra["zstd_cli"] = _find_tool("zstd") or "absent: .zst / --zstdin forms skipped"
    chk.extra["zstdcat_cli"] = _find_tool("zstdcat") or "absent: --prepipe-zstdcat form skipped"
    chk.assumptions = [
        "a: outputs are compared as parsed records (key order, value text, and - except for the number-spelling profile - JSON string-vs-bare kind), "
        "never as bytes: zero-record JSON output is `[`/`]` for JSON input but empty for other inputs",
        "a: every invocation carries --no-auto-flatten --no-auto-unflatten: auto-(un)flatten is documented (flatten-unflatten.md) to happen at "
        "the end of a chain depending on the I/O formats, i.e. it is part of format conversion (C02), not of chaining",
        "a: the verb catalogue excludes verbs that consult NR/FNR/FILENAME/FILENUM (documented to keep the original stream's values, "
        "questions-about-then-chaining.md), random verbs, and print/dump/emit-to-stdout statements (their text is not part of the record stream)",
        "a: a text intermediate (DKVP/CSV/TSV) is used at a boundary only if the stage's records are inside that format's lossless domain: "
        "no nested values, no booleans, no *string* values that look numeric (from-text values are type-inferred, reference-main-data-types.md), "
        "no separator characters in keys/values, and for CSV/TSV a single key list and no empty records; otherwise the plan falls back or declines (skipped)",
        "a: inputs with non-canonical number spellings (0x1F, +5, .5, 0b101, 1.5e0) are never sent through JSON intermediates: JSON output is "
        "documented to re-render numbers whose original text is not valid JSON (reference-main-data-types.md); their final output uses --jvquoteall so that "
        "original text is compared",
        "a: a value/type mismatch is declined (skipped, counted in observed.a_declined_integral_float_crosses_boundary) only when it is reproduced "
        "constructively: the chain is run again with a `put` inserted at every `then` that assigns int(v) to every float spelled like an integer "
        "(7.0 * 2 prints as 14) and touches nothing else - which is exactly what a text boundary does, since numbers read from text are typed by "
        "their spelling (reference-main-arithmetic.md) and no format, JSON included, carries that float-ness. The excuse holds only if that run "
        "re-typed at least one value, its output equals the pipe's record for record, AND a control run (the same inserted program assigning the "
        "same values unchanged) reproduces the original chain output, so that the inserted stage by itself masks nothing; any residual difference "
        "is reported. If such a float is >= 2^53 or -0 (int() of it need not print alike) the case is skipped as undecidable "
        "(observed.a_declined_integral_float_unsafe_to_retype)",
        "a: shuffle / bootstrap / sample / bootstrap-ci run with the same --seed on the chain and on every piped process (`--seed`: reproducible output, "
        "flag table); a chain with two of them is declined (one generator shared by two verbs, draw order unspecified)",
        "a: when both the chain and the pipe fail the case is skipped; the pipe is run sequentially (each stage to completion), so tee/split files "
        "are compared only when no later verb is documented/known to stop consuming input early (head without -g, seqgen, nothing, check)",
        "b: an empty (0-byte) file, a header-only CSV/TSV/PPRINT file and a JSON `[]` file contribute no records but count in FILENUM "
        "(FILENUM = 1-up index of the file, reference-dsl-variables.md); FNR/FILENAME in end blocks are not specified and not checked; "
        "end-block NR after `head` is not checked",
        "b: ragged rows: surplus values are keyed by 1-up column number; too-short rows keep only the keys they have values for in CSV (recorded "
        "example in record-heterogeneity.md) but are filled with empty strings by the TSV, CSV-lite, TSV-lite and PPRINT readers (flag table) - "
        "the readers differ, which is C01/C02's subject, the model follows each; implicit header makes the header line record 1 with keys 1..n "
        "(file-formats.md: common to CSV, TSV, CSV-lite, TSV-lite - hence USV/ASV, which are CSV-lite with other separators; the PPRINT reader "
        "honours the same flag and is held to the same per-file behaviour)",
        "b: --skip-comments: lines starting with # are not data wherever they stand, the line before a header included, and do not count in FNR "
        "(file-formats.md, Comments in data); a UTF-8 byte-order mark at the head of a CSV / CSV-lite file is stripped (release notes 5.2.0) whichever "
        "the file's position in the list; BOMs in other formats are not documented and not exercised; --barred-input files are generated in the layout "
        "`mlr --opprint --barred` writes",
        "b: YAML records are written with their keys in sorted order (the YAML reader's key order is the open finding C01-F6, not this property's subject); "
        "YAML scalars are double-quoted strings; recutils/DCF values are non-empty single-line words",
        "b: the order of the two fields prepended by `cat --filename --filenum` is not documented; either order is accepted",
        "c: FILENAME for standard input is `(stdin)` (the spelling Miller's own diagnostics use); compressed stdin with --gzin/--bz2in/--zin and "
        "--prepipe on stdin are included because they work on this tree (a regression would be reported)",
        "c: --prepipe-bz2 is documented as `--prepipe bz2` and no `bz2` command exists on this machine: not exercised; http(s) URLs need a network: not "
        "exercised; file:// names are (new-in-miller-6.md), FILENAME being the name as given",
        "c: all ways of naming inputs append to one list in command-line order (--from / --mfrom / --files `may be used more than once`; names after "
        "the verb come last): mixed forms are expected to read the files in that order; names in a --files list are relative to the working directory; "
        "blank lines inside a --files list are not documented and not exercised; a CRLF-terminated list is expected to work like an LF-terminated one "
        "(CRLF data files are accepted by default; the option's code carries a TODO for it) - on this tree it does not: finding C05-F10",
    ]
