"""C09 - sort and the sorting functions return a correctly ordered permutation.

The oracle is a CHECKER, not a re-sorter (numerically equal but textually different keys may
legally come out in any order):
  1. permutation + every record unchanged (unique ids; `-b` modelled),
  2. no decided inversion under the documented comparator chain (vf/model/c09_sortmodel.py),
  3. stability: records with identical texts in all sort keys keep input order,
  4. records lacking any sort key come last, in input order.

Monitors:
  verb      `sort` with 1-3 keys over {f, r, c, cr, nf/n, nr, t, tr/rt}, `-b`, missing keys; lists of 0-1100 records
            (> 12 and > 50 distinct groups, several batches of several records, records of >= 12 fields), 64-bit ints
            on both sides of 2^53 / 2^63; one key over typed JSON input (bare numbers vs quoted digit strings);
            `sort` without keys must refuse
  swr       `sort-within-records` (default, -r recursive, -n natural, -f / -r {regex} / -r -f {regex} weak form,
            -n combined with -f / -r {regex})
  top       `top [-n k] -f x[,y] [-g] [--min|--max] [-a] [-o]` : the selected records dominate the rest
            and are in order under the numeric collation
  dsl       DSL `sort` (arrays / maps, flag strings, by value, comparator functions) and
            `sort_collection`; functions the statement names but the binary lacks are listed as
            not_present
  preorder  model-free: the lexical / case-folded / numeric comparators of the verb and of the
            DSL are total preorders over a value pool (antisymmetry over all ordered pairs,
            transitivity over all triples via a rank argument, 3-sorts embed the pairwise order);
            plus agreement of the observed pairwise relation with the reference comparators
  doc       doc-replay of sorting.md and of the sort / sort-within-records / top sections of
            reference-verbs.md
"""
import hashlib
import json
import random

from .. import run as R
from ..harness import add_violation, bump, case_result
from ..model import c09_docreplay as DR
from ..model import c09_sortmodel as SM

BINARIES = ("mlr-verif",)
LEVEL = "exploration"


def _h(*xs):
    return hashlib.sha1(repr(xs).encode()).hexdigest()[:16]


# ------------------------------------------------------------------------------------------
# value pools (texts without ',', '=', ';', '|', newline)

NUM_INTS = ["0", "-0", "+0", "1", "+1", "-1", "2", "3", "5", "7", "9", "10", "12", "15", "16", "100", "255", "1000",
            "-5", "-10", "0x1", "0x10", "0xff", "0xFF", "0b1", "0b101", "0o17", "-0x10",
            "9007199254740992", "9007199254740994", "-9223372036854775808", "4611686018427387904"]
NUM_FLOATS = ["0.0", "-0.0", "1.0", "1.", "1e0", "1.50", "1.5", ".5", "0.5", "5e-1", "5.e-1", "-1.5", "2.5", "1e3", "1E3",
              "1000.0", "1e-3", "0.001", "16.0", "255.0", "3.0", "-1.0", "1e308", "-1e308", "5e-324", "15.0",
              "9007199254740992.0", "9007199254740994.0", "4.611686018427387904e18", "10.0", "1e1"]
STRS = ["abc", "ABC", "Abc", "abd", "ab", "a", "b", "B", "Z", "z", "zebra", "Zebra", "a b", "é", "É", "e", "E",
        "x10", "x9", "x09", "x2", "x2a", "x2b", "x", "pan", "Pan", "PAN", "日本", "~", "-", "hat", "wye", "ñ", "Ñ", "ж", "Ж",
        "a_b", "aBc", "_x", "x_", "[", "a1b2", "a1b10", "a1b02"]
NATS = ["x1", "x2", "x10", "x02", "x2a", "x2b", "x20", "x100", "y1", "y01", "x", "1x", "10x", "2x", "02x", "a1b2", "a1b10",
        "a1b02", "img12.png", "img2.png", "img02.png", "v1.10", "v1.9", "v1.09", "z"]
# ints that are distinct as 64-bit ints but round to the same double (2^53 / 2^62 / 2^63 neighbourhoods), in several spellings:
# "numerical" order of two ints is their integer order however large they are
BIG_CLUSTERS = [
    ["9223372036854775807", "9223372036854775806", "0x7fffffffffffffff", "9223372036854775000", "0x7ffffffffffffc01", "9223372036854775296"],
    ["9007199254740993", "9007199254740992", "0x20000000000001", "9007199254740995", "9007199254740994", "9007199254740996"],
    ["-9223372036854775808", "-9223372036854775807", "-9223372036854775806", "-9223372036854775000"],
    ["-9007199254740993", "-9007199254740992", "-9007199254740994", "-0x20000000000001"],
    ["4611686018427387905", "4611686018427387904", "4611686018427387903", "0x4000000000000001"],
    ["1152921504606846977", "1152921504606846976", "1152921504606846975", "1152921504606847000"],
]
for _t in NUM_INTS + NUM_FLOATS + [v for c in BIG_CLUSTERS for v in c]:
    assert SM.parse_num(_t) is not None, _t
for _t in STRS + NATS:
    assert SM.parse_num(_t) is None and not SM.looks_ambiguous(_t), _t


_SYN_ALPHA = "abcxyzABCXYZ019_ -~éÉжЖ"


def _synth(rng, kind):
    """A generated key text (used when a pool must be larger than the curated lists: > 12 / > 50 distinct groups)."""
    t = rng.random()
    if kind == "n" and t < 0.8 or kind != "n" and t < 0.2:
        u = rng.random()
        if u < 0.45:
            return str(rng.randint(-10 ** rng.randint(1, 18), 10 ** rng.randint(1, 18)))
        if u < 0.55:
            return str(rng.choice([1, -1]) * ((1 << rng.choice([53, 54, 60, 62, 63])) - rng.randint(1, 1500)))
        if u < 0.65:
            return hex(rng.randint(0, (1 << rng.choice([8, 16, 40, 63])) - 1))
        if u < 0.9:
            return repr(rng.choice([0.5, 0.25, 1.5, 2.75, 1024.0, 3.0, 0.1, 1e-7, 1e12]) * rng.randint(-1000, 1000))
        return "%de%d" % (rng.randint(-99, 99), rng.randint(-20, 20))
    if kind == "t" and t < 0.7:
        return rng.choice(["x", "y", "img", "v1.", "a", ""]) + str(rng.randint(0, 120)).zfill(rng.choice([0, 0, 2, 3])) + rng.choice(["", "", "a", ".png", "b7"])
    while True:
        v = "".join(rng.choice(_SYN_ALPHA) for _ in range(rng.randint(1, 4)))
        if v.strip() == v and SM.parse_num(v) is None and not SM.looks_ambiguous(v):
            return v


def key_pool(rng, kind, size):
    """size distinct key texts suited to a comparator kind; always a mix of classes."""
    if kind == "n":
        w = [(NUM_INTS, 5), (NUM_FLOATS, 5), (STRS, 2), ([""], 1)]
    elif kind == "t":
        w = [(NATS, 6), (STRS, 2), (NUM_INTS, 2), ([""], 1)]
    else:
        w = [(STRS, 6), (NUM_INTS, 2), (NUM_FLOATS, 1), ([""], 1), (NATS, 1)]
    src = []
    for pool, k in w:
        src += [pool] * k
    out = []
    if size >= 2 and rng.random() < (0.35 if kind == "n" else 0.05):
        # a cluster of large ints that collide as doubles
        cl = rng.choice(BIG_CLUSTERS)
        out += rng.sample(cl, min(len(cl), size, rng.randint(2, 4)))
    tries = 0
    while len(out) < size and tries < 400:
        tries += 1
        if size > 20 and rng.random() < 0.6:
            v = _synth(rng, kind)
            if SM.looks_ambiguous(v):
                continue
        else:
            v = rng.choice(rng.choice(src))
        if v not in out:
            out.append(v)
    bad = SM.interfering_floats(out)
    out = [v for v in out if v not in bad and not (kind == "t" and SM.nat_overflow(v))] or [rng.choice(STRS)]
    rng.shuffle(out)
    return out


# ==========================================================================================
# verb sort

FLAG_KINDS = ["-f", "-r", "-c", "-cr", "-nf", "-nr", "-t", "-tr"]
ALIASES = {"-nf": ["-nf", "-n"], "-tr": ["-tr", "-rt"]}


def _dkvp_line(rec, sep=","):
    return sep.join(f"{k}={v}" for k, v in rec)


def _parse_line(line, sep=","):
    out = []
    if line == "":
        return out
    for pos, pair in enumerate(line.split(sep)):
        if "=" in pair:
            k, v = pair.split("=", 1)
        else:
            k, v = str(pos + 1), pair
        out.append((k, v))
    return out


def _lines(stdout):
    t = stdout.decode("utf-8", "surrogateescape")
    if not t:
        return []
    ls = t.split("\n")
    if ls[-1] == "":
        ls.pop()
    return ls


def _run(argv, stdin, res, sigbase, files=None):
    r = R.mlr(argv, stdin=stdin, files=files)
    bump(res, "runs")
    if r.verdict == "slow":
        res["inconc"] += 1       # wall-clock watchdog on a loaded machine: not attributable
        return None
    if r.verdict != "exited":
        # cpu / output-cap / deadlock on a small finite input (at most a few thousand short records): a sort that spins
        # on its comparator or emits a group forever is a failure of the property, not an inconclusive run
        add_violation(res, dict(sigbase, kind="hang", verdict=r.verdict),
                      f"mlr {' '.join(argv)[:300]}: did not terminate on a finite input of {len(stdin)} bytes (verdict {r.verdict})",
                      dict(argv=argv, stdin=stdin if len(stdin) < 20000 else stdin[:20000] + "...", stderr=r.err[-2500:]))
        return None
    if r.crashed() or r.rc != 0:
        add_violation(res, dict(sigbase, kind="crash" if r.crashed() else "exit"),
                      f"mlr {' '.join(argv)[:300]}: " + ("crash trace" if r.crashed() else f"exit status {r.rc}") +
                      f": {r.err.strip()[:200]}",
                      dict(argv=argv, stdin=stdin, stderr=r.err[-2500:]))
        return None
    return r


COMMA_VALS = ["a,b", "a", "b,c", "c", "b", ",", "a,", ",c", "a,b,c", "1,5", "1"]


def gen_sort_case(rng, nmax, fixed_flags=None, commas=False):
    nkeys = len(fixed_flags) if fixed_flags else rng.choice([1, 1, 2, 2, 3])
    flags = list(fixed_flags) if fixed_flags else [rng.choice(FLAG_KINDS) for _ in range(nkeys)]
    fields = [f"k{i+1}" for i in range(nkeys)]
    if not fixed_flags and nkeys >= 2 and rng.random() < 0.08:
        fields[1] = fields[0]         # the same field under two flags
    pools = []
    for fl in flags:
        kind = SM.VERB_FLAGS[fl][0]
        pools.append(key_pool(rng, kind, rng.choice([1, 2, 3, 4, 6, 9, 15] if nmax <= 60 else [3, 9, 15, 40, 80, 200])))
    if commas:
        # values containing the default OFS (read with --ifs ';'): Miller must not confuse ("a,b","c") with ("a","b,c")
        for pl in pools:
            pl[:] = pl[:3] + rng.sample(COMMA_VALS, rng.randint(2, len(COMMA_VALS)))
    if nmax <= 60:
        n = rng.choice([0, 1, 2, 3, 5, 8, 13, 14, 20, 30, 45, 60])
    elif nmax <= 150:
        n = rng.choice([55, 80, 120, nmax])          # > 50 groups: the library sort changes strategy at 12 and at 50 elements
    elif nmax <= 400:
        n = rng.choice([13, 40, 100, 250, nmax])
    else:
        n = rng.choice([501, 640, 1000, nmax])       # more than one default-size (500) batch
    pmiss = rng.choice([0.0, 0.1, 0.2, 0.2, 0.4])
    # wide records: 12 or more fields (Miller indexes the keys of wide records lazily; -b re-links fields after the lookups)
    wide = rng.random() < 0.12
    wnames = [f"w{i+1}" for i in range(rng.choice([9, 10, 12, 20]))] if wide else []
    recs = []
    for j in range(n):
        rec = [("id", f"r{j+1}")]
        vals = {}
        for f, pool in zip(fields, pools):
            if f not in vals:
                vals[f] = rng.choice(pool)
        present = [f for f in dict.fromkeys(fields) if rng.random() >= pmiss / max(1, len(set(fields)))]
        slots = [("p", rng.choice(["u", "v", "", "7"]))] + [(f, vals[f]) for f in present]
        if rng.random() < 0.3:
            slots.append(("q", str(rng.randint(0, 9))))
        slots += [(w_, str(rng.randint(0, 99))) for w_ in wnames]
        rng.shuffle(slots)
        rec += slots
        recs.append(rec)
    return flags, fields, recs, wide


def sort_argv(rng, flags, fields, use_b):
    segs = []
    i = 0
    while i < len(flags):
        j = i
        # "-f a,b" is the same as "-f a -f b"
        if rng.random() < 0.5:
            while j + 1 < len(flags) and flags[j + 1] == flags[i]:
                j += 1
        spelled = rng.choice(ALIASES.get(flags[i], [flags[i]]))
        segs.append([spelled, ",".join(fields[i:j + 1])])
        i = j + 1
    if use_b:
        segs.insert(rng.randrange(len(segs) + 1), ["-b"])
    return ["sort"] + [a for seg in segs for a in seg]


def check_sorted_records(res, sigbase, argv, stdin, recs, flags, fields, out_lines, use_b, sep=","):
    """The four checker rules. Returns (ok, nontrivial)."""
    byid = {dict(r)["id"]: i for i, r in enumerate(recs)}
    detail = dict(argv=argv, stdin=stdin)
    got = []
    for ol in out_lines:
        pairs = _parse_line(ol, sep)
        d = dict(pairs)
        i = byid.get(d.get("id"))
        if i is None:
            add_violation(res, dict(sigbase, kind="permutation"), f"mlr {' '.join(argv)}: output record {ol[:100]!r} has no input counterpart",
                          dict(detail, got_line=ol))
            return False, False
        want = recs[i]
        if use_b:
            keyset = [f for f in dict.fromkeys(fields) if f in dict(want)]
            m = len(keyset)
            ok = (sorted(pairs[:m]) == sorted((f, dict(want)[f]) for f in keyset)
                  and pairs[m:] == [(k, v) for k, v in want if k not in keyset])
        else:
            ok = (ol == _dkvp_line(want, sep))
        if not ok:
            add_violation(res, dict(sigbase, kind="record-changed"),
                          f"mlr {' '.join(argv)}: record id={d.get('id')} came out as {ol[:120]!r}, went in as {_dkvp_line(want)[:120]!r}",
                          dict(detail, got_line=ol, expected_line=_dkvp_line(want)))
            return False, False
        got.append(i)
    if sorted(got) != list(range(len(recs))):
        add_violation(res, dict(sigbase, kind="permutation"),
                      f"mlr {' '.join(argv)}: {len(got)} records out for {len(recs)} in, or an id repeated",
                      dict(detail, got=out_lines[:60]))
        return False, False
    keys = {}
    keyless = []
    for i, r in enumerate(recs):
        d = dict(r)
        if all(f in d for f in fields):
            keys[i] = tuple(d[f] for f in fields)
        else:
            keyless.append(i)
    nk = len(keys)
    if got[nk:] != keyless:
        add_violation(res, dict(sigbase, kind="keyless-tail"),
                      f"mlr {' '.join(argv)}: the {len(keyless)} records lacking a sort key are not at the end in input order",
                      dict(detail, expected_tail=[_dkvp_line(recs[i]) for i in keyless][:30], got=out_lines[:80]))
        return False, False
    head = got[:nk]
    cmps = [SM.comparator(*SM.VERB_FLAGS[fl]) for fl in flags]
    # key tuples whose texts joined with ',' coincide with those of a DIFFERENT tuple (possible only if values contain ','):
    # the input class of the listed defect C09-F4
    byjoin = {}
    for t in set(keys.values()):
        byjoin.setdefault(",".join(t), set()).add(t)
    colliding = {t for v in byjoin.values() if len(v) > 1 for t in v}

    def f4_explains(*witness):
        """True iff the witness tuples belong to a colliding set AND the whole output is exactly what the listed defect
        predicts and nothing else: records whose joined key texts coincide form one contiguous group in input order, and
        the groups are ordered (no decided inversion) by the key tuple of their first record."""
        if not colliding or not any(w in colliding for w in witness):
            return False
        runs = []
        for i in head:
            j = ",".join(keys[i])
            if runs and runs[-1][0] == j:
                if runs[-1][1][-1] > i:
                    return False
                runs[-1][1].append(i)
            else:
                runs.append((j, [i]))
        if len({j for j, _ in runs}) != len(runs):
            return False
        firsts = {}
        for i in sorted(keys):
            firsts.setdefault(",".join(keys[i]), i)
        if any(idxs[0] != firsts[j] for j, idxs in runs):
            return False
        return SM.check_sequence(cmps, [keys[idxs[0]] for _, idxs in runs]) is None
    # stability on identical key texts
    lastpos = {}
    for i in head:
        k = keys[i]
        if k in lastpos and lastpos[k] > i:
            if colliding:
                sigbase = dict(sigbase, joined_key_grouping_explains=f4_explains(k))
            add_violation(res, dict(sigbase, kind="stability"),
                          f"mlr {' '.join(argv)}: records with identical key texts {k} swapped (id r{i+1} came after r{lastpos[k]+1})",
                          dict(detail, got=out_lines[:80]))
            return False, False
        lastpos[k] = i
    for x, fl in enumerate(flags):
        if SM.VERB_FLAGS[fl][0] == "t" and any(SM.nat_overflow(k_[x]) for k_ in keys.values()):
            res["skipped"] += 1      # digit runs beyond int64: C09-F8 makes the collation intransitive, the list cannot be judged
            return True, False
        if SM.VERB_FLAGS[fl][0] == "n" and SM.interfering_floats({k_[x] for k_ in keys.values()}):
            res["skipped"] += 1      # an int/int/float triple on which the collation is undocumented (see the model)
            return True, False
    inv = SM.check_sequence(cmps, [keys[i] for i in head])
    if inv is not None:
        a, b = inv
        ka, kb = keys[head[a]], keys[head[b]]
        if colliding:
            sigbase = dict(sigbase, joined_key_grouping_explains=f4_explains(ka, kb))
        # which key of the chain decides
        which = 0
        for x, (c, u, v) in enumerate(zip(cmps, ka, kb)):
            r = c(u, v)
            if r:
                which = x
                break
        fl = flags[which]
        kind, rev = SM.VERB_FLAGS[fl]
        cls = _pair_class(kind, ka[which], kb[which])
        # root cause may sit in an EARLIER key that the model calls tied although the texts differ
        # (case-fold-equal number spellings with letters, which Miller compares unfolded)
        for x in range(which):
            if ka[x] != kb[x] and SM.VERB_FLAGS[flags[x]][0] == "c":
                c0 = _pair_class("c", ka[x], kb[x])
                if c0 != "case-fold":
                    cls, which, fl = c0, x, flags[x]
                    break
        sigbase = dict(sigbase)
        if len(flags) > 1 and any(SM.VERB_FLAGS[f_][0] == "t" for f_ in flags):
            # a natural key whose column holds numerically-equal-but-different texts (y01 / y1)?
            tied = False
            for x, f_ in enumerate(flags):
                if SM.VERB_FLAGS[f_][0] != "t":
                    continue
                col = sorted({k_[x] for k_ in keys.values()})
                tied = tied or any(SM.nat_tied(u, v) for ui, u in enumerate(col) for v in col[ui + 1:])
            sigbase["natural_tied_texts_present"] = tied
        add_violation(res, dict(sigbase, kind="order", flag=fl, nkeys=len(flags), pos=which, **{"class": cls}),
                      f"mlr {' '.join(argv)}: out of order under {fl}: {ka[which]!r} (output position {a+1}) must not precede "
                      f"{kb[which]!r} (position {b+1})",
                      dict(detail, got=out_lines[:80], keys_out=[list(keys[i]) for i in head][:80]))
        return False, False
    texts = [keys[i] for i in range(len(recs)) if i in keys]
    nontrivial = (len(set(texts)) >= 2 and len(set(texts)) < len(texts) and got != sorted(got))
    # evidence only: numerically / case-fold equal but textually different keys that changed relative order
    return True, nontrivial


def _pair_class(kind, a, b):
    if kind == "n":
        names = {0: "number", 1: "boolean", 2: "empty", 3: "string", None: "?"}
        ra, rb = names[SM.num_rank(a)], names[SM.num_rank(b)]
        return "/".join(sorted([ra, rb]))
    if kind == "t":
        if SM.nat_overflow(a) or SM.nat_overflow(b):
            return "natural:digit-run-over-int64"
        return "natural-with-empty" if (a == "" or b == "") else "natural"
    if kind == "c":
        import re as _re
        if any(SM.parse_num(SM.text_of(z)) is not None and _re.search("[A-Za-z]", SM.text_of(z)) for z in (a, b)):
            return "case-fold:numeric-text-with-letters"
        return "case-fold"
    return "lexical"


def verb_case(case):
    rng = random.Random(case["seed"])
    commas = bool(case.get("commas"))
    if case.get("explicit"):
        # hand-written regression inputs (kept from defects found by the random cases)
        flags, fields = case["explicit"]["flags"], case["explicit"]["fields"]
        recs = [[("id", f"r{j+1}")] + [tuple(kv) for kv in r] for j, r in enumerate(case["explicit"]["recs"])]
        use_b = wide = False
        argv = ["sort"] + [a for fl, f in zip(flags, fields) for a in (fl, f)]
    else:
        flags, fields, recs, wide = gen_sort_case(rng, case.get("nmax", 60), case.get("flags"), commas)
        use_b = rng.random() < (0.4 if wide else 0.10)
        argv = sort_argv(rng, flags, fields, use_b)
    if case.get("b"):
        argv = ["--records-per-batch", str(case["b"])] + argv
    sep = ";" if commas else ","
    if commas:
        argv = ["--ifs", ";", "--ofs", ";"] + argv
    stdin = "".join(_dkvp_line(r, sep) + "\n" for r in recs)
    sigbase = {"where": "verb-sort"}
    res = case_result(_h("verb", case["seed"]))
    if commas:
        bump(res, "sorts_with_comma_values")
    if wide:
        bump(res, "sorts_of_wide_records_ge12_fields")
    if (case.get("b") or 500) >= 2 and len(recs) > (case.get("b") or 500):
        bump(res, "sorts_over_several_batches_of_several_records")
        if len(recs) > 500 and not case.get("b"):
            bump(res, "sorts_over_several_default_size_batches")
    for fl in flags:
        bump(res, "flag:" + fl)
    bump(res, f"nkeys:{len(flags)}")
    if use_b:
        bump(res, "with_-b")
    r = _run(argv, stdin, res, sigbase)
    if r is None:
        return res
    ok, nt = check_sorted_records(res, sigbase, argv, stdin, recs, flags, fields, _lines(r.stdout), use_b, sep)
    res["nontrivial"] = nt
    if nt:
        bump(res, "verb_sorts_nontrivial")
    if ok:
        bump(res, "sorts_checked")
        ng = len({tuple(dict(x).get(f) for f in fields) for x in recs})
        if ng > 12:
            bump(res, "sorts_with_gt12_groups")
        if ng > 50:
            bump(res, "sorts_with_gt50_groups")
    res["sample"] = {"monitor": "verb", "argv": argv, "n_records": len(recs)}
    return res


# typed (JSON) input: a quoted value is a string whatever it looks like (new-in-miller-6.md: "quoted values in JSON strings are
# consistently flagged as strings throughout the processing chain"), a bare number is a number
JSON_NUMS = ["0", "1", "9", "10", "10.0", "1.5", "-3", "100", "2.5e1", "9007199254740993", "9007199254740992", "0.5", "12", "7"]
JSON_STRS = ["abc", "ABC", "b", "", "x10", "zebra", "é", "10", "9", "1.5", "0x10", "-3", "100", "7", "1e3", "12"]


def _jcmp(kind, rev):
    """Comparator over typed elements (is_string, text)."""
    def c(a, b):
        if kind == "n":
            ra = 0 if not a[0] else (2 if a[1] == "" else 3)
            rb = 0 if not b[0] else (2 if b[1] == "" else 3)
            if ra != rb:
                r = (ra > rb) - (ra < rb)
            elif ra == 0:
                r = SM.cmp_num(a[1], b[1])
            elif ra == 3:
                r = SM.cmp_lex(a[1], b[1])
            else:
                r = 0
        else:
            r = SM.BASE[kind](a[1], b[1])
        return None if r is None else (-r if rev else r)
    return c


def json_sort_case(case):
    """`sort` with one key over JSON Lines input whose key values are bare numbers and quoted strings (some of them digit strings)."""
    rng = random.Random(case["seed"])
    flag = rng.choice(["-nf", "-nr", "-nf", "-nr", "-f", "-r", "-c"])
    kind, rev = SM.VERB_FLAGS[flag]
    n = rng.choice([2, 3, 5, 8, 13, 20, 40, 70])
    nums = rng.sample(JSON_NUMS, rng.randint(1, 6))
    strs = rng.sample(JSON_STRS, rng.randint(1, 6))
    elems = []
    for j in range(n):
        if rng.random() < 0.1:
            elems.append(None)
        elif rng.random() < 0.5:
            elems.append((False, rng.choice(nums)))
        else:
            elems.append((True, rng.choice(strs)))
    lines = []
    for j, e in enumerate(elems):
        kv = "" if e is None else ', "k": ' + (json.dumps(e[1], ensure_ascii=False) if e[0] else e[1])
        lines.append('{"id": %d%s, "p": "u"}' % (j + 1, kv))
    stdin = "".join(l + "\n" for l in lines)
    argv = ["--ijsonl", "--ojsonl", "sort", flag, "k"]
    res = case_result(_h("jsonsort", case["seed"]))
    sigbase = {"where": "verb-sort-json", "flag": flag}
    bump(res, "json_typed_sorts")
    r = _run(argv, stdin, res, sigbase)
    if r is None:
        return res
    out = _lines(r.stdout)
    detail = dict(argv=argv, stdin=stdin, got=out[:80])
    if sorted(out) != sorted(lines):
        add_violation(res, dict(sigbase, kind="permutation"), f"mlr {' '.join(argv)}: output records are not the input records (as text)", detail)
        return res
    got = [lines.index(l) for l in out]
    keyed = [i for i in got if elems[i] is not None]
    if got[len(keyed):] != [i for i in range(n) if elems[i] is None]:
        add_violation(res, dict(sigbase, kind="keyless-tail"), f"mlr {' '.join(argv)}: records lacking the key are not at the end in input order", detail)
        return res
    cmpf = _jcmp(kind, rev)

    def first_bad(seq):
        for x in range(len(seq)):
            for y in range(x + 1, len(seq)):
                a, b = elems[seq[x]], elems[seq[y]]
                if a == b:
                    if seq[x] > seq[y]:
                        return ("stability", seq[x], seq[y])
                    continue
                c = cmpf(a, b)
                if c is not None and c > 0:
                    return ("order", seq[x], seq[y])
        return None
    if kind == "n" and SM.interfering_floats([e[1] for e in elems if e and not e[0]]):
        res["skipped"] += 1
        return res
    bad = first_bad(keyed)
    if bad:
        what, i, j = bad
        a, b = elems[i], elems[j]
        # witness-level test for the listed defect "same text, different type share one group": the pair involves a text that
        # occurs both quoted and bare, and the whole output is what grouping by text predicts (groups contiguous in input order,
        # ordered by the typed value of their first record)
        both = {e[1] for e in elems if e and e[0]} & {e[1] for e in elems if e and not e[0]}
        explains = False
        if a[1] in both or b[1] in both:
            runs = []
            for i_ in keyed:
                if runs and elems[runs[-1][0]][1] == elems[i_][1]:
                    runs[-1].append(i_)
                else:
                    runs.append([i_])
            texts = [elems[r_[0]][1] for r_ in runs]
            firsts = {}
            for i_ in sorted(keyed):
                firsts.setdefault(elems[i_][1], i_)
            explains = (len(set(texts)) == len(texts) and all(r_ == sorted(r_) and r_[0] == firsts[elems[r_[0]][1]] for r_ in runs)
                        and first_bad([r_[0] for r_ in runs]) is None)
        show = lambda e: (json.dumps(e[1]) if e[0] else e[1])
        add_violation(res, dict(sigbase, kind=what, same_text_grouping_explains=explains,
                                **{"class": "/".join(sorted(["string" if e[0] else "number" for e in (a, b)]))}),
                      f"mlr {' '.join(argv)}: JSON value {show(a)} (id {i+1}) must not precede {show(b)} (id {j+1})", detail)
        return res
    bump(res, "json_typed_sorts_checked")
    res["nontrivial"] = len({e for e in elems if e}) >= 2 and got != sorted(got)
    return res


def noflags_case(case):
    """`sort` needs at least one key flag: without any (or with only -b) it must refuse - non-zero exit, a message, no records
    emitted, no crash and no hang - rather than pass the stream through in some order."""
    argv = case["argv"]
    res = case_result(_h("noflags", tuple(argv)))
    sigbase = {"where": "verb-sort", "case": "no-sort-keys"}
    stdin = "id=r1,k1=b\nid=r2,k1=a\n"
    r = R.mlr(argv, stdin=stdin)
    bump(res, "runs")
    if r.verdict == "slow":
        res["inconc"] += 1
        return res
    if r.verdict != "exited" or r.crashed() or r.rc == 0 or r.stdout.strip() or not r.err.strip():
        add_violation(res, dict(sigbase, kind="hang" if r.verdict != "exited" else "crash" if r.crashed() else "no-refusal"),
                      f"mlr {' '.join(argv)}: expected a refusal (non-zero exit, message, no output); got verdict {r.verdict} rc={r.rc} "
                      f"stdout={r.out[:80]!r} stderr={r.err[:120]!r}", dict(argv=argv, stdin=stdin))
    res["nontrivial"] = True
    return res


# ==========================================================================================
# sort-within-records

SWR_KEYS = ["a", "B", "c", "aa", "a1", "a10", "a2", "10", "9", "_z", "Z", "é", "ab", "Ab", "b", "x10", "x9", "x09", "k", "K",
            "zz", "0", "1", "a.b", "a:b", "m", "n", "o", "p", "q"]


def _rand_obj(rng, depth, recursive):
    n = rng.choice([0, 1, 2, 3, 5, 8, 13, 14]) if depth == 0 else rng.choice([1, 2, 3, 4])
    ks = rng.sample(SWR_KEYS, min(n, len(SWR_KEYS)))
    out = []
    for k in ks:
        t = rng.random()
        if recursive and depth < 3 and t < 0.3:
            out.append((k, _rand_obj(rng, depth + 1, recursive)))
        elif recursive and t < 0.4:
            out.append((k, [rng.randint(0, 9), "s", rng.randint(0, 9)]))
        else:
            out.append((k, rng.choice([rng.randint(-5, 99), "v" + str(rng.randint(0, 9)), ""])))
    return out


def _to_json(o):
    if isinstance(o, list) and (not o or isinstance(o[0], tuple)) and all(isinstance(x, tuple) for x in o):
        return "{" + ", ".join(json.dumps(k, ensure_ascii=False) + ": " + _to_json(v) for k, v in o) + "}"
    if isinstance(o, list):
        return "[" + ", ".join(_to_json(x) for x in o) + "]"
    return json.dumps(o, ensure_ascii=False)


def _is_obj(o):
    return isinstance(o, list) and all(isinstance(x, tuple) for x in o) and (len(o) > 0 or True) and not _is_arr(o)


def _is_arr(o):
    return isinstance(o, list) and len(o) > 0 and not isinstance(o[0], tuple)


def _sort_obj(o, recursive):
    if isinstance(o, list) and all(isinstance(x, tuple) for x in o):
        items = sorted(o, key=lambda kv: kv[0].encode("utf-8"))
        if recursive:
            items = [(k, _sort_obj(v, True)) for k, v in items]
        return items
    return o


def swr_case(case):
    rng = random.Random(case["seed"])
    mode = case["mode"]
    recursive = mode in ("-r", "-r-then")
    nrec = case.get("nrec", 30)
    objs = [[("id", j + 1)] + _rand_obj(rng, 0, recursive or mode == "nested-default") for j in range(nrec)]
    # put id at a random place
    for o in objs:
        idp = o.pop(0)
        o.insert(rng.randrange(len(o) + 1), idp)
    text = "".join(_to_json(o) + "\n" for o in objs)
    argv = ["--ijsonl", "--ojsonl", "sort-within-records"]
    sel = None
    if mode == "-r":
        argv += ["-r"]          # the last argument here
    elif mode == "-r-then":
        argv += ["-r", "then", "cat"]     # "-r with no regex argument" inside a then-chain
    elif mode == "-n":
        argv += ["-n"]
    elif mode in ("-f", "-n-f"):
        sel = rng.sample(SWR_KEYS, rng.randint(1, 6) if mode == "-f" else rng.randint(3, 12))
        argv += (["-n"] if mode == "-n-f" else []) + ["-f", ",".join(sel)]
    elif mode in ("-r-regex", "-n-r-regex", "-r-f-regex"):
        import re as _re
        rx = rng.choice(["^[ax]", "^a", "[0-9]$", "^(k|K|m|zz)$", "^x", "^[a-z]+$", "^.$"])
        sel = [k for k in SWR_KEYS + ["id"] if _re.search(rx, k)]
        argv += {"-r-regex": ["-r", rx], "-n-r-regex": ["-n", "-r", rx], "-r-f-regex": ["-r", "-f", rx]}[mode]
    natural = mode in ("-n", "-n-f", "-n-r-regex")
    sigbase = {"where": "sort-within-records", "mode": mode}
    res = case_result(_h("swr", mode, case["seed"]))
    bump(res, "swr_mode:" + mode)
    r = _run(argv, text, res, sigbase)
    if r is None:
        return res
    dec = json.JSONDecoder(object_pairs_hook=lambda pairs: [tuple(p) for p in pairs])
    outs = []
    try:
        for l in _lines(r.stdout):
            outs.append(dec.decode(l))
    except ValueError as ex:
        add_violation(res, dict(sigbase, kind="unparsable"), f"mlr {' '.join(argv)}: output is not JSON Lines: {ex}",
                      dict(argv=argv, stdin=text, got=r.out[:2000]))
        return res
    if len(outs) != len(objs):
        add_violation(res, dict(sigbase, kind="permutation"), f"mlr {' '.join(argv)}: {len(outs)} records out for {len(objs)} in",
                      dict(argv=argv, stdin=text, got=r.out[:2000]))
        return res
    nts = []
    for o, got in zip(objs, outs):
        line = _to_json(o)
        if mode in ("default", "nested-default", "-r", "-r-then"):
            exp = _sort_obj(o, recursive)
            if not recursive:
                exp = sorted(o, key=lambda kv: kv[0].encode("utf-8"))
            if got != exp:
                add_violation(res, dict(sigbase, kind="order"),
                              f"mlr {' '.join(argv)}: record {line[:120]} came out as {_to_json(got)[:120]}, expected keys in lexical ascending order"
                              + (" at every level" if recursive else " (values untouched)"),
                              dict(argv=argv, stdin=line + "\n", expected=_to_json(exp), got=_to_json(got)))
                return res
            if [k for k, _ in got] != [k for k, _ in o] and len(o) >= 3:
                nts.append(_h("swr", mode, tuple(k for k, _ in o)))
        else:
            if sorted(map(repr, got)) != sorted(map(repr, o)):
                add_violation(res, dict(sigbase, kind="record-changed"),
                              f"mlr {' '.join(argv)}: fields of {line[:120]} changed: {_to_json(got)[:120]}",
                              dict(argv=argv, stdin=line + "\n", got=_to_json(got)))
                return res
            gk = [k for k, _ in got]
            if sel is not None:
                # "-f / -r {regex}: sort only these keys; others preserve record order": relative orders only
                s_in = [k for k in gk if k in sel]
                o_in = [k for k in gk if k not in sel]
                bad = None
                for x in range(len(s_in)):
                    for y in range(x + 1, len(s_in)):
                        c = SM.cmp_nat(s_in[x], s_in[y]) if natural else SM.cmp_lex(s_in[x], s_in[y])
                        if c is not None and c > 0:
                            bad = (s_in[x], s_in[y])
                if bad or o_in != [k for k, _ in o if k not in sel]:
                    add_violation(res, dict(sigbase, kind="order"),
                                  f"mlr {' '.join(argv)}: selected keys not in {'natural' if natural else 'lexical'} order"
                                  f"{' (' + repr(bad[0]) + ' precedes ' + repr(bad[1]) + ')' if bad else ''} or other keys moved: {gk}",
                                  dict(argv=argv, stdin=line + "\n", got=_to_json(got)))
                    return res
            elif mode == "-n":
                bad = None
                for x in range(len(gk)):
                    for y in range(x + 1, len(gk)):
                        c = SM.cmp_nat(gk[x], gk[y])
                        if c is not None and c > 0:
                            bad = (gk[x], gk[y])
                if bad:
                    add_violation(res, dict(sigbase, kind="order"),
                                  f"mlr {' '.join(argv)}: keys {gk} not in natural order: {bad[0]!r} precedes {bad[1]!r}",
                                  dict(argv=argv, stdin=line + "\n", got=_to_json(got)))
                    return res
            if gk != [k for k, _ in o] and len(o) >= 3:
                nts.append(_h("swr", mode, tuple(k for k, _ in o)))
    bump(res, "swr_records_checked", len(objs))
    res["nontrivial_keys"] = nts
    res["nontrivial"] = bool(nts)
    res["evals"] = len(objs)
    res["sample"] = {"monitor": "swr", "argv": argv, "first_record": _to_json(objs[0])[:200], "out": _to_json(outs[0])[:200]}
    return res


# ==========================================================================================
# top

def top_case(case):
    rng = random.Random(case["seed"])
    n = rng.choice([0, 1, 2, 5, 13, 14, 30, 60, 130])
    k = rng.choice([0, 1, 1, 2, 3, 5, 14, 60, 100])
    default_n = rng.random() < 0.15           # "-n {count} ...; default 1"
    if default_n:
        k = 1
    grouped = rng.random() < 0.5
    mode = rng.choice(["--max", "--min", ""])
    all_ = rng.random() < 0.5
    oname = None if all_ or rng.random() < 0.7 else "rank"
    # several value fields (-a "requires a single value-field name only")
    vfields = ["x", "y"] if (not all_ and rng.random() < 0.3) else ["x"]
    pools = {}
    for f in vfields:
        pool = key_pool(rng, "n", rng.choice([1, 3, 6, 12, 20, 70]))
        if rng.random() < 0.5:
            pool = [v for v in pool if SM.parse_num(v) is not None] or ["1", "2"]
        assert not SM.interfering_floats(pool)
        pools[f] = pool
    pmiss = rng.choice([0.0, 0.15])
    wide = rng.random() < 0.12
    wnames = [f"w{i+1}" for i in range(rng.choice([9, 12, 20]))] if wide else []
    recs = []
    for j in range(n):
        rec = [("id", f"r{j+1}")]
        rec += [(w_, str(rng.randint(0, 99))) for w_ in wnames[:len(wnames) // 2]]
        if grouped and rng.random() >= pmiss:
            rec.append(("g", rng.choice(["a", "b", "c", ""])))
        if len(vfields) > 1:
            # every record carries all value fields (what a record with only some of them contributes is not documented)
            rec += [(f, rng.choice(pools[f])) for f in vfields]
        elif rng.random() >= pmiss:
            rec.append(("x", rng.choice(pools["x"])))
        rec.append(("p", str(rng.randint(0, 9))))
        rec += [(w_, str(rng.randint(0, 99))) for w_ in wnames[len(wnames) // 2:]]
        recs.append(rec)
    argv = ["top"] + ([] if default_n else ["-n", str(k)]) + ["-f", ",".join(vfields)] + (["-g", "g"] if grouped else []) + \
           ([mode] if mode else []) + (["-a"] if all_ else []) + (["-o", oname] if oname else [])
    stdin = "".join(_dkvp_line(r) + "\n" for r in recs)
    sigbase = {"where": "top", "mode": mode or "--max", "all": all_}
    res = case_result(_h("top", case["seed"]))
    bump(res, "top_cases")
    if len(vfields) > 1:
        bump(res, "top_with_two_value_fields")
    if default_n:
        bump(res, "top_with_default_n")
    if wide:
        bump(res, "top_on_wide_records_ge12_fields")
    r = _run(argv, stdin, res, sigbase)
    if r is None:
        return res
    out = _lines(r.stdout)
    cmpf = SM.comparator("n", mode != "--min")      # output order: largest first unless --min
    groups = {}
    for i, rec in enumerate(recs):
        d = dict(rec)
        if any(f not in d for f in vfields) or (grouped and "g" not in d):
            continue
        groups.setdefault(d["g"] if grouped else None, []).append(i)
    detail = dict(argv=argv, stdin=stdin, got=out[:60])
    idxname = oname or "top_idx"
    got_groups = {}
    order = []
    byline = {_dkvp_line(rec): i for i, rec in enumerate(recs)}
    for ol in out:
        if all_:
            if ol not in byline:
                add_violation(res, dict(sigbase, kind="record-changed"), f"mlr {' '.join(argv)}: {ol[:100]!r} is not an input record", detail)
                return res
            i = byline[ol]
            gk = dict(recs[i]).get("g") if grouped else None
            val = dict(recs[i])["x"] if "x" in dict(recs[i]) else None
            item = ((val,), i)
        else:
            d = dict(_parse_line(ol))
            want_keys = (["g"] if grouped else []) + [idxname] + [f + "_top" for f in vfields]
            if [k_ for k_, _ in _parse_line(ol)] != want_keys:
                add_violation(res, dict(sigbase, kind="shape"), f"mlr {' '.join(argv)}: output fields {list(d)} are not {want_keys}", detail)
                return res
            gk = d.get("g") if grouped else None
            item = (tuple(d[f + "_top"] for f in vfields), int(d[idxname]) if d[idxname].isdigit() else -1)
        if gk not in got_groups:
            got_groups[gk] = []
            order.append(gk)
        got_groups[gk].append(item)
    exp_order = [g for g in groups if min(k, len(groups[g])) > 0 or (not all_ and k > 0)]
    if order != [g for g in exp_order if g in got_groups] or set(order) - set(groups):
        add_violation(res, dict(sigbase, kind="group-order"), f"mlr {' '.join(argv)}: groups {order} not in first-appearance order {exp_order}", detail)
        return res
    nt = False
    for g, idxs in groups.items():
        m = min(k, len(idxs))
        items = got_groups.get(g, [])
        if not all_:
            if [it[1] for it in items] != list(range(1, len(items) + 1)):
                add_violation(res, dict(sigbase, kind="shape"), f"mlr {' '.join(argv)}: {idxname} not 1..n in group {g!r}", detail)
                return res
            # rows past the group size (padding) must be empty
            if any(v != "" for it in items[m:] for v in it[0]) or len(items) not in (m, k):
                add_violation(res, dict(sigbase, kind="count"),
                              f"mlr {' '.join(argv)}: group {g!r} has {len(idxs)} values, {len(items)} rows out with values {[it[0] for it in items][:8]}", detail)
                return res
            items = items[:m]
        elif len(items) != m:
            add_violation(res, dict(sigbase, kind="count"), f"mlr {' '.join(argv)}: group {g!r}: {len(items)} records out, expected min(n, group size) = {m}", detail)
            return res
        if all_ and len({it[1] for it in items}) != len(items):
            add_violation(res, dict(sigbase, kind="permutation"), f"mlr {' '.join(argv)}: a record is output twice", detail)
            return res
        for fi, f in enumerate(vfields):
            vals = [dict(recs[i])[f] for i in idxs]
            chosen = [it[0][fi] for it in items]
            rest = list(vals)
            for c in chosen:
                if c in rest:
                    rest.remove(c)
                else:
                    add_violation(res, dict(sigbase, kind="value"), f"mlr {' '.join(argv)}: top value {c!r} of field {f} of group {g!r} is not among the group's remaining input values", detail)
                    return res
            for x in range(len(chosen)):
                for y in range(x + 1, len(chosen)):
                    c = cmpf(chosen[x], chosen[y])
                    if c is not None and c > 0:
                        add_violation(res, dict(sigbase, kind="order", **{"class": _pair_class("n", chosen[x], chosen[y])}),
                                      f"mlr {' '.join(argv)}: top values of field {f} of group {g!r} out of order: {chosen[x]!r} before {chosen[y]!r}", detail)
                        return res
            if chosen:
                for v in rest:
                    c = cmpf(v, chosen[-1])
                    if c is not None and c < 0:
                        add_violation(res, dict(sigbase, kind="dominance", **{"class": _pair_class("n", v, chosen[-1])}),
                                      f"mlr {' '.join(argv)}: group {g!r}: {f}={v!r} was left out although it ranks before the selected {chosen[-1]!r}", detail)
                        return res
            if len(set(vals)) >= 2 and 0 < m < len(vals):
                nt = True
    bump(res, "tops_checked")
    res["nontrivial"] = nt
    res["sample"] = {"monitor": "top", "argv": argv, "n_records": n}
    return res


# ==========================================================================================
# DSL functions

DSL_FLAGSETS = ["", "n", "r", "nr", "rn", "f", "fr", "rf", "c", "cr", "rc", "t", "tr", "rt"]
ARR_FUNCS = [
    # (name, DSL text of the comparator, python mirror -> sign, element domain)
    ("a<=>b", "func(a,b) { return a <=> b }", lambda a, b: SM.cmp_num(a, b), "homog"),
    ("b<=>a", "func(a,b) { return b <=> a }", lambda a, b: SM.cmp_num(b, a), "homog"),
    ("strlen", "func(a,b) { return strlen(a) <=> strlen(b) }", lambda a, b: (len(a) > len(b)) - (len(a) < len(b)), "ascii"),
    ("abs", "func(a,b) { return abs(a) <=> abs(b) }", lambda a, b: (abs(int(a)) > abs(int(b))) - (abs(int(a)) < abs(int(b))), "int"),
    ("mod5", "func(a,b) { return (a % 5) <=> (b % 5) }", lambda a, b: (int(a) % 5 > int(b) % 5) - (int(a) % 5 < int(b) % 5), "nat"),
    ("ternary", "func(a,b) { return a < b ? -1 : a > b ? 1 : 0 }", lambda a, b: (int(a) > int(b)) - (int(a) < int(b)), "int"),
    ("minus", "func(a,b) { return a - b }", lambda a, b: (int(a) > int(b)) - (int(a) < int(b)), "int"),
    # the documented contract is the SIGN of the result ("returning < 0, 0, or > 0"): fractional, tiny and huge magnitudes
    ("minus-frac", "func(a,b) { return a - b }", lambda a, b: _fsgn(SM.parse_num(a), SM.parse_num(b)), "frac"),
    ("half", "func(a,b) { return (a <=> b) * 0.5 }", lambda a, b: SM.cmp_num(a, b), "homog"),
    ("tiny", "func(a,b) { return (b <=> a) * 1.0e-300 }", lambda a, b: SM.cmp_num(b, a), "homog"),
    ("huge", "func(a,b) { return (a <=> b) * 1.0e300 }", lambda a, b: SM.cmp_num(a, b), "homog"),
    ("permille", "func(a,b) { return (a - b) / 1000 }", lambda a, b: (int(a) > int(b)) - (int(a) < int(b)), "int"),
    ("even_then_odd",
     "func(a,b) { ax = a % 2; bx = b % 2; if (ax == bx) { return a <=> b } elif (bx == 1) { return -1 } else { return 1 } }",
     lambda a, b: ((int(a) > int(b)) - (int(a) < int(b))) if int(a) % 2 == int(b) % 2 else (-1 if int(b) % 2 == 1 else 1), "nat"),
]
MAP_FUNCS = [
    ("ak<=>bk", "func(ak,av,bk,bv) { return ak <=> bk }", lambda a, b: SM.cmp_lex(a[0], b[0])),
    ("bk<=>ak", "func(ak,av,bk,bv) { return bk <=> ak }", lambda a, b: SM.cmp_lex(b[0], a[0])),
    ("av<=>bv", "func(ak,av,bk,bv) { return av <=> bv }", lambda a, b: SM.cmp_num(a[1], b[1])),
    ("bv<=>av", "func(ak,av,bk,bv) { return bv <=> av }", lambda a, b: SM.cmp_num(b[1], a[1])),
    ("av-then-ak", "func(ak,av,bk,bv) { return av == bv ? ak <=> bk : av <=> bv }",
     lambda a, b: SM.cmp_lex(a[0], b[0]) if int(a[1]) == int(b[1]) else (int(a[1]) > int(b[1])) - (int(a[1]) < int(b[1]))),
]
MAP_FUNCS += [
    ("av-bv", "func(ak,av,bk,bv) { return av - bv }", lambda a, b: _fsgn(SM.parse_num(a[1]), SM.parse_num(b[1]))),
    ("(bv-av)/8", "func(ak,av,bk,bv) { return (bv - av) / 8 }", lambda a, b: _fsgn(SM.parse_num(b[1]), SM.parse_num(a[1]))),
    ("quarter-bk<=>ak", "func(ak,av,bk,bv) { return (bk <=> ak) * 0.25 }", lambda a, b: SM.cmp_lex(b[0], a[0])),
]
FRAC_VALS = ["0.5", "0.25", "0.75", "0.1", "0.3", "1.5", "1.25", "-0.5", "-0.25", "2", "0", "0.7", "0.71", "3.9", "4.1", "1e-3", "1",
             "0.125", "-0.75", "0.2", "3", "-1"]


def _fsgn(x, y):
    # sign of x - y computed in doubles = sign of the exact difference (a difference of two different doubles is never 0)
    return (x > y) - (x < y)


MAP_KEYS_MORE = [c1 + c2 for c1 in "bDfHj" for c2 in "aEiOuY12"]
MAP_KEYS_STR = ["alpha", "Beta", "gamma", "delta", "Eps", "zeta", "eta", "Theta", "iota", "kappa", "la", "mu", "nu", "xi", "Om",
                "pi", "rho", "Sig", "tau", "ups", "phi", "chi", "psi", "om"]
MAP_KEYS_MIX = MAP_KEYS_STR[:10] + ["3", "10", "9", "-1", "0x10", "1.5", "100", "2", "x10", "x9", "x2", "ab", "AB", "aB", "-b", "+a"]


def flagspec(fl):
    """flag string -> (kind, reverse, byvalue)."""
    kind = "n"
    for ch in fl:
        if ch in "fct":
            kind = ch
    return kind, ("r" in fl), ("v" in fl)


def dsl_case(case):
    """One mlr process; every input record is one array (or map) to sort; output one line per record."""
    rng = random.Random(case["seed"])
    form = case["form"]
    fl = case.get("flags", "")
    nrec = case.get("nrec", 24)
    bools = case.get("bools", False)
    func = case.get("func")
    res = case_result(_h("dsl", form, fl, func, bools, case["seed"]))
    bump(res, "dsl_form:" + form)
    sigbase = {"where": "dsl-" + form, "flags": fl if func is None else "func:" + func}
    conv = 'm = apply(mapexcept($*, "id"), func(k,v) { return {k: (k =~ "^ZB" ? boolean(v) : v)} });'
    if form == "sort-array":
        arg2 = "" if case.get("noarg") else f', "{fl}"'
        body = f'{conv} print $id . "|" . joinv(sort(get_values(m){arg2}), ";");'
    elif form == "sort_collection":
        body = f'{conv} print $id . "|" . joinv(sort_collection({"m" if case.get("onmap") else "get_values(m)"}), ";");'
    elif form == "sort-map":
        arg2 = "" if case.get("noarg") else f', "{fl}"'
        body = f'{conv} s = sort(m{arg2}); print $id . "|" . joink(s, ";") . "|" . joinv(s, ";");'
    elif form == "sort-array-func":
        name, text, mirror, dom = next(f for f in ARR_FUNCS if f[0] == func)
        body = f'print $id . "|" . joinv(sort(get_values(mapexcept($*, "id")), {text}), ";");'
    elif form == "sort-map-func":
        name, text, mirror = next(f for f in MAP_FUNCS if f[0] == func)
        body = f's = sort(mapexcept($*, "id"), {text}); print $id . "|" . joink(s, ";") . "|" . joinv(s, ";");'
    else:
        raise ValueError(form)
    kind, rev, byval = flagspec(fl)
    # inputs
    recs = []
    for j in range(nrec):
        n = rng.choice([0, 1, 2, 3, 5, 8, 12, 13, 14, 20, 33])
        if j == 1:
            n = rng.choice([51, 64, 130])      # beyond the library sort's 12- and 50-element cut-offs; one per process (all-pairs check)
        if form == "sort-array-func":
            if dom == "homog":
                pool = rng.choice([NUM_INTS + NUM_FLOATS, [s for s in STRS if s]])
            elif dom == "ascii":
                pool = ["a", "bb", "ccc", "dd", "e", "ffff", "", "gg", "hhhhh", "abc", "xy"]
            elif dom == "frac":
                pool = FRAC_VALS
            elif dom == "int":
                pool = [str(v) for v in range(-12, 13)]
            else:
                pool = [str(v) for v in range(0, 25)]
            vals = [rng.choice(pool) for _ in range(n)]
            keys = [f"f{i+1}" for i in range(n)]
        elif form == "sort-map-func":
            keys = rng.sample(MAP_KEYS_STR + MAP_KEYS_MORE, min(n, len(MAP_KEYS_STR + MAP_KEYS_MORE)))
            if func in ("av-bv", "(bv-av)/8"):
                vals = [rng.choice(FRAC_VALS) for _ in keys]
            else:
                vals = [str(rng.randint(-3, 6)) for _ in keys]
        elif form == "sort-map" and not byval:
            keys = rng.sample(MAP_KEYS_MIX + MAP_KEYS_MORE, min(n, len(MAP_KEYS_MIX + MAP_KEYS_MORE)))
            vals = [rng.choice(["1", "x", "", "2.5"]) for _ in keys]
        else:
            pool = key_pool(rng, kind, rng.choice([1, 3, 6, 10, 20]) if n <= 33 else rng.choice([20, 80, 150]))
            pool = [v for v in pool if v not in ("true", "false")]
            vals = [rng.choice(pool) for _ in range(n)]
            keys = [f"f{i+1}" for i in range(n)]
            if bools:
                for i in range(n):
                    if rng.random() < 0.2:
                        keys[i] = f"ZB{i+1}"
                        vals[i] = rng.choice(["true", "false"])
        recs.append([("id", f"r{j+1}")] + list(zip(keys, vals)))
    stdin = "".join(_dkvp_line(r) + "\n" for r in recs)
    argv = ["put", "-q", body]
    r = _run(argv, stdin, res, sigbase)
    if r is None:
        return res
    out = _lines(r.stdout)
    if len(out) != len(recs):
        add_violation(res, dict(sigbase, kind="shape"), f"mlr put -q '{body[:100]}...': {len(out)} lines for {len(recs)} records",
                      dict(argv=argv, stdin=stdin, got=out[:20]))
        return res
    nts = []

    def one(rec, ol):
        rid = rec[0][1]
        parts = ol.split("|")
        if parts[0] != rid:
            add_violation(res, dict(sigbase, kind="shape"), f"line {ol[:80]!r} does not start with id {rid}", dict(argv=argv, stdin=stdin))
            return
        pairs = rec[1:]
        n = len(pairs)

        def elem(k, v):
            return (v == "true") if k.startswith("ZB") else v
        elems = [elem(k, v) for k, v in pairs]
        one = _dkvp_line(rec) + "\n"
        det = dict(argv=argv, stdin=one, got_line=ol)
        if form in ("sort-array", "sort_collection", "sort-array-func"):
            got_t = parts[1].split(";") if (n > 0 and len(parts) > 1) else []
            if n == 1 and len(parts) > 1:
                got_t = [parts[1]]
            if sorted(got_t) != sorted(SM.text_of(e) for e in elems):
                add_violation(res, dict(sigbase, kind="permutation"),
                              f"{form}({[SM.text_of(e) for e in elems][:12]}, {fl!r}) returned {got_t[:12]}: not a permutation of the input",
                              det)
                return
            # map texts back to elements (booleans only where the text is true/false and the input had booleans)
            nb = sum(1 for e in elems if isinstance(e, bool))
            got = [(t == "true") if (nb and t in ("true", "false")) else t for t in got_t]
            if form == "sort-array-func":
                cmpf = mirror
            elif form == "sort_collection":
                cmpf = SM.comparator("n", False)
            else:
                cmpf = SM.comparator(kind, rev)
            if (form == "sort_collection" or kind == "n") and SM.interfering_floats(got_t):
                res["skipped"] += 1
                return
            if form == "sort-array" and kind == "t" and any(SM.nat_overflow(t_) for t_ in got_t):
                res["skipped"] += 1
                return
            bad = _first_inversion(cmpf, got)
            if bad:
                a, b = bad
                cls = _pair_class(kind if form != "sort-array-func" else "n", SM.text_of(a), SM.text_of(b)) if form != "sort-array-func" else "func"
                if kind == "t" and form == "sort-array" and "" in got_t:
                    cls = "natural-with-empty"
                add_violation(res, dict(sigbase, kind="order", **{"class": cls}),
                              f"{form} with {('flags ' + repr(fl)) if func is None else func} returned {got_t[:14]}: {SM.text_of(a)!r} must not precede {SM.text_of(b)!r}",
                              dict(det, input=[SM.text_of(e) for e in elems]))
                return
            if len(set(got_t)) >= 2 and len(set(got_t)) < len(got_t) and got_t != [SM.text_of(e) for e in elems]:
                nts.append(_h("dsl", form, fl, func, tuple(got_t)))
        else:
            gk = parts[1].split(";") if n > 0 else []
            gv = parts[2].split(";") if n > 0 and len(parts) > 2 else []
            if n == 1:
                gk, gv = [parts[1]], [parts[2] if len(parts) > 2 else ""]
            if sorted(zip(gk, gv)) != sorted((k, v) for k, v in pairs):
                add_violation(res, dict(sigbase, kind="permutation"),
                              f"{form}({_dkvp_line(pairs)[:100]}, {fl!r}) returned keys {gk[:10]} values {gv[:10]}: not the same key/value pairs",
                              det)
                return
            if form == "sort-map-func":
                seq = list(zip(gk, gv))
                cmpf = mirror
                show = lambda p: f"{p[0]}:{p[1]}"
            elif byval:
                nb = sum(1 for e in elems if isinstance(e, bool))
                seq = [(v == "true") if (k.startswith("ZB")) else v for k, v in zip(gk, gv)]
                cmpf = SM.comparator(kind, rev)
                show = SM.text_of
            else:
                seq = gk
                cmpf = SM.comparator(kind, rev)
                show = SM.text_of
            if form != "sort-map-func" and kind == "n" and SM.interfering_floats([show(z) for z in seq]):
                res["skipped"] += 1
                return
            if form != "sort-map-func" and kind == "t" and any(SM.nat_overflow(show(z)) for z in seq):
                res["skipped"] += 1
                return
            bad = _first_inversion(cmpf, seq)
            if bad:
                a, b = bad
                cls = "func" if form == "sort-map-func" else _pair_class(kind, show(a), show(b))
                if kind == "t" and form == "sort-map":
                    if any(SM.text_of(s_) == "" for s_ in seq if not isinstance(s_, tuple)):
                        cls = "natural-with-empty"
                    else:
                        lc = SM.cmp_nat(show(a).lower(), show(b).lower())
                        if not rev and (lc is None or lc <= 0) or rev and (lc is None or lc >= 0):
                            cls = "natural-but-case-folded"
                if kind == "n" and form == "sort-map" and not byval:
                    import re as _re
                    pref = any(_re.match(r"^[+-]?0[xbo]", show(z)) for z in (a, b))
                    cls += ":prefixed-int-key" if pref else ":plain-key"
                add_violation(res, dict(sigbase, kind="order", **{"class": cls}),
                              f"{form} with {('flags ' + repr(fl)) if func is None else func} returned keys {gk[:12]} values {gv[:12]}: {show(a)!r} must not precede {show(b)!r}",
                              dict(det, input=_dkvp_line(pairs)))
                return
            if n >= 3 and gk != [k for k, _ in pairs]:
                nts.append(_h("dsl", form, fl, func, tuple(gk), tuple(gv)))
    for rec, ol in zip(recs, out):
        one(rec, ol)       # keep going after a (possibly known) violation: it must not mask a different one
    # one violation per signature per process
    seen_sigs = set()
    uniq = []
    for v in res["viol"]:
        k = json.dumps(v["sig"], sort_keys=True)
        if k not in seen_sigs:
            seen_sigs.add(k)
            uniq.append(v)
    res["viol"] = uniq
    bump(res, "dsl_collections_checked", len(recs))
    res["nontrivial_keys"] = nts
    res["nontrivial"] = bool(nts)
    res["evals"] = len(recs)
    res["sample"] = {"monitor": "dsl", "program": body[:200], "first_input": _dkvp_line(recs[0])[:150], "first_output": out[0][:150]}
    return res


def _first_inversion(cmpf, seq):
    for x in range(len(seq)):
        for y in range(x + 1, len(seq)):
            c = cmpf(seq[x], seq[y])
            if c is not None and c > 0:
                return seq[x], seq[y]
    return None


# ==========================================================================================
# comparator preorder (model-free) + agreement with the reference comparators

PRE_POOL = (["0", "-0", "+0", "0.0", "-0.0", "1", "1.0", "0x1", "0b1", "1e0", "1.", "-1", "-1.0", "2", "10", "9", "1e3", "1000",
             "1e-3", "0.001", ".5", "0.5", "5e-1", "9007199254740992", "9007199254740992.0", "9007199254740994",
             "9007199254740994.0", "4611686018427387904", "4.611686018427387904e18", "-9223372036854775808",
             "-9223372036854775808.0", "1e308", "-1e308", "5e-324", "0xff", "255", "0xFF", "255.0",
             # ints that are NOT exactly representable as doubles, next to their neighbours (pairwise agreement only; the
             # preorder laws are stated for exactly representable values)
             "9007199254740993", "9223372036854775807", "9223372036854775806", "0x7fffffffffffffff", "-9223372036854775807",
             "4611686018427387905"] +
            ["", "abc", "ABC", "Abc", "abd", "ab", "a b", "é", "É", "e", "zebra", "Zebra", "_", "a_", "aB", "true", "false",
             "10a", "a10", "a9", "-", "~", "ω", "Ω", "ж", "Ж", "日本", "😀", " ", "A", "a", "[", "x"])
assert len(set(PRE_POOL)) == len(PRE_POOL)


def pre_pool(chk):
    pool = list(PRE_POOL)
    if chk.quick():
        rng = chk.rng("prepool")
        nums = [v for v in pool if SM.parse_num(v) is not None]
        strs = [v for v in pool if SM.parse_num(v) is None]
        rng.shuffle(nums)
        rng.shuffle(strs)
        keep_n = ["0", "-0", "0.0", "1", "1.0", "0x1", "9007199254740992", "9007199254740992.0", "9007199254740994", "-1", "1e3", "1000",
                  "9007199254740993", "9223372036854775807", "9223372036854775806", "0x7fffffffffffffff", "-9223372036854775807",
                  "-9223372036854775808", "4611686018427387905", "4611686018427387904"]
        keep_s = ["", "abc", "ABC", "Abc", "é", "É", "_", "true", " ", "a"]
        nums = keep_n + [v for v in nums if v not in keep_n][:16]
        strs = keep_s + [v for v in strs if v not in keep_s][:18]
        return nums + strs           # 60 values
    rng = chk.rng("prepool")
    extra = set()
    while len(extra) < 200 - len(pool):
        t = rng.random()
        if t < 0.3:
            v = str(rng.randint(-10 ** rng.randint(1, 15), 10 ** rng.randint(1, 15)))
        elif t < 0.5:
            v = repr(rng.choice([0.5, 0.25, 1.5, 2.75, 1024.0, 3.0]) * rng.randint(-1000, 1000))
        elif t < 0.6:
            v = hex(rng.randint(0, 1 << 40))
        else:
            v = "".join(rng.choice("abAB zZ_09éÉ~") for _ in range(rng.randint(1, 4)))
            if "=" in v or "," in v or SM.parse_num(v) is not None or SM.looks_ambiguous(v) or v.strip() != v and False:
                continue
        if v not in pool and (SM.parse_num(v) is not None or not SM.looks_ambiguous(v)):
            extra.add(v)
    return pool + sorted(extra)


def preorder_case(case):
    """All ordered pairs of the pool through one comparator in ONE process:
       verb: `sort -f g <flag> k` where g is a unique fixed-width group id per (pair, order);
       dsl : one record per (pair, order), sort([$a,$b], flags) / sort_collection."""
    pool = case["pool"]
    via = case["via"]        # "verb" | "dsl" | "dsl-sc"
    kind = case["kind"]      # f | c | n
    rng = random.Random(case["seed"])
    n = len(pool)
    res = case_result(_h("pre", via, kind, case["seed"]))
    sigbase = {"where": "preorder-" + via, "comparator": kind}
    flag = PRE_FLAG[kind]
    dfl = {"f": "f", "c": "c", "n": ""}[kind]
    triples = case["triples"]
    lines = []
    if via == "verb":
        g = 0
        for i in range(n):
            for j in range(n):
                if i == j:
                    continue
                lines.append(f"g=P{g:07d},k={pool[i]},o=1")
                lines.append(f"g=P{g:07d},k={pool[j]},o=2")
                g += 1
        for t in triples:
            for o, i in enumerate(t):
                lines.append(f"g=T{g:07d},k={pool[i]},o={o+1}")
            g += 1
        rng2 = random.Random(case["seed"] + "/shuffle")
        # keep each group's internal order but interleave groups, so the primary key has work to do
        blocks = {}
        for l in lines:
            blocks.setdefault(l.split(",", 1)[0], []).append(l)
        names = list(blocks)
        rng2.shuffle(names)
        ptr = {nm: 0 for nm in names}
        inter = []
        live = names[:]
        while live:
            nm = live[rng2.randrange(len(live))] if len(live) < 50 else live[rng2.randrange(50)]
            inter.append(blocks[nm][ptr[nm]])
            ptr[nm] += 1
            if ptr[nm] == len(blocks[nm]):
                live.remove(nm)
        stdin = "\n".join(inter) + "\n"
        argv = ["sort", "-f", "g", flag, "k"]
    else:
        for i in range(n):
            for j in range(n):
                if i != j:
                    lines.append(f"a={pool[i]},b={pool[j]}")
        for t in triples:
            lines.append(f"a={pool[t[0]]},b={pool[t[1]]},c={pool[t[2]]}")
        stdin = "\n".join(lines) + "\n"
        if via == "dsl":
            call = 'sort(get_values($*), "%s")' % dfl if dfl else "sort(get_values($*))"
        else:
            call = "sort_collection(get_values($*))"
        argv = ["put", "-q", f'print joinv({call}, ";")']
    r = _run(argv, stdin, res, sigbase)
    if r is None:
        return res
    out = _lines(r.stdout)
    # decode: for every ordered pair (i, j) the output order
    first = {}       # (i, j) -> True if pool[i] came out first when the input order was (i, j)
    tri_out = []
    if via == "verb":
        groups = {}
        for l in out:
            d = dict(_parse_line(l))
            groups.setdefault(d["g"], []).append((d["k"], int(d["o"])))
        g = 0
        for i in range(n):
            for j in range(n):
                if i == j:
                    continue
                seq = groups.get(f"P{g:07d}", [])
                if sorted(o for _, o in seq) != [1, 2]:
                    add_violation(res, dict(sigbase, kind="permutation"), f"pair group P{g:07d} came out as {seq}", dict(argv=argv))
                    return res
                first[(i, j)] = (seq[0][1] == 1)
                g += 1
        for t in triples:
            seq = groups.get(f"T{g:07d}", [])
            if sorted(o for _, o in seq) != [1, 2, 3]:
                add_violation(res, dict(sigbase, kind="permutation"), f"triple group T{g:07d} came out as {seq}", dict(argv=argv))
                return res
            tri_out.append([t[o - 1] for _, o in seq])
            g += 1
    else:
        npairs = n * (n - 1)
        if len(out) != npairs + len(triples):
            add_violation(res, dict(sigbase, kind="shape"), f"{len(out)} lines for {npairs + len(triples)} records", dict(argv=argv))
            return res
        p = 0
        for i in range(n):
            for j in range(n):
                if i == j:
                    continue
                got = out[p].split(";")
                p += 1
                if got == [pool[i], pool[j]]:
                    first[(i, j)] = True
                elif got == [pool[j], pool[i]]:
                    first[(i, j)] = False
                else:
                    add_violation(res, dict(sigbase, kind="permutation"),
                                  f"sort of [{pool[i]!r}, {pool[j]!r}] returned {got}", dict(argv=argv, stdin=f"a={pool[i]},b={pool[j]}\n"))
                    return res
        for t in triples:
            got = out[p].split(";")
            p += 1
            want = sorted(pool[i] for i in t)
            if sorted(got) != want:
                add_violation(res, dict(sigbase, kind="permutation"), f"sort of {[pool[i] for i in t]} returned {got}", dict(argv=argv))
                return res
            # map texts back to pool indices (texts are distinct)
            tri_out.append([next(i for i in t if pool[i] == g_) for g_ in got])
    # relation: -1 if i strictly before j, +1 if after, 0 if tied
    Rel = {}
    for i in range(n):
        for j in range(i + 1, n):
            fij, fji = first[(i, j)], first[(j, i)]
            if fij and not fji:
                Rel[(i, j)] = -1
            elif not fij and fji:
                Rel[(i, j)] = 1
            else:
                # the two input orders give different sequences: neither a < b nor b < a holds strictly = a tie
                # (kept input order = stable; both reversed = resolved unstably, legal for different texts)
                Rel[(i, j)] = 0
                if not fij:
                    bump(res, "tied_pairs_reversing_input_order")
            Rel[(j, i)] = -Rel[(i, j)]
    bump(res, "pairs_checked", n * (n - 1))
    viol, stats = analyse_relation(pool, Rel, tri_out, via, kind, argv)
    for k_, v_ in stats.items():
        bump(res, k_, v_)
    for sig, what, detail in viol:
        add_violation(res, sig, what, detail)
    res["nontrivial"] = True
    res["nontrivial_keys"] = [_h("pre", via, kind, pool[i], pool[j]) for i in range(n) for j in range(i + 1, n) if Rel[(i, j)] != 0][:20000]
    res["evals"] = n * (n - 1) + len(triples)
    res["sample"] = {"monitor": "preorder", "via": via, "comparator": kind, "pool_size": n, "triples_sorted": len(triples),
                     "tied_pairs": sum(1 for i in range(n) for j in range(i + 1, n) if Rel[(i, j)] == 0)}
    return res


def _exact(t):
    v = SM.parse_num(t)
    return v is None or SM.exactly_double(v)


def analyse_relation(pool, Rel, tri_out, via, kind, argv, preorder=True):
    """Model-free: is the observed pairwise relation a total preorder, do the 3-sorts embed it; and
    does it agree with the reference comparator. -> ([(sig, what, detail)], stats)"""
    n = len(pool)
    sigbase = {"where": "preorder-" + via, "comparator": kind}
    viol = []
    stats = {}

    def rel(i, j):
        return 0 if i == j else Rel[(i, j)]
    # total preorder <=> rank(i) = #{x : x < i} represents the relation
    # (numeric comparator: over the values exactly representable as doubles, as the statement says)
    dom = [i for i in range(n) if kind != "n" or _exact(pool[i])] if preorder else []
    indom = set(dom)
    rank = {i: sum(1 for x in dom if rel(x, i) < 0) for i in dom}
    done = False
    for di, i in enumerate(dom):
        if done:
            break
        for j in dom[di + 1:]:
            want = (rank[i] > rank[j]) - (rank[i] < rank[j])
            if want != rel(i, j):
                wit = None
                for a_ in dom:          # full search, only on failure
                    for b_ in dom:
                        if b_ == a_ or rel(a_, b_) > 0:
                            continue
                        for c_ in dom:
                            if c_ != a_ and c_ != b_ and rel(b_, c_) <= 0 and rel(a_, c_) > 0:
                                wit = (a_, b_, c_)
                                break
                        if wit:
                            break
                    if wit:
                        break
                w = [pool[x] for x in (wit or (i, j))]
                viol.append((dict(sigbase, kind="transitivity"),
                             f"{via} comparator {kind} is not a total preorder: on {w} the pairwise outcomes are "
                             f"{[rel(wit[0], wit[1]), rel(wit[1], wit[2]), rel(wit[0], wit[2])] if wit else rel(i, j)} "
                             f"(a?b, b?c, a?c; -1 = strictly before, 0 = tied, 1 = strictly after)",
                             dict(argv=argv, values=w)))
                done = True
                break
    stats["triples_checked_by_rank"] = len(dom) * (len(dom) - 1) * (len(dom) - 2)
    for t in tri_out:
        bad = False
        if not all(i in indom for i in t):
            continue
        for x in range(len(t)):
            for y in range(x + 1, len(t)):
                if rel(t[x], t[y]) > 0 and not bad:
                    bad = True
                    viol.append((dict(sigbase, kind="3-sort-embedding"),
                                 f"{via} comparator {kind}: 3-sort output {[pool[i] for i in t]} contradicts the pairwise order of "
                                 f"{pool[t[x]]!r} and {pool[t[y]]!r}", dict(argv=argv, values=[pool[i] for i in t])))
        if bad:
            break
    stats["three_sorts_checked"] = sum(1 for t in tri_out if all(i in indom for i in t))
    cmpf = SM.BASE[kind]
    undec = 0
    seen_cls = set()
    for i in range(n):
        for j in range(i + 1, n):
            c = cmpf(pool[i], pool[j])
            if c is None:
                undec += 1
                continue
            if c != rel(i, j):
                cls = _pair_class(kind, pool[i], pool[j])
                if cls in seen_cls:
                    continue
                seen_cls.add(cls)
                viol.append((dict(sigbase, kind="order", **{"class": cls}),
                             f"{via} comparator {kind}: {pool[i]!r} vs {pool[j]!r}: observed {rel(i, j)}, documented collation says {c}",
                             dict(argv=argv, stdin=f"a={pool[i]},b={pool[j]}\na={pool[j]},b={pool[i]}\n")))
    stats["pairs_undecided_by_model"] = undec
    return viol, stats


PRE_FLAG = {"f": "-f", "c": "-c", "n": "-nf", "t": "-t"}
# natural comparator: direct 2-record sorts only (the statement does not claim it is a preorder; agreement with the Alphanum rule)
NAT_PAIR_POOL = ["", "x1", "x2", "x10", "x02", "a97", "a7334374", "a9223372036854775808", "x2a", "1x", "10x", "v1.10", "v1.9", "z", "Z",
                 "img12.png", "img2.png", "x20", "02x", "a1b2", "a1b10", "-9223372036854775808", "x", "9", "10", "a18446744073709551616"]


def verb_pairs_case(case):
    """Direct (unbatched) 2-record sorts: `sort <flag> k` on [a,b] and on [b,a], for a chunk of pairs.
    Two records are sorted by insertion, so a tie keeps input order and the relation is observable."""
    kind = case["kind"]
    flag = PRE_FLAG[kind]
    res = case_result(_h("vpairs", kind, case["pairs"][0], len(case["pairs"])))
    sigbase = {"where": "preorder-verb", "comparator": kind}
    rels = []
    for (i, j, a, b) in case["pairs"]:
        outs = []
        for x, y in ((a, b), (b, a)):
            r = _run(["sort", flag, "k"], f"k={x},o=1\nk={y},o=2\n", res, sigbase)
            if r is None:
                return res
            o = [dict(_parse_line(l)).get("o") for l in _lines(r.stdout)]
            if sorted(o) != ["1", "2"]:
                add_violation(res, dict(sigbase, kind="permutation"), f"sort {flag} k on [{x!r},{y!r}] printed {r.out[:100]!r}",
                              dict(argv=["sort", flag, "k"], stdin=f"k={x},o=1\nk={y},o=2\n"))
                return res
            outs.append(o[0] == "1")
        fij, fji = outs
        if fij and not fji:
            rel = -1
        elif fji and not fij:
            rel = 1
        else:
            rel = 0
            if not fij:
                bump(res, "tied_pairs_reversing_input_order")
        rels.append((i, j, rel))
    res["rels"] = rels
    res["kind"] = kind
    res["evals"] = 2 * len(rels)
    res["nontrivial_keys"] = [_h("pre", "verb", kind, a, b) for (i, j, a, b), (_, _, rl) in zip(case["pairs"], rels) if rl != 0]
    res["nontrivial"] = bool(res["nontrivial_keys"])
    bump(res, "pairs_checked", 2 * len(rels))
    return res


def verb_triples_case(case):
    kind = case["kind"]
    flag = PRE_FLAG[kind]
    res = case_result(_h("vtriples", kind, case["triples"][0], len(case["triples"])))
    sigbase = {"where": "preorder-verb", "comparator": kind}
    outs = []
    for idx, vals in case["triples"]:
        stdin = "".join(f"k={v},o={o+1}\n" for o, v in enumerate(vals))
        r = _run(["sort", flag, "k"], stdin, res, sigbase)
        if r is None:
            return res
        o = [dict(_parse_line(l)).get("o") for l in _lines(r.stdout)]
        if sorted(o) != ["1", "2", "3"]:
            add_violation(res, dict(sigbase, kind="permutation"), f"sort {flag} k on {vals} printed {r.out[:100]!r}",
                          dict(argv=["sort", flag, "k"], stdin=stdin))
            return res
        outs.append([idx[int(x) - 1] for x in o])
    res["tri_out"] = outs
    res["kind"] = kind
    res["evals"] = len(outs)
    return res


# ==========================================================================================
# doc replay

def doc_case(case):
    res = case_result(_h("doc", case["page"], case["cmd"]))
    p = DR.plan(case["cmd"])
    if p is None:
        res["skipped"] += 1
        return res
    argv, files = p
    r = R.mlr(argv, files=files)
    bump(res, "doc_blocks_replayed")
    if r.verdict == "slow":
        res["inconc"] += 1
        return res
    if r.verdict != "exited":
        add_violation(res, {"where": "doc-replay", "page": case["page"], "kind": "hang", "verdict": r.verdict, "cmd": case["cmd"][:80]},
                      f"{case['page']}: `{case['cmd'][:100]}` did not terminate (verdict {r.verdict})", dict(argv=argv))
        return res
    if r.out != case["expected"]:
        exp, got = case["expected"].split("\n"), r.out.split("\n")
        p_ = 0
        while p_ < len(exp) and p_ < len(got) and exp[p_] == got[p_]:
            p_ += 1
        add_violation(res, {"where": "doc-replay", "page": case["page"], "kind": "doc-mismatch", "cmd": case["cmd"][:80]},
                      f"{case['page']}: `{case['cmd'][:100]}` prints {got[p_][:80] if p_ < len(got) else '<eof>'!r} at line {p_+1}, "
                      f"the documentation records {exp[p_][:80] if p_ < len(exp) else '<eof>'!r}",
                      dict(argv=argv, files={k: v for k, v in files.items() if len(v) < 4000}, expected=case["expected"][:3000], got=r.out[:3000]))
    res["nontrivial"] = "sort" in case["cmd"] or "top" in case["cmd"]
    return res


# ==========================================================================================

def run(chk):
    only = getattr(chk, "only", None)
    q = chk.quick()
    chk.rule = ("verb: random record lists (0-60 records, 1 in 6 with 55-150, a few with 501-1100, thorough also up to 400; key pools of "
                "1-15 (long lists: up to 200) texts mixing ints, floats, hex/binary, clusters of 64-bit ints that collide as doubles, "
                "empties, strings, multi-byte, natural-sort shapes; up to 40% of records missing a key; --records-per-batch "
                "default/1/2/7/50/500; 12% wide records) x 1-3 sort keys over "
                "{-f,-r,-c,-cr,-nf/-n,-nr,-t,-tr/-rt} (+ -b in 10%); thorough adds all 8 + 64 + a 200-sample of 512 flag combinations "
                "x 40 lists. swr/top/dsl: random records / arrays / maps per option set, many per mlr process. preorder: all ordered "
                "pairs + sampled 3-sorts of a value pool through each comparator of the verb and of the DSL. Non-trivial (verb): the "
                "list has >= 2 distinct key texts, >= 1 duplicate key text and the output order differs from the input order; "
                "(dsl/swr) the collection has >= 3 elements (>= 2 distinct texts, >= 1 duplicate for arrays) and the order changed; "
                "(preorder) a pair the comparator orders strictly. Distinct = hash of the generator seed (verb/top) or of the "
                "collection itself (dsl/swr/preorder pairs).")
    if not only or "verb" in only:
        nv = 600 if q else 5000
        blist = [0, 0, 1, 500, 2, 7, 50]       # --records-per-batch: default, one record, several batches of several records
        cases = []
        for i in range(nv):
            nmax = 60
            if i % 6 == 5:
                nmax = 150
            if not q and i % 5 == 0:
                nmax = 400
            if i % 100 == 51:
                nmax = 1100
            b = blist[i % 7] if nmax != 1100 else [0, 50, 500][(i // 100) % 3]
            cases.append({"seed": f"{chk.seed}/{chk.tier}/verb/{i}", "nmax": nmax, "b": b, "commas": i % 8 == 7})
        explicit = [
            # natural key with numerically equal spellings + a second key (C09-F6)
            {"flags": ["-t", "-f"], "fields": ["k1", "k2"],
             "recs": [[("k1", "y01"), ("k2", "e")], [("k1", "y1"), ("k2", "h")], [("k1", "y1"), ("k2", "a")], [("k1", "y01"), ("k2", "d")]]},
            {"flags": ["-tr", "-nr"], "fields": ["k1", "k2"],
             "recs": [[("k1", "x2"), ("k2", "1")], [("k1", "x02"), ("k2", "5")], [("k1", "x02"), ("k2", "3")], [("k1", "x2"), ("k2", "4")],
                      [("k1", "x2"), ("k2", "2")]]},
            # case-folded sort of number spellings with letters (C09-F7)
            {"flags": ["-c"], "fields": ["k1"], "recs": [[("k1", "0xff")], [("k1", "0xFE")], [("k1", "0xfd")], [("k1", "1E3")], [("k1", "1e1")]]},
            {"flags": ["-cr", "-f"], "fields": ["k1", "k2"],
             "recs": [[("k1", "1e3"), ("k2", "b")], [("k1", "1E3"), ("k2", "a")], [("k1", "1e3"), ("k2", "c")], [("k1", "0xFE"), ("k2", "a")],
                      [("k1", "0xff"), ("k2", "a")]]},
            # natural sort with empty values
            {"flags": ["-t"], "fields": ["k1"], "recs": [[("k1", "b")], [("k1", "")], [("k1", "a")], [("k1", "a10")], [("k1", "a9")]]},
            # 64-bit ints on both sides of the 2^53 and 2^63 representation thresholds, several spellings
            {"flags": ["-nf"], "fields": ["k1"],
             "recs": [[("k1", "9223372036854775807")], [("k1", "9223372036854775806")], [("k1", "9007199254740993")],
                      [("k1", "9007199254740992")], [("k1", "0x7fffffffffffffff")], [("k1", "9223372036854775805")],
                      [("k1", "-9223372036854775807")], [("k1", "-9223372036854775808")], [("k1", "9007199254740991")]]},
            {"flags": ["-nr", "-f"], "fields": ["k1", "k2"],
             "recs": [[("k1", "9223372036854775806"), ("k2", "a")], [("k1", "9223372036854775807"), ("k2", "b")],
                      [("k1", "-9223372036854775808"), ("k2", "c")], [("k1", "-9223372036854775807"), ("k2", "d")],
                      [("k1", "9007199254740992"), ("k2", "e")], [("k1", "0x20000000000001"), ("k2", "f")],
                      [("k1", "9223372036854775806"), ("k2", "0")]]},
            # values containing the default OFS whose joined texts coincide (C09-F4)
            {"flags": ["-f", "-f"], "fields": ["k1", "k2"], "commas": True,
             "recs": [[("k1", "a,b"), ("k2", "c")], [("k1", "a"), ("k2", "z")], [("k1", "a"), ("k2", "b,c")], [("k1", "A"), ("k2", "b,c")]]},
        ]
        for xi, ex in enumerate(explicit):
            cases.append({"seed": f"explicit/{xi}", "explicit": ex, "b": 0, "commas": bool(ex.get("commas"))})
        if not q:
            rng = chk.rng("flagcombos")
            combos = [[a] for a in FLAG_KINDS] + [[a, b] for a in FLAG_KINDS for b in FLAG_KINDS]
            three = [[a, b, c] for a in FLAG_KINDS for b in FLAG_KINDS for c in FLAG_KINDS]
            combos += rng.sample(three, 200)
            for ci, combo in enumerate(combos):
                for l in range(40):
                    cases.append({"seed": f"{chk.seed}/{chk.tier}/combo/{ci}/{l}", "flags": combo, "nmax": 60, "b": 0})
        chk.pmap(verb_case, cases, chunksize=8, label="verb sort")
        chk.pmap(json_sort_case, [{"seed": f"{chk.seed}/{chk.tier}/jsonsort/{i}"} for i in range(80 if q else 800)], chunksize=4,
                 label="verb sort on typed (JSON) input")
        chk.pmap(noflags_case, [{"argv": a} for a in (["sort"], ["sort", "-b"], ["sort", "then", "cat"])], label="sort without keys")
    if not only or "swr" in only:
        modes = ["default", "nested-default", "-r", "-n", "-f", "-r-regex", "-n-f", "-n-r-regex", "-r-f-regex"]
        ns = 36 if q else 360
        cases = [{"seed": f"{chk.seed}/{chk.tier}/swr/{i}", "mode": modes[i % len(modes)], "nrec": 30} for i in range(ns)]
        cases.append({"seed": f"{chk.seed}/{chk.tier}/swr/then", "mode": "-r-then", "nrec": 10})
        chk.pmap(swr_case, cases, label="sort-within-records")
    if not only or "top" in only:
        nt = 150 if q else 1500
        chk.pmap(top_case, [{"seed": f"{chk.seed}/{chk.tier}/top/{i}"} for i in range(nt)], chunksize=4, label="top")
    present = set()
    if not only or "dsl" in only:
        r = R.mlr(["help", "list-functions"])
        present = set(r.out.split())
        named = ["sort", "sort_by_key", "sort_by_value", "sort_collection"]
        chk.extra["sorting_functions_present"] = sorted(f for f in present if "sort" in f)
        chk.extra["not_present"] = [f for f in named if f not in present]
        chk.extra["judged_instead"] = {"sort_by_key": "sort(m) / sort(m, flags)", "sort_by_value": 'sort(m, "v" + flags)'}
        cases = []
        reps = 1 if q else 10
        for rep in range(reps):
            for fl in DSL_FLAGSETS:
                for bools in (False, True):
                    cases.append({"form": "sort-array", "flags": fl, "bools": bools})
                cases.append({"form": "sort-map", "flags": fl})
                cases.append({"form": "sort-map", "flags": "v" + fl, "bools": rep % 2 == 1})
                cases.append({"form": "sort-map", "flags": fl + "v"})
            cases.append({"form": "sort-array", "flags": "", "noarg": True, "bools": True})
            cases.append({"form": "sort-map", "flags": "", "noarg": True})
            if "sort_collection" in present:
                cases.append({"form": "sort_collection", "bools": True})
                cases.append({"form": "sort_collection", "bools": False, "onmap": True})
            for f in ARR_FUNCS:
                cases.append({"form": "sort-array-func", "func": f[0]})
            for f in MAP_FUNCS:
                cases.append({"form": "sort-map-func", "func": f[0]})
        for i, c in enumerate(cases):
            c["seed"] = f"{chk.seed}/{chk.tier}/dsl/{i}"
            c["nrec"] = 24 if q else 40
        if "sort" in present:
            chk.pmap(dsl_case, cases, chunksize=2, label="dsl sort functions")
    if not only or "preorder" in only:
        pool = pre_pool(chk)
        rng = chk.rng("triples")
        n = len(pool)
        chk.extra["preorder_pool_size"] = n
        # DSL: every ordered pair + sampled triples, one process per comparator (each record is its own 2-/3-element sort)
        ntri = 2000 if q else 8000
        cases = []
        for via in ("dsl", "dsl-sc"):
            for kind in ("f", "c", "n"):
                if via == "dsl-sc" and kind != "n":
                    continue
                triples = [tuple(rng.sample(range(n), 3)) for _ in range(ntri)]
                cases.append({"pool": pool, "via": via, "kind": kind, "triples": triples,
                              "seed": f"{chk.seed}/{chk.tier}/pre/{via}/{kind}"})
        chk.pmap(preorder_case, cases, label=f"preorder dsl (pool of {n})")
        # verb: direct 2-record sorts for every unordered pair in both orders (a batched sort over thousands of groups is
        # not stable, so ties could not be told from strict order there)
        # (a process per 2-record sort is the expensive part: the verb gets a sub-pool, the DSL the whole pool)
        nv = 26 if q else 90
        keep = [v for v in ("0", "-0", "0.0", "1", "1.0", "0x1", "9007199254740992", "9007199254740992.0", "9007199254740994",
                            "9007199254740993", "9223372036854775807", "9223372036854775806", "0x7fffffffffffffff",
                            "", "abc", "ABC", "Abc", "é", "É", "_", "a", " ") if v in pool]
        rest = [v for v in pool if v not in keep]
        chk.rng("verbpool").shuffle(rest)
        vpool = keep + rest[:max(0, nv - len(keep))]
        pool = vpool
        n = len(pool)
        chk.extra["preorder_verb_pool_size"] = n
        allpairs = [(i, j, pool[i], pool[j]) for i in range(n) for j in range(i + 1, n)]
        per = 15 if q else 40
        kinds = ("f", "c", "n")
        cases = [{"kind": kind, "pairs": allpairs[x:x + per]} for kind in kinds for x in range(0, len(allpairs), per)]
        results = chk.pmap(verb_pairs_case, cases, label="preorder verb pairs (direct 2-record sorts)")
        rels = {kind: {} for kind in kinds}
        for r in results:
            for i, j, rl in r.get("rels", []):
                rels[r["kind"]][(i, j)] = rl
                rels[r["kind"]][(j, i)] = -rl
        # natural comparator through the same direct 2-record sorts: pairwise agreement with the documented rule only
        tp = NAT_PAIR_POOL[:16] if q else NAT_PAIR_POOL
        tpairs = [(i, j, tp[i], tp[j]) for i in range(len(tp)) for j in range(i + 1, len(tp))]
        tres_ = chk.pmap(verb_pairs_case, [{"kind": "t", "pairs": tpairs[x:x + per]} for x in range(0, len(tpairs), per)],
                         label="natural comparator pairs (direct 2-record sorts)")
        trel = {}
        for r in tres_:
            for i, j, rl in r.get("rels", []):
                trel[(i, j)] = rl
                trel[(j, i)] = -rl
        if len(trel) == len(tp) * (len(tp) - 1):
            viol, stats = analyse_relation(tp, trel, [], "verb", "t", ["sort", "-t", "k"], preorder=False)
            chk.stats["natural_pairs_checked"] = len(tpairs)
            for sig, what, detail in viol:
                chk.add_violation(sig, what, detail)
        ntv = 150 if q else 2000
        tl = []
        for _ in range(ntv):
            idx = tuple(rng.sample(range(n), 3))
            tl.append((idx, [pool[i] for i in idx]))
        tcases = [{"kind": kind, "triples": tl[x:x + 25]} for kind in kinds for x in range(0, len(tl), 25)]
        tres = chk.pmap(verb_triples_case, tcases, label="preorder verb 3-sorts")
        for kind in kinds:
            Rel = rels[kind]
            if len(Rel) != n * (n - 1):
                continue        # some run was inconclusive or failed; already accounted
            tri_out = [t for r in tres if r.get("kind") == kind for t in r.get("tri_out", [])]
            viol, stats = analyse_relation(pool, Rel, tri_out, "verb", kind, ["sort", {"f": "-f", "c": "-c", "n": "-nf"}[kind], "k"])
            for k_, v_ in stats.items():
                chk.stats[k_] = chk.stats.get(k_, 0) + v_
            for sig, what, detail in viol:
                chk.add_violation(sig, what, detail)
    if not only or "doc" in only:
        cases = []
        for page, section in (("sorting.md", None), ("reference-verbs.md", "sort"), ("reference-verbs.md", "sort-within-records"),
                              ("reference-verbs.md", "top"), ("reference-main-null-data.md", None)):
            for cmd, exp in DR.blocks(page, section):
                if page == "reference-main-null-data.md" and "sort" not in cmd:
                    continue
                cases.append({"page": page + ("#" + section if section else ""), "cmd": cmd, "expected": exp})
        chk.pmap(doc_case, cases, label="doc replay")
    flags = {k[5:]: v for k, v in chk.stats.items() if k.startswith("flag:")}
    nkeys = {k[6:]: v for k, v in chk.stats.items() if k.startswith("nkeys:")}
    forms = {k[9:]: v for k, v in chk.stats.items() if k.startswith("dsl_form:")}
    swrm = {k[9:]: v for k, v in chk.stats.items() if k.startswith("swr_mode:")}
    for k in [k for k in chk.stats if k.split(":")[0] in ("flag", "nkeys", "dsl_form", "swr_mode")]:
        chk.stats.pop(k)
    chk.extra["verb_flag_uses"] = flags
    chk.extra["verb_sorts_by_number_of_keys"] = nkeys
    chk.extra["dsl_processes_per_form"] = forms
    chk.extra["swr_processes_per_mode"] = swrm
    chk.extra["dsl_flag_strings"] = DSL_FLAGSETS
    chk.extra["comparator_functions"] = [f[0] for f in ARR_FUNCS] + [f[0] for f in MAP_FUNCS]
    chk.assumptions = [
        "numbers are the spellings reference-main-arithmetic.md names (decimal ints without leading zeros, 0x/0b/0o ints, decimal floats "
        "with point and/or exponent) within int64; Inf/NaN spellings, leading zeros, digit separators are not generated (C06's subject); "
        "NaN is excluded by the statement",
        "numeric collation: numbers by value < booleans < empty < strings, strings among themselves lexically (`mlr help function "
        "sort`: 'numbers first numerically and then strings lexically'; statement: the verb, the functions and top obey the same "
        "collation); booleans among themselves and empties among themselves are tied; -nr / 'r' is the exact reverse ('nulls sort "
        "first')",
        "numerically equal but textually different keys (1, 1.0, 0x1) are tied: any relative order is accepted (statement: only "
        "identical key texts keep input order); same for case-fold-equal and natural-equal (a02 / a2) texts",
        "two ints are ordered by their 64-bit integer value however large (reference-main-arithmetic.md: ints are 64-bit and stay "
        "ints); an int beyond 2^53 against a FLOAT is undecided where exact and double comparison differ (statement: 'values exactly "
        "representable as doubles'), and a list holding two different ints with the same double image TOGETHER with a float equal to "
        "that image is not judged for order (skipped; the generators do not produce it): there the collation need not be transitive",
        "natural order: digit runs compare numerically whatever their length; lists holding a digit run beyond int64 are not judged "
        "for order (the listed defect C09-F8 makes the collation intransitive there; it is reported by the direct 2-record probes)",
        "JSON input: a quoted value is a string whatever it looks like, a bare number is a number (new-in-miller-6.md); bare "
        "true/false in data are not generated (their type is not documented)",
        "the preorder laws (antisymmetry, transitivity, 3-sort embedding) of the numeric comparator are required over the pool values "
        "exactly representable as doubles; the other ints of the pool take part in the pairwise agreement check only; the natural "
        "comparator (not claimed to be a preorder by the statement) gets the pairwise agreement check only",
        "a run that ends with a cpu / output-cap / deadlock verdict on these small finite inputs is a violation (kind hang); only the "
        "wall-clock watchdog ('slow') is inconclusive",
        "case-folded order is decided only where folding to lower and to upper case agree (they differ only for [ \\ ] ^ _ ` vs "
        "letters) and only for ASCII plus a curated set of one-to-one non-ASCII letters",
        "natural order = Alphanum algorithm of the facette/natsort README: maximal digit runs compare numerically (equal values tie), "
        "other chunks lexically, a chunk-prefix sorts first; the empty string has no chunks and sorts first",
        "lexical order = byte order of the UTF-8 text (Miller has no locale collation)",
        "sort -b: the present sort fields are moved to the front (any order among them), the other fields keep their order; applies to "
        "records lacking some keys too ('as in reorder')",
        "sort-within-records -f: only relative orders are required (selected keys ascending, other keys in record order); -r is given "
        "as the last argument because a following word is taken as its regex",
        "top -f x,y: each value field is judged on its own column; every record carries all value fields in those cases; "
        "top: the n selected values are a dominating multiset in collation order, ties at the cut-off may be resolved either way; "
        "without -a rows past the group size are padding with empty values (accepted present or absent)",
        "DSL comparator functions are judged only on homogeneous arrays (all numbers or all non-empty strings / small ints), so the "
        "cross-type behaviour of <=> (C08/C14) is not assumed; for them only permutation + no inversion under the Python mirror",
        "DSL flag strings on arrays containing maps/arrays are outside the documented domain (sorting.md) and are not generated",
    ]
