"""C17 - failures are never silent.  fault_enumeration: a grid of fault kinds x positions x
schedules; oracle per fault run: the process terminates, exit status != 0, and stderr carries an
`mlr` diagnostic (with the offending path for faults at open time).  Every fault cell has a
fault-free control run that must exit 0 with complete output ("exit 0 => everything consumed and
flushed")."""
import bz2
import gzip
import hashlib
import json
import os
import random
import shutil
import zlib

from .. import gen
from .. import run as R
from ..harness import add_violation, bump, case_result

BINARIES = ("mlr-verif", "mlr-race")
LEVEL = "fault_enumeration"

ORDER_SITES = ["chain.err.post", "chain.eos.forward", "reader.err.post", "reader.eos.send",
               "writer.err.post", "writer.done", "stream.select.done", "stream.drain", "chain.send", "writer.recv", "stream.loop"]


def _h(*xs):
    return hashlib.sha1(repr(xs).encode()).hexdigest()[:16]


def schedule_variants(rng, tier):
    vs = [("default", [], {}), ("rpb=1", ["--records-per-batch", "1"], {}), ("rpb=2", ["--records-per-batch", "2"], {}),
          ("rpb=500", ["--records-per-batch", "500"], {}),
          ("GOMAXPROCS=1", ["--records-per-batch", "2"], {"GOMAXPROCS": "1"})]
    for s in range(3):
        vs.append((f"sched{s}", ["--records-per-batch", str(rng.choice([1, 2, 3]))],
                   {"MLR_VERIF_SCHED": f"{rng.randint(1, 10**6)}:1000"}))
    for site in ORDER_SITES:
        ms = 1 if site in ("chain.send", "writer.recv") else 30     # per-batch sites: keep the total small
        vs.append((f"delay:{site}", ["--records-per-batch", str(rng.choice([1, 2]))], {"MLR_VERIF_DELAY": f"{site}={ms}"}))
    if tier == "quick":
        fixed = vs[:2]
        rest = vs[2:]
        rng.shuffle(rest)
        return fixed + rest[:2]
    return vs


def has_diag(stderr, need=None):
    txt = stderr.decode("utf-8", "replace")
    ok = False
    for line in txt.splitlines():
        l = line.strip()
        if l.startswith("mlr:") or l.startswith("mlr ") or "mlr:" in l:
            if l.lower().startswith("usage:"):
                continue
            ok = True
            break
    if need and need not in txt:
        return False, txt
    return ok, txt


def judge_fault(res, r, sc, vname, detail):
    """The oracle for one fault run."""
    base = {"fault": sc["kind"], "sub": sc["sub"]}
    what0 = f"[{sc['kind']}/{sc['sub']} @{sc.get('pos', '-')} {vname}]"
    if r.verdict == "deadlock":
        add_violation(res, dict(base, kind="deadlock", blocked="|".join(r.hang_sig or [])),
                      f"{what0} never terminates: deadlock, goroutines parked at {r.hang_sig}",
                      dict(detail, dump=(r.dump or "")[-5000:]))
        return
    if r.verdict in ("cpu", "output-cap"):
        add_violation(res, dict(base, kind="runaway", how=r.verdict),
                      f"{what0} never terminates: {r.verdict} budget exhausted (stdout {len(r.stdout)} bytes)", detail)
        return
    if r.verdict == "slow":
        res["inconc"] += 1
        return
    if r.crashed():
        add_violation(res, dict(base, kind="crash"), f"{what0} Go crash trace instead of a diagnostic",
                      dict(detail, stderr=r.err[-2500:]))
        return
    if r.rc == 0:
        add_violation(res, dict(base, kind="silent-exit-0"),
                      f"{what0} exit status 0 although processing could not complete; stderr={r.err[:200]!r}",
                      dict(detail, stdout_head=r.stdout[:300], stderr=r.err[:1000]))
        return
    if sc.get("sigpipe_ok") and r.signal is not None:
        bump(res, "fault_runs_ok")
        return
    ok, txt = has_diag(r.stderr, sc.get("need"))
    if not ok:
        add_violation(res, dict(base, kind="no-diagnostic"),
                      f"{what0} exits {r.rc if r.signal is None else 'sig' + str(r.signal)} but stderr does not name the problem"
                      + (f" (expected to mention {sc.get('need')!r})" if sc.get("need") else "") + f": {txt[:200]!r}",
                      dict(detail, stderr=txt[:1500]))
        return
    bump(res, "fault_runs_ok")


def run_scenario(case):
    sc = case["sc"]
    rng = random.Random(case["seed"])
    res = case_result(_h(sc["kind"], sc["sub"], sc.get("pos"), case["seed"]), nontrivial=sc.get("nontrivial", True))
    variants = schedule_variants(rng, case["tier"])
    if sc.get("no_variants"):
        variants = variants[:1]
    if sc.get("simultaneous"):
        # error and done-writing ready at the same time: hold the main goroutine before its select (stream.loop)
        # so that both channels are filled when it looks; select then picks at random -> repeat
        variants = [(f"hold-main#{k}", ["--records-per-batch", str([1, 2, 500][k % 3])], {"MLR_VERIF_DELAY": "stream.loop=40"}) for k in range(8)]
        variants += [(f"GOMAXPROCS=1#{k}", ["--records-per-batch", "500"], {"GOMAXPROCS": "1"}) for k in range(4)]
    sigs = set()
    for vname, vflags, venv in variants:
        for mode in ("fault", "control"):
            spec = sc if mode == "fault" else sc.get("control")
            if spec is None:
                continue
            argv = vflags + spec["argv"]
            env = dict(venv)
            env.update(spec.get("env", {}))
            kw = {}
            if spec.get("stdout") == "devfull":
                kw["stdout_to"] = "/dev/full"
            wrapper = None
            cwd = R.new_scratch()
            stlog = None
            if spec.get("strace"):
                st = spec["strace"]
                stlog = cwd + ".strace"
                wrapper = ["strace", "-f", "-o", stlog, "-P", st["path"], "-e", f"trace={st['syscall']}",
                           "-e", f"inject={st['syscall']}:error={st['error']}:when={st['when']}"]
                if st["path"] not in (spec.get("files") or {}):
                    # -P resolves the path when strace starts: the target must exist (same inode after O_TRUNC)
                    open(os.path.join(cwd, st["path"]), "wb").close()
            try:
                for d in spec.get("mkdirs", []):
                    os.makedirs(os.path.join(cwd, d), exist_ok=True)
                for ln, target in (spec.get("symlinks") or {}).items():
                    os.symlink(target, os.path.join(cwd, ln))
                if spec.get("stdout") == "closedpipe":
                    rfd, wfd = os.pipe()
                    os.close(rfd)
                    kw["stdout_to"] = wfd
                try:
                    r = R.mlr(argv, stdin=spec.get("stdin", b""), files=spec.get("files"), cwd=cwd, env=env,
                              trace=True, wrapper=wrapper, watchdog=60 if case["tier"] == "quick" else 120,
                              nofile=spec.get("nofile", 1024), binary=("mlr-race" if case.get("race") and not wrapper else "mlr-verif"),
                              cpu_s=(90 if case.get("race") else 20), **kw)
                finally:
                    if spec.get("stdout") == "closedpipe":
                        os.close(wfd)
                after = R.read_files(cwd)
                injected = True
                if stlog:
                    try:
                        injected = b"INJECTED" in open(stlog, "rb").read()
                    except OSError:
                        injected = False
            finally:
                shutil.rmtree(cwd, ignore_errors=True)
                if stlog and os.path.exists(stlog):
                    os.unlink(stlog)
            bump(res, "runs")
            if mode == "fault" and not injected:
                # the injection never fired (fewer calls than `when`): no fault happened, nothing to judge
                res["skipped"] += 1
                bump(res, "injection_not_reached")
                continue
            if r.trace:
                sigs.add(hashlib.sha1("\n".join(l.split(" ", 1)[-1] for l in r.trace).encode()).hexdigest()[:12])
                for l in r.trace:
                    p = l.split(" ")
                    if len(p) >= 2 and p[1] in ORDER_SITES:
                        bump(res, "site:" + p[1])
            detail = {"argv": argv, "stdin": spec.get("stdin", b"")[:20000], "env": env, "variant": vname,
                      "files": {k: v[:20000] for k, v in (spec.get("files") or {}).items()},
                      "stdout_kind": spec.get("stdout", "file"), "strace": spec.get("strace")}
            if r.verdict == "slow":
                res.setdefault("slow_cases", []).append([sc["kind"], sc["sub"], str(sc.get("pos")), vname, mode, round(r.wall, 1)])
            if case.get("race") and r.race_reports:
                for rep in r.race_reports:
                    for blk in rep.split("WARNING: DATA RACE")[1:]:
                        if "github.com/johnkerl/miller" in blk:
                            bump(res, "race_reports")
                            add_violation(res, {"fault": sc["kind"], "sub": sc["sub"], "kind": "data-race-on-error-path"},
                                          f"[{sc['kind']}/{sc['sub']} {vname}] data race reported on the error path", dict(detail, report=blk[:4000]))
            if case.get("race"):
                bump(res, "race_detector_runs")
            if mode == "fault":
                bump(res, "fault_runs")
                judge_fault(res, r, sc, vname, detail)
            else:
                bump(res, "control_runs")
                base = {"fault": sc["kind"], "sub": sc["sub"]}
                if r.verdict == "deadlock":
                    add_violation(res, dict(base, kind="control-deadlock", blocked="|".join(r.hang_sig or [])),
                                  f"fault-free control run deadlocks: {argv}", dict(detail, dump=(r.dump or "")[-4000:]))
                elif r.verdict == "slow":
                    res["inconc"] += 1
                elif r.rc != 0 or r.verdict != "exited":
                    add_violation(res, dict(base, kind="control-fails"),
                                  f"fault-free control run fails rc={r.rc} sig={r.signal} verdict={r.verdict}: {r.err[:200]!r}",
                                  detail)
                else:
                    exp = spec.get("expect_ids")
                    if exp is not None:
                        src = r.out if spec.get("expect_in") is None else after.get(spec["expect_in"], b"").decode("utf-8", "replace")
                        got = [dict(rec).get("id") for rec in gen.parse_dkvp(src)]
                        if got != exp:
                            add_violation(res, dict(base, kind="control-incomplete"),
                                          f"control run exits 0 but output has {len(got)} of {len(exp)} records", detail)
                        else:
                            bump(res, "control_outputs_complete")
    res["stats"]["interleaving_signatures"] = list(sigs)
    res["sample"] = {"kind": sc["kind"], "sub": sc["sub"], "pos": sc.get("pos"), "argv": sc["argv"][:14],
                     "variants": [v[0] for v in variants]}
    return res


# ------------------------------------------------------------------------------------------
# scenario builders

def _recs(n, seed=0):
    rng = random.Random(f"c17recs{seed}")
    return gen.records(rng, n, ragged=0)


def _ids(recs):
    return [dict(r)["id"] for r in recs]


READER_FMTS = {
    # fmt: (input flags, writer to produce a valid document from records)
    "dkvp": ["--idkvp"], "nidx": ["--inidx", "--ifs", " "], "csv": ["--icsv"], "csvlite": ["--icsvlite"],
    "tsv": ["--itsv"], "json": ["--ijson"], "jsonl": ["--ijsonl"], "xtab": ["--ixtab"], "pprint": ["--ipprint"],
    "markdown": ["--imd"], "yaml": ["--iyaml"], "dkvpx": ["--dkvpx"],
}


def render(fmt, recs):
    if fmt in ("dkvp", "dkvpx"):
        return gen.dkvp(recs)
    if fmt == "nidx":
        return "".join(" ".join(v or "_" for _, v in r) + "\n" for r in recs)
    if fmt in ("csv", "csvlite"):
        return gen.csv_simple(recs)
    if fmt == "tsv":
        return gen.csv_simple(recs).replace(",", "\t")
    if fmt == "json":
        return gen.json_text(recs)
    if fmt == "jsonl":
        return "".join(json.dumps(dict(r)) + "\n" for r in recs)
    if fmt == "xtab":
        return "\n".join("".join(f"{k} {v or '_'}\n" for k, v in r) for r in recs)
    if fmt == "pprint":
        return " ".join(k for k, _ in recs[0]) + "\n" + "".join(" ".join(v or "-" for _, v in r) + "\n" for r in recs)
    if fmt == "markdown":
        hdr = "| " + " | ".join(k for k, _ in recs[0]) + " |\n| " + " | ".join("---" for _ in recs[0]) + " |\n"
        return hdr + "".join("| " + " | ".join(v or "-" for _, v in r) + " |\n" for r in recs)
    if fmt == "yaml":
        return "".join("- " + "\n  ".join(f"{k}: {json.dumps(v)}" for k, v in r) + "\n" for r in recs)
    raise ValueError(fmt)


def scenarios(chk):
    rng = chk.rng("scenarios")
    q = chk.quick()
    S = []
    recs = _recs(40)
    small = gen.dkvp(recs)
    big_recs = _recs(1100, 1)
    big = gen.dkvp(big_recs)

    # ---- A. missing input ------------------------------------------------------------
    for nfiles, pos in [(1, 0), (2, 0), (2, 1), (3, 1), (3, 2)]:
        names = [f"in{i}.dkvp" for i in range(nfiles)]
        files = {n: small for i, n in enumerate(names) if i != pos}
        names_f = list(names)
        names_f[pos] = "MISSING-FILE.dkvp"
        S.append({"kind": "missing-input", "sub": "positional", "pos": f"{pos+1}/{nfiles}", "argv": ["cat"] + names_f,
                  "files": files, "need": "MISSING-FILE.dkvp", "nontrivial": pos > 0,
                  "control": {"argv": ["cat"] + [n for n in names if n in files], "files": files} if files else None})
    for fmt in ("csv", "json", "tsv", "xtab", "nidx", "pprint", "yaml"):
        S.append({"kind": "missing-input", "sub": "reader-" + fmt, "pos": "2/2",
                  "argv": READER_FMTS[fmt] + ["--ojson", "cat", "ok." + fmt, "MISSING-FILE"],
                  "files": {"ok." + fmt: render(fmt, recs)}, "need": "MISSING-FILE",
                  "control": {"argv": READER_FMTS[fmt] + ["--ojson", "cat", "ok." + fmt], "files": {"ok." + fmt: render(fmt, recs)}}})
    S.append({"kind": "missing-input", "sub": "join-left", "argv": ["join", "-j", "a", "-f", "MISSING-LEFT", "in.dkvp"],
              "files": {"in.dkvp": small}, "need": "MISSING-LEFT",
              "control": {"argv": ["join", "-j", "id", "-f", "in.dkvp", "in.dkvp"], "files": {"in.dkvp": small}}})
    S.append({"kind": "missing-input", "sub": "put-f", "argv": ["put", "-f", "MISSING.mlr", "in.dkvp"],
              "files": {"in.dkvp": small}, "need": "MISSING.mlr", "no_variants": True})
    S.append({"kind": "missing-input", "sub": "template-t", "argv": ["template", "-t", "MISSING.tpl", "in.dkvp"],
              "files": {"in.dkvp": small}, "need": "MISSING.tpl", "no_variants": True})
    S.append({"kind": "missing-input", "sub": "from", "argv": ["--from", "MISSING-FILE", "cat"], "files": {}, "need": "MISSING-FILE"})
    S.append({"kind": "missing-input", "sub": "mfrom", "argv": ["--mfrom", "in.dkvp", "MISSING-FILE", "--", "cat"],
              "files": {"in.dkvp": small}, "need": "MISSING-FILE"})

    # ---- B. unreadable input ---------------------------------------------------------
    for fmt in READER_FMTS:
        for pos in ((0, 1) if not q else (rng.choice([0, 1]),)):
            names = ["ok." + fmt, "ok2." + fmt]
            files = {n: render(fmt, recs) for n in names}
            nm = list(names)
            nm[pos] = "a-directory"
            del files[names[pos]]
            S.append({"kind": "unreadable-input", "sub": "directory-" + fmt, "pos": f"{pos+1}/2",
                      "argv": READER_FMTS[fmt] + ["--ojson", "cat"] + nm, "files": files, "mkdirs": ["a-directory"],
                      "need": "a-directory", "nontrivial": pos > 0})
    for fmt in ("dkvp", "csv", "json", "tsv", "xtab", "nidx") if not q else ("dkvp", "csv", "json"):
        data = render(fmt, _recs(3000, 2))   # > 64 KiB => several read(2) calls
        for when in ((1, 2, 3) if not q else (2,)):
            S.append({"kind": "unreadable-input", "sub": "EIO-" + fmt, "pos": f"read#{when}",
                      "argv": READER_FMTS[fmt] + ["--ojson", "cat", "data." + fmt], "files": {"data." + fmt: data},
                      "strace": {"path": "data." + fmt, "syscall": "read", "error": "EIO", "when": when},
                      "control": {"argv": READER_FMTS[fmt] + ["--ojson", "cat", "data." + fmt], "files": {"data." + fmt: data}},
                      "nontrivial": when > 1})

    # ---- B2. prepipe command that fails (input could not be obtained) ------------------
    for sub, flag, cmd in [("exit-nonzero-no-output", "--prepipe", "false"), ("command-not-found", "--prepipe", "no-such-command-xyz"),
                           ("partial-output-then-exit-3", "--prepipe", 'sh -c "head -n 1; exit 3"'), ("prepipex-exit-nonzero", "--prepipex", "false")]:
        S.append({"kind": "unreadable-input", "sub": "prepipe-" + sub, "argv": [flag, cmd, "cat", "in.dkvp"], "files": {"in.dkvp": small},
                  "env": {"MLR_NO_SHELL": ""}, "no_variants": True,
                  "control": {"argv": [flag, "cat" if flag == "--prepipex" else "cat", "cat", "in.dkvp"], "files": {"in.dkvp": small}, "expect_ids": _ids(recs)}})

    # ---- C. corrupt compressed input -------------------------------------------------
    raw = gen.dkvp(_recs(6000, 3)).encode()
    comp = {"gz": (gzip.compress(raw), "--gzin"), "bz2": (bz2.compress(raw), "--bz2in"), "z": (zlib.compress(raw), "--zin")}
    for ext, (blob, flag) in comp.items():
        damage = {
            "trunc25": blob[: len(blob) // 4], "trunc50": blob[: len(blob) // 2], "trunc-last": blob[:-1],
            "flip": blob[: len(blob) // 2] + bytes([blob[len(blob) // 2] ^ 0x55]) + blob[len(blob) // 2 + 1:],
        }
        for dname, dblob in damage.items():
            for how in ("ext", "flag"):
                if q and rng.random() < 0.5:
                    continue
                fname = "data." + ext if how == "ext" else "data.bin"
                S.append({"kind": "corrupt-compressed", "sub": f"{ext}-{dname}-by-{how}",
                          "argv": ([flag] if how == "flag" else []) + ["cat", fname], "files": {fname: dblob},
                          "control": {"argv": ([flag] if how == "flag" else []) + ["cat", fname], "files": {fname: blob},
                                      "expect_ids": _ids(_recs(6000, 3))}})
    S.append({"kind": "corrupt-compressed", "sub": "gz-wrong-magic-by-flag", "argv": ["--gzin", "cat", "data.bin"],
              "files": {"data.bin": b"this is not gzip data\n" * 10}})

    # ---- D. malformed for the format -------------------------------------------------
    n = 1100
    positions = [1, 2, 499, 500, 501, 1000, n - 1, n]
    if q:
        positions = [1, 2, 500, 501, n]
    mrecs = big_recs

    def csv_lines():
        return gen.csv_simple(mrecs).split("\n")[:-1]

    for r_ in positions:
        L = csv_lines()
        L[r_] = L[r_] + ',"unbalanced'
        S.append({"kind": "malformed", "sub": "csv-unbalanced-quote", "pos": r_, "argv": ["--icsv", "--ojson", "cat", "in.csv"],
                  "files": {"in.csv": "\n".join(L) + "\n"}, "nontrivial": r_ > 1})
        L = csv_lines()
        L[r_] = L[r_] + ",extra"
        S.append({"kind": "malformed", "sub": "csv-too-long", "pos": r_, "argv": ["--icsv", "--ojson", "cat", "in.csv"],
                  "files": {"in.csv": "\n".join(L) + "\n"}, "nontrivial": r_ > 1})
        L = csv_lines()
        L[r_] = L[r_].rsplit(",", 1)[0]
        S.append({"kind": "malformed", "sub": "csv-too-short", "pos": r_, "argv": ["--icsv", "--ojson", "cat", "in.csv"],
                  "files": {"in.csv": "\n".join(L) + "\n"}, "nontrivial": r_ > 1})
        L = [l.replace(",", "\t") for l in csv_lines()]
        L[r_] = L[r_] + "\textra"
        S.append({"kind": "malformed", "sub": "tsv-length", "pos": r_, "argv": ["--itsv", "--ojson", "cat", "in.tsv"],
                  "files": {"in.tsv": "\n".join(L) + "\n"}, "nontrivial": r_ > 1})
        L = [json.dumps(dict(r)) for r in mrecs]
        L[r_ - 1] = L[r_ - 1][:-1] + ', "k": }'
        S.append({"kind": "malformed", "sub": "jsonl-bad-line", "pos": r_, "argv": ["--ijsonl", "--ojson", "cat", "in.jsonl"],
                  "files": {"in.jsonl": "\n".join(L) + "\n"}, "nontrivial": r_ > 1})
        L = csv_lines()
        L[r_] = L[r_] + ",extra"
        S.append({"kind": "malformed", "sub": "csvlite-length", "pos": r_, "argv": ["--icsvlite", "--ojson", "cat", "in.csv"],
                  "files": {"in.csv": "\n".join(L) + "\n"}, "nontrivial": r_ > 1})
    S.append({"kind": "malformed", "sub": "csv-second-file", "pos": "file2", "argv": ["--icsv", "--ojson", "cat", "ok.csv", "bad.csv"],
              "files": {"ok.csv": gen.csv_simple(recs), "bad.csv": "a,b\n1,2,3\n"}})
    doc = gen.json_text(_recs(6, 4))
    cuts = sorted(set([1, 2, len(doc) // 3, len(doc) // 2, len(doc) - 3, len(doc) - 2] + [i for i, c in enumerate(doc) if c in '{}":,'][:: (7 if q else 2)]))
    for c in cuts:
        t = doc[:c]
        if not t.strip() or t.strip() == "[":
            continue
        S.append({"kind": "malformed", "sub": "json-truncated", "pos": c, "argv": ["--ijson", "--ojson", "cat", "in.json"],
                  "files": {"in.json": t}, "nontrivial": c > 10})
    for sub, text in [("json-trailing-garbage", doc + "xyz"), ("json-top-level-scalar", "3\n"), ("json-unquoted-key", '{a: 1}\n'),
                      ("json-unbalanced", '{"a": [1, 2}\n'), ("yaml-bad-indent", "a: 1\n  b: 2\n - c\n"),
                      ("json-string-top", '"abc"\n')]:
        S.append({"kind": "malformed", "sub": sub, "argv": (["--iyaml"] if sub.startswith("yaml") else ["--ijson"]) + ["--ojson", "cat", "in.x"],
                  "files": {"in.x": text}})
    S.append({"kind": "malformed", "sub": "pprint-barred-broken", "argv": ["--ipprint", "--barred-input", "--ojson", "cat", "in.x"],
              "files": {"in.x": "+---+---+\n| a | b |\n+---+---+\n| 1 | 2 | 3 |\n+---+\n"}})

    # ---- E. DSL run-time failure -----------------------------------------------------
    fatal = [
        ("asserting", 'NR == %d { $z = asserting_int("x") }'),
        ("typed-local", 'NR == %d { int q = "abc" }'),
        ("return-type", 'func f(str s): int { return s } NR == %d { $z = f("a") }'),
        ("subr-param", 'subr s(str x) { print x } NR == %d { call s(1) }'),
        ("hof-arity", 'NR == %d { $z = apply([1], func(a,b) {return 1}) }'),
        ("srec-nonmap", 'NR == %d { $* = 3 }'),
        ("nonbool-if", 'NR == %d { if ("abc") {$y = 1} }'),
        ("nonbool-while", 'NR == %d { while ("x") {} }'),
    ]
    for name, tmpl in fatal:
        for r_ in (positions if not q else [rng.choice(positions), 501]):
            S.append({"kind": "dsl-failure", "sub": name + "-put", "pos": r_, "argv": ["put", tmpl % r_, "in.dkvp"],
                      "files": {"in.dkvp": big}, "nontrivial": r_ > 1,
                      "control": {"argv": ["put", tmpl % (n + 5), "in.dkvp"], "files": {"in.dkvp": big}, "expect_ids": _ids(big_recs)}})
    for r_ in (positions if not q else [2, 501]):
        S.append({"kind": "dsl-failure", "sub": "typed-local-put-q", "pos": r_,
                  "argv": ["put", "-q", 'NR == %d { int q = "abc" } emit mapsum($*, {})' % r_, "in.dkvp"], "files": {"in.dkvp": big}})
        S.append({"kind": "dsl-failure", "sub": "nonbool-filter", "pos": r_,
                  "argv": ["filter", 'NR == %d ? "abc" : true' % r_, "in.dkvp"], "files": {"in.dkvp": big},
                  "control": {"argv": ["filter", 'NR == %d ? "abc" : true' % (n + 5), "in.dkvp"], "files": {"in.dkvp": big},
                              "expect_ids": _ids(big_recs)}})
    S.append({"kind": "dsl-failure", "sub": "begin-block", "pos": "begin", "argv": ["put", 'begin { int q = "abc" }', "in.dkvp"], "files": {"in.dkvp": big}})
    S.append({"kind": "dsl-failure", "sub": "end-block", "pos": "end", "argv": ["put", 'end { int q = "abc" }', "in.dkvp"], "files": {"in.dkvp": big}})
    S.append({"kind": "dsl-failure", "sub": "end-block-asserting", "pos": "end", "argv": ["put", 'end { @z = asserting_int("x") }', "in.dkvp"], "files": {"in.dkvp": big}})
    S.append({"kind": "dsl-failure", "sub": "end-block-after-sort", "pos": "end", "argv": ["sort", "-f", "a", "then", "put", 'end { int q = "abc" }', "in.dkvp"], "files": {"in.dkvp": big}})
    neighbours_up = [["cat"], ["sort", "-f", "a"], ["tac"], ["tee", "tee.out"], ["head", "-n", "600"], ["put", "$k = 1"]]
    neighbours_down = [["cat"], ["sort", "-nr", "i"], ["tac"], ["head", "-n", "2"], ["tee", "tee2.out"], ["put", "-q", "tee > $a.\".out\", $*"]]
    fail_verb = ["put", 'NR == 501 { int q = "abc" }']
    fail_verb2 = ["put", '$id == "r501" { $* = 3 }']
    # with an early-exit verb downstream the reader may legitimately stop before record 501 is ever processed:
    # there the failing record is the first one
    fail_verb_first = ["put", '$id == "r1" { $* = 3 }']
    for up in [None] + neighbours_up:
        for down in [None] + neighbours_down:
            if q and rng.random() < 0.75:
                continue
            fv = fail_verb if up is None else fail_verb2
            if up is not None and up[0] == "head":
                fv = ["put", '$id == "r600" { $* = 3 }']     # the last record head -n 600 lets through
            if down is not None and down[0] == "head":
                fv = fail_verb_first
            chain = ([up] if up else []) + [fv] + ([down] if down else [])
            argv = []
            for i, v in enumerate(chain):
                if i:
                    argv.append("then")
                argv += v
            S.append({"kind": "dsl-failure", "sub": "chain-position", "pos": f"{(up or ['-'])[0]}>{'FAIL'}>{(down or ['-'])[0]}",
                      "argv": argv + ["in.dkvp"], "files": {"in.dkvp": big}})

    # ---- E2. error and end-of-stream simultaneously ready at the main select -------------
    tiny = gen.dkvp(_recs(3))
    for name, argv in [("writer-error-last-record", ["--ocsv", "put", '$id == "r3" { $* = mapsum({"zz": 1}, $*) }', "in.dkvp"]),
                       ("dsl-error-last-record", ["put", '$id == "r3" { $* = 3 }', "in.dkvp"]),
                       ("dsl-error-end-block", ["put", 'end { int q = "abc" }', "in.dkvp"]),
                       ("tee-close-error", ["--ocsv", "put", "-q", 'tee > "o.csv", $id == "r3" ? mapsum({"zz": 1}, $*) : $*', "in.dkvp"])]:
        S.append({"kind": "dsl-failure" if "dsl" in name else "inexpressible-output", "sub": "simultaneous-" + name, "pos": "last",
                  "argv": argv, "files": {"in.dkvp": tiny}, "simultaneous": True})

    # ---- F. output not expressible ---------------------------------------------------
    for r_ in (positions if not q else [2, 500, 501, n]):
        rr = [list(x) for x in big_recs]
        # documented (file-formats.md): extra trailing keys or missing trailing keys are filled, a key that does not
        # match the header is an error -> rename a middle key
        rr[r_ - 1] = [(("X" if k == "b" else k), v) for k, v in rr[r_ - 1]]
        S.append({"kind": "inexpressible-output", "sub": "csv-schema-change-main", "pos": r_, "argv": ["--ocsv", "cat", "in.dkvp"],
                  "files": {"in.dkvp": gen.dkvp(rr)}, "nontrivial": r_ > 1,
                  "control": {"argv": ["--ocsv", "regularize", "then", "rename", "X,b", "in.dkvp"], "files": {"in.dkvp": gen.dkvp(rr)}}})
        S.append({"kind": "inexpressible-output", "sub": "tsv-schema-change-main", "pos": r_, "argv": ["--otsv", "cat", "in.dkvp"],
                  "files": {"in.dkvp": gen.dkvp(rr)}, "nontrivial": r_ > 1})
        S.append({"kind": "inexpressible-output", "sub": "csv-schema-change-tee-verb", "pos": r_, "argv": ["--ocsv", "tee", "out.csv", "then", "put", "-q", "true", "in.dkvp"],
                  "files": {"in.dkvp": gen.dkvp(rr)}, "nontrivial": r_ > 1})
        S.append({"kind": "inexpressible-output", "sub": "csv-schema-change-redirect", "pos": r_,
                  "argv": ["--ocsv", "put", "-q", 'tee > "out.csv", $*', "in.dkvp"], "files": {"in.dkvp": gen.dkvp(rr)}, "nontrivial": r_ > 1})
        S.append({"kind": "inexpressible-output", "sub": "csv-schema-change-split", "pos": r_,
                  "argv": ["--ocsv", "split", "-n", "1", "--prefix", "sp", "in.dkvp"] if False else ["--ocsv", "split", "-g", "a", "--prefix", "sp", "in.dkvp"],
                  "files": {"in.dkvp": gen.dkvp(rr)}, "nontrivial": r_ > 1})
        S.append({"kind": "inexpressible-output", "sub": "csv-schema-change-tee-o", "pos": r_,
                  "argv": ["tee", "-o", "csv", "out.csv", "then", "put", "-q", "true", "in.dkvp"], "files": {"in.dkvp": gen.dkvp(rr)}, "nontrivial": r_ > 1})
    S.append({"kind": "inexpressible-output", "sub": "csv-multichar-ofs", "argv": ["--ocsv", "--ofs", ";;", "cat", "in.dkvp"],
              "files": {"in.dkvp": small}, "no_variants": True})

    # ---- G. write failures -----------------------------------------------------------
    for sz, data in (("small", small), ("large", big)):
        for ff in ([], ["--fflush"]):
            S.append({"kind": "write-failure", "sub": f"stdout-devfull-{sz}" + ("-fflush" if ff else ""), "argv": ff + ["cat", "in.dkvp"],
                      "files": {"in.dkvp": data}, "stdout": "devfull",
                      "control": {"argv": ff + ["cat", "in.dkvp"], "files": {"in.dkvp": data}}})
        S.append({"kind": "write-failure", "sub": f"stdout-closed-pipe-{sz}", "argv": ["cat", "in.dkvp"], "files": {"in.dkvp": data},
                  "stdout": "closedpipe", "sigpipe_ok": True})
    S.append({"kind": "write-failure", "sub": "stdout-devfull-end-block", "argv": ["put", "-q", "end { emit {\"a\": 1} }", "in.dkvp"],
              "files": {"in.dkvp": big}, "stdout": "devfull"})
    S.append({"kind": "write-failure", "sub": "stdout-devfull-pprint", "argv": ["--opprint", "cat", "in.dkvp"],
              "files": {"in.dkvp": big}, "stdout": "devfull"})
    targets = [("enotdir", "plainfile/sub/out", {"plainfile": "x"}, []), ("is-a-directory", "adir", {}, ["adir"]),
               ("devfull", "/dev/full", {}, [])]
    for tname, tpath, tfiles, tdirs in targets:
        for sz, data in (("small", small), ("large", big)):
            need = None if tname == "devfull" else tpath.split("/")[0]
            forms = [
                ("tee-verb", ["tee", tpath, "then", "put", "-q", "true", "in.dkvp"]),
                ("tee-verb-then-head", ["tee", tpath, "then", "head", "-n", "1", "in.dkvp"]),
                ("redirect-tee", ["put", "-q", f'tee > "{tpath}", $*', "in.dkvp"]),
                ("redirect-emit", ["put", "-q", f'emit > "{tpath}", mapsum($*, {{}})', "in.dkvp"]),
                ("redirect-print", ["put", "-q", f'print > "{tpath}", $id', "in.dkvp"]),
                ("redirect-dump", ["put", "-q", f'dump > "{tpath}", $*', "in.dkvp"]),
                ("redirect-append", ["put", "-q", f'tee >> "{tpath}", $*', "in.dkvp"]),
                ("redirect-end-block", ["put", "-q", f'end {{ emit > "{tpath}", {{"a": 1}} }}', "in.dkvp"]),
            ]
            for fname, argv in forms:
                if q and rng.random() < 0.5:
                    continue
                files = dict(tfiles)
                files["in.dkvp"] = data
                S.append({"kind": "write-failure", "sub": f"{fname}-{tname}-{sz}", "argv": argv, "files": files, "mkdirs": tdirs,
                          "need": need, "nontrivial": sz == "large"})
    S.append({"kind": "write-failure", "sub": "split-prefix-under-file", "argv": ["split", "-n", "2", "--prefix", "plainfile/sub/sp", "in.dkvp"],
              "files": {"in.dkvp": small, "plainfile": "x"}, "need": "plainfile"})
    # control for tee/redirect forms: everything reaches the file
    S.append({"kind": "write-failure", "sub": "control-tee-complete", "argv": ["tee", "plainfile/sub/out", "in.dkvp"], "files": {"in.dkvp": big, "plainfile": "x"},
              "need": "plainfile",
              "control": {"argv": ["tee", "out.dkvp", "then", "head", "-n", "1", "in.dkvp"], "files": {"in.dkvp": big},
                          "expect_ids": _ids(big_recs), "expect_in": "out.dkvp"}})
    S.append({"kind": "write-failure", "sub": "control-redirect-complete", "argv": ["put", "-q", 'tee > "plainfile/x", $*', "in.dkvp"], "files": {"in.dkvp": big, "plainfile": "x"},
              "need": "plainfile",
              "control": {"argv": ["put", "-q", 'tee > "out.dkvp", $*', "in.dkvp"], "files": {"in.dkvp": big},
                          "expect_ids": _ids(big_recs), "expect_in": "out.dkvp"}})
    for when in ((1, 2, 3) if not q else (1, 2)):
        S.append({"kind": "write-failure", "sub": "ENOSPC-tee-file", "pos": f"write#{when}", "argv": ["tee", "out.dkvp", "then", "put", "-q", "true", "in.dkvp"],
                  "files": {"in.dkvp": gen.dkvp(_recs(6000, 5))},
                  "strace": {"path": "out.dkvp", "syscall": "write", "error": "ENOSPC", "when": when}, "nontrivial": when > 1})
        S.append({"kind": "write-failure", "sub": "ENOSPC-redirect-file", "pos": f"write#{when}", "argv": ["put", "-q", 'tee > "out.dkvp", $*', "in.dkvp"],
                  "files": {"in.dkvp": gen.dkvp(_recs(6000, 5))},
                  "strace": {"path": "out.dkvp", "syscall": "write", "error": "ENOSPC", "when": when}, "nontrivial": when > 1})
    # ---- H. several output sinks, the fault under one that is not the last to be closed ----------
    # (added after seeded changes C17r2-a/b: a close error of a non-final split file / of a redirect manager that is not
    # the last one closed must still end the run non-zero)
    twelve = _recs(12, 7)
    for fmtflag, ext in (("--ocsv", "csv"), ("--otsv", "tsv")):
        for r_ in range(1, 13):
            rr = [list(x) for x in twelve]
            rr[r_ - 1] = [(("X" if k == "b" else k), v) for k, v in rr[r_ - 1]]
            if q and r_ not in (4, 5, 6, 10, 12) and fmtflag == "--otsv":
                continue
            S.append({"kind": "inexpressible-output", "sub": f"{ext}-schema-change-split-n5", "pos": r_,
                      "argv": [fmtflag, "split", "-n", "5", "--prefix", "sp", "in.dkvp"], "files": {"in.dkvp": gen.dkvp(rr)}})
            S.append({"kind": "inexpressible-output", "sub": f"{ext}-schema-change-split-n5-v", "pos": r_,
                      "argv": [fmtflag, "split", "-v", "-n", "5", "--prefix", "sp", "then", "put", "-q", "true", "in.dkvp"], "files": {"in.dkvp": gen.dkvp(rr)}})
    twelve_txt = gen.dkvp(twelve)
    for k in (1, 2, 3):
        S.append({"kind": "write-failure", "sub": "split-n5-devfull-under-file", "pos": f"file{k}/3",
                  "argv": ["split", "-n", "5", "--prefix", "sp", "in.dkvp"], "files": {"in.dkvp": twelve_txt},
                  "symlinks": {f"sp_{k}.dkvp": "/dev/full"},
                  "control": {"argv": ["split", "-n", "5", "--prefix", "sp", "in.dkvp"], "files": {"in.dkvp": twelve_txt}}})
    for grp in sorted(set(dict(r)["a"] for r in twelve)):
        S.append({"kind": "write-failure", "sub": "split-g-devfull-under-file", "pos": f"group={grp}",
                  "argv": ["split", "-g", "a", "--prefix", "sp", "in.dkvp"], "files": {"in.dkvp": twelve_txt},
                  "symlinks": {f"sp_{grp}.dkvp": "/dev/full"}})
    sinks = ['tee > "{}", $*', 'print > "{}", $id', 'emit > "{}", mapsum($*, {{}})', 'dump > "{}", $*']
    for nst in (2, 3):
        for bad in range(nst):
            for si in range(len(sinks)):
                if q and (si + bad + nst) % 2:
                    continue
                stmts = []
                for j in range(nst):
                    stmts.append(sinks[(si + j) % len(sinks)].format("/dev/full" if j == bad else f"good{j}.out"))
                S.append({"kind": "write-failure", "sub": f"redirects-{nst}-devfull", "pos": f"stmt{bad+1}/{nst}:{sinks[si].split()[0]}",
                          "argv": ["put", "-q", "; ".join(stmts), "in.dkvp"], "files": {"in.dkvp": twelve_txt}})
    for bad in (0, 1):
        t = ["/dev/full", "good.out"] if bad == 0 else ["good.out", "/dev/full"]
        S.append({"kind": "write-failure", "sub": "end-block-redirects-devfull", "pos": f"stmt{bad+1}/2",
                  "argv": ["put", "-q", f'end {{ emit > "{t[0]}", {{"a": 1}}; dump > "{t[1]}", {{"b": 2}} }}', "in.dkvp"], "files": {"in.dkvp": twelve_txt}})
        S.append({"kind": "write-failure", "sub": "two-tee-verbs-devfull", "pos": f"verb{bad+1}/2",
                  "argv": ["tee", t[0], "then", "tee", t[1], "then", "put", "-q", "true", "in.dkvp"], "files": {"in.dkvp": twelve_txt}})
        S.append({"kind": "write-failure", "sub": "two-puts-devfull", "pos": f"verb{bad+1}/2",
                  "argv": ["put", "-q", f'tee > "{t[0]}", $*; emit $*', "then", "put", "-q", f'print > "{t[1]}", $id', "in.dkvp"], "files": {"in.dkvp": twelve_txt}})
    for r_ in (1, 6, 11, 12):
        rr = [list(x) for x in twelve]
        rr[r_ - 1] = [(("X" if k == "b" else k), v) for k, v in rr[r_ - 1]]
        for bad in (0, 1, 2):
            names = ["o0.csv", "o1.csv", "o2.csv"]
            stmts = [f'tee > "{nm}", ' + ("$*" if j == bad else "mapexcept($*, \"b\", \"X\")") for j, nm in enumerate(names)]
            S.append({"kind": "inexpressible-output", "sub": "csv-schema-change-one-of-3-redirects", "pos": f"rec{r_}:stmt{bad+1}/3",
                      "argv": ["--ocsv", "put", "-q", "; ".join(stmts), "in.dkvp"], "files": {"in.dkvp": gen.dkvp(rr)}})
    huge = gen.dkvp(_recs(20000, 6))    # ~1 MiB >> pipe buffer
    for cmd in ("exit 3", "head -n 1 > /dev/null", "true"):
        for fname, argv in [("print-pipe", ["put", "-q", f'print | "{cmd}", $*', "in.dkvp"]),
                            ("tee-pipe", ["put", "-q", f'tee | "{cmd}", $*', "in.dkvp"]),
                            ("tee-verb-p", ["tee", "-p", cmd, "then", "put", "-q", "true", "in.dkvp"])]:
            S.append({"kind": "write-failure", "sub": f"pipe-target-stops-reading-{fname}", "pos": cmd, "argv": argv,
                      "files": {"in.dkvp": huge}, "no_variants": q,
                      "control": {"argv": [a.replace(cmd, "cat > sink.out") for a in argv], "files": {"in.dkvp": huge}}})
    return S


def run(chk):
    S = scenarios(chk)
    only = getattr(chk, "only", None)
    if only:
        S = [s for s in S if s["kind"] in only or s["sub"] in only]
    cases = [{"sc": s, "seed": f"{chk.seed}/{i}", "tier": chk.tier} for i, s in enumerate(S)]
    chk.rule = ("fault grid: kinds {missing input, unreadable input (directory, injected EIO), corrupt compressed input, malformed for the "
                "format, DSL run-time failure, output not expressible, write failure (stdout=/dev/full, closed pipe, ENOTDIR/EISDIR/ENOSPC "
                "targets, pipe targets that stop reading)} x positions (record index around batch boundaries, file index, verb position in chain, "
                "begin/main/end) x schedule variants (batch sizes, GOMAXPROCS=1, perturbation seeds, forced 30 ms delay at each error/marker/done site). "
                "Non-trivial = fault after at least one record was processed or in a chain/file position > 1; distinct = (kind, sub-kind, position)")
    chk.pmap(run_scenario, cases, label="fault grid")
    # error paths are where unsynchronised shortcuts hide: the DSL-failure, inexpressible-output and write-failure families once more
    # under the race detector (one schedule variant each in quick)
    rsel = [s for s in S if s["kind"] in ("dsl-failure", "inexpressible-output", "write-failure") and not s.get("strace")]
    rr = chk.rng("race-pass")
    rr.shuffle(rsel)
    rsel = rsel[: (40 if chk.quick() else 400)]
    rcases = [{"sc": dict(s, no_variants=True, simultaneous=False), "seed": f"{chk.seed}/race/{i}", "tier": chk.tier, "race": True} for i, s in enumerate(rsel)]
    chk.pmap(run_scenario, rcases, label="error paths under the race detector")
    kinds = {}
    for s in S:
        kinds.setdefault(s["kind"], set()).add(s["sub"])
    chk.extra["fault_kinds"] = {k: len(v) for k, v in kinds.items()}
    chk.extra["scenarios"] = len(S)
    sigs = chk.stats.pop("interleaving_signatures", set())
    chk.extra["distinct_interleaving_signatures"] = len(sigs)
    chk.extra["order_sites_hit"] = {k[5:]: v for k, v in chk.stats.items() if k.startswith("site:")}
    for k in [k for k in chk.stats if k.startswith("site:")]:
        chk.stats.pop(k)
    chk.assumptions = [
        "stdout EPIPE: the kernel kills the writer with SIGPIPE by Unix convention, only status != 0 is required there",
        "the offending path must appear in the diagnostic only for faults detected at open time",
        "the exit status of a pipe command that read everything is not a write failure and is not asserted",
        "power-loss durability and network inputs are out of reach",
        "a process crash trace (panic) is reported here as kind=crash because it is not a diagnostic naming the problem",
    ]
