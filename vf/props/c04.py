"""C04 - output independent of batching and scheduling; every run terminates; --seed
reproducible; tail -f contract.  Five monitors (DESIGN.md section 3, C04):
  a  differential over batch sizes / CPUs / perturbation seeds (offline checker over recorded runs)
  b  termination of early-exit chains (hang classifier) + expected output from a slicing model
  c  --seed reproducibility
  d  race detector over a stress list aimed at shared mutable state
  e  online streaming monitor: one record in, its output out, while stdin stays open
"""
import hashlib
import json
import os
import random
import select
import signal
import subprocess
import time

from .. import build, gen, hang
from .. import run as R
from ..harness import add_violation, bump, case_result

BINARIES = ("mlr-verif", "mlr-race")
LEVEL = "exploration"


def _h(*xs):
    return hashlib.sha1(repr(xs).encode()).hexdigest()[:16]


def _trace_sig(trace):
    if not trace:
        return None
    return hashlib.sha1("\n".join(l.split(" ", 1)[1] if " " in l else l for l in trace).encode()).hexdigest()[:12]


def _hang_violation(res, r, argv, what_prefix, detail):
    if r.verdict == "deadlock":
        add_violation(res, {"kind": "deadlock", "blocked": "|".join(r.hang_sig or [])},
                      f"{what_prefix}: deadlock, goroutines parked at {r.hang_sig}",
                      dict(detail, dump=(r.dump or "")[-6000:]))
        return True
    if r.verdict in ("cpu", "output-cap"):
        add_violation(res, {"kind": r.verdict}, f"{what_prefix}: {r.verdict} budget exhausted", detail)
        return True
    if r.verdict == "slow":
        res["inconc"] += 1
        return True
    return False


# ==========================================================================================
# (a) differential over configurations

def _mk_input(rng, n, nfiles, fmt):
    # >= 12 fields switches a record to its hash index (--hash-records / default) - a separate code path
    recs = gen.records(rng, n, ragged=rng.choice([0, 0.15]), hetero=rng.random() < 0.3, wide=rng.random() < 0.3)
    cuts = sorted(rng.randint(0, n) for _ in range(nfiles - 1))
    parts = []
    prev = 0
    for c in cuts + [n]:
        parts.append(recs[prev:c])
        prev = c
    files = {}
    for i, p in enumerate(parts):
        if fmt == "dkvp":
            files[f"in{i+1}.dkvp"] = gen.dkvp(p)
        elif fmt == "json":
            files[f"in{i+1}.json"] = gen.json_text(p, as_strings=False) if p else ""
        elif fmt == "csv":
            # homogenise within a file: CSV needs a rectangular file; headers differ between files
            keys = []
            for r in p:
                for k, _ in r:
                    if k not in keys:
                        keys.append(k)
            rows = [[(k, dict(r).get(k, "")) for k in keys] for r in p]
            files[f"in{i+1}.csv"] = gen.csv_simple(rows)
    return recs, files


def diff_case(case):
    seed, tier = case["seed"], case["tier"]
    import random
    rng = random.Random(seed)
    n = rng.choice([0, 1, 2, 3, 7, 499, 500, 501, 1003] + ([2501] if tier == "thorough" else []))
    nfiles = rng.choice([1, 1, 2, 3])
    fmt = rng.choice(["dkvp", "dkvp", "json", "csv"])
    recs, files = _mk_input(rng, n, nfiles, fmt)
    argv_chain, chain, tags = gen.random_chain(rng, 1, 4, exclude_tags="X")
    iflag = {"dkvp": ["--idkvp"], "json": ["--ijson"], "csv": ["--icsv", "--allow-ragged-csv-input"]}[fmt]
    oflag = rng.choice([["--ojson"], ["--ojson"], ["--oxtab"], ["--odkvp"]])
    use_stdin = (nfiles == 1 and rng.random() < 0.5)
    names = sorted(files)
    base = iflag + oflag
    res = case_result(_h("a", seed), nontrivial=False)
    variants = [("default", [], {})]
    bs_pool = [1, 2, 3, 7, max(1, n - 1), max(1, n), n + 1, 500, 1000000]
    nvar = 6 if tier == "quick" else 13
    pool = []
    for b in sorted(set(bs_pool)):
        pool.append((f"rpb={b}", ["--records-per-batch", str(b)], {}))
    pool.append(("nr-progress-mod", ["--nr-progress-mod", "1"], {}))
    pool.append(("hash-records", ["--hash-records"], {}))
    pool.append(("no-hash-records", ["--no-hash-records"], {}))
    for g in (1, 2, 16):
        pool.append((f"GOMAXPROCS={g}", ["--records-per-batch", str(rng.choice([1, 2, 500]))], {"GOMAXPROCS": str(g)}))
    for s in range(4):
        pool.append((f"sched={s}", ["--records-per-batch", str(rng.choice([1, 2, 3]))],
                     {"MLR_VERIF_SCHED": f"{rng.randint(1, 10**6)}:{rng.choice([200, 2000])}"}))
    pool.append(("taskset0", ["--records-per-batch", "2"], {"__taskset": "0"}))
    rng.shuffle(pool)
    # always include batch 1 and a perturbed run
    chosen = [pool_item for pool_item in pool if pool_item[0] in ("rpb=1",)]
    chosen += [p for p in pool if p[0].startswith("sched")][:1]
    chosen += [p for p in pool if p[0] in ("hash-records", "no-hash-records")]
    for p in pool:
        if len(chosen) >= nvar:
            break
        if p not in chosen:
            chosen.append(p)
    variants += chosen
    ref = None
    sigs = set()
    nbatches_small = (n >= 2)
    nverbs = len(chain)
    res["nontrivial"] = nbatches_small and (nverbs >= 2 or any("E" in t for t in tags))
    # text printed (or records emitted from begin/end-free side channels) by a verb UPSTREAM of an early-exiting verb: how many
    # records reach the upstream verb before the reader notices head's done-flag is inherently batch/timing dependent
    side_before_exit = any(("P" in tags[i] or chain[i][0] in ("tee", "split") or (chain[i][0] == "put" and "emit" in " ".join(chain[i]))) and
                           any("E" in tags[j] for j in range(i + 1, len(chain))) for i in range(len(chain)))
    for vname, vflags, venv in variants:
        env = {k: v for k, v in venv.items() if not k.startswith("__")}
        wrapper = ["taskset", "-c", venv["__taskset"]] if "__taskset" in venv else None
        if use_stdin:
            r = R.mlr(vflags + base + argv_chain, stdin=files[names[0]], env=env, trace=True,
                        keep_cwd=True, wrapper=wrapper)
        else:
            r = R.mlr(vflags + base + argv_chain + names, files=files, env=env, trace=True,
                        keep_cwd=True, wrapper=wrapper)
        tee_out = None
        try:
            p = os.path.join(r.cwd, "tee.out")
            if os.path.exists(p):
                tee_out = open(p, "rb").read()
        finally:
            import shutil
            shutil.rmtree(r.cwd, ignore_errors=True)
        detail = {"argv": vflags + base + argv_chain + ([] if use_stdin else names), "files": files,
                  "stdin": files[names[0]] if use_stdin else "", "env": env, "variant": vname}
        bump(res, "runs")
        if r.trace:
            sigs.add(_trace_sig(r.trace))
            for l in r.trace:
                parts = l.split(" ")
                if len(parts) >= 2:
                    bump(res, "site:" + parts[1])
        if _hang_violation(res, r, detail["argv"], f"variant {vname}", detail):
            continue
        if r.crashed():
            add_violation(res, {"kind": "crash", "verb": chain[0][0] if chain else ""},
                          f"variant {vname}: crash trace", dict(detail, stderr=r.err[-3000:]))
            continue
        status = ("rc", r.rc) if r.signal is None else ("sig", r.signal)
        obs = (status, r.stdout if r.rc == 0 else None, tee_out if r.rc == 0 else None)
        if ref is None:
            ref = (vname, obs, detail)
            continue
        if obs[0] != ref[1][0]:
            add_violation(res, {"kind": "status-differs", "verbs": ",".join(v[0] for v in chain)},
                          f"exit status differs between {ref[0]} {ref[1][0]} and {vname} {obs[0]}",
                          dict(detail, ref_argv=ref[2]["argv"], stderr=r.err[-2000:]))
        elif obs[1] != ref[1][1]:
            add_violation(res, {"kind": "stdout-differs", "verbs": ",".join(v[0] for v in chain), "print_upstream_of_early_exit": side_before_exit},
                          f"stdout differs between {ref[0]} and {vname}",
                          dict(detail, ref_argv=ref[2]["argv"], ref_stdout=ref[1][1][:3000], got_stdout=r.stdout[:3000]))
        elif obs[2] != ref[1][2]:
            add_violation(res, {"kind": "tee-file-differs", "verbs": ",".join(v[0] for v in chain), "print_upstream_of_early_exit": side_before_exit},
                          f"tee file differs between {ref[0]} and {vname}", detail)
    res["stats"]["interleaving_signatures"] = list(sigs)
    if len(sigs) > 1:
        bump(res, "commands_with_gt1_interleaving")
    res["sample"] = {"monitor": "a", "argv": base + argv_chain, "n_records": n, "files": len(files),
                     "variants": [v[0] for v in variants], "distinct_interleavings": len(sigs)}
    return res


# ------------------------------------------------------------------------------------------
# (a2) hash-index differential: records with >= 12 fields carry a key index when --hash-records (the default for wide
# records) is on; every field-restructuring verb maintains it by hand. Output must not depend on it.

def hash_case(case):
    import random
    rng = random.Random(case["seed"])
    nf = rng.choice([11, 12, 12, 13, 16])
    names = [f"f{j}" for j in range(nf)]
    recs = []
    for k in range(rng.choice([1, 3, 8])):
        recs.append([("id", f"r{k+1}")] + [(nm, f"v{k}_{j}") for j, nm in enumerate(names) if rng.random() > 0.05])
    a, b, c = rng.sample(names, 3)
    new = rng.choice(["zz", "brandnew", b])
    restructure = [
        ["rename", f"{a},{new}"], ["rename", "-r", f"^{a}$,{new}"], ["rename", "-g", "-r", f"{a[0]},{new[0]}"], ["reorder", "-f", a], ["reorder", "-e", "-f", a],
        ["cut", "-x", "-f", a], ["label", "L0,L1"], ["put", f"unset ${a}"], ["put", f"${new} = ${a}; unset ${a}"], ["put", f"$*  = mapexcept($*, \"{a}\")"],
        ["nest", "--ivar", ";", "-f", a], ["sort-within-records"], ["template", "-f", ",".join(names[:5] + ["tt"])], ["put", f"$[[3]] = \"{new}\""],
        ["put", f"map m = $*; unset m[\"{a}\"]; $* = m"], ["unsparsify", "-f", f"{new},{a}"], ["fill-down", "-a", "-f", a], ["sec2gmt", a],
    ]
    use = [
        ["cut", "-o", "-f", f"{new},{a},{c}"], ["put", f"${a} = \"X\""], ["put", f"$seen = is_present(${a}) . \":\" . is_present(${new})"], ["sort", "-f", a],
        ["rename", f"{new},{a}"], ["cut", "-f", f"{a},{new}"], ["having-fields", "--at-least", a], ["reorder", "-f", new], ["put", f"unset ${new}"],
        ["count-distinct", "-f", a], ["head", "-n", "1", "-g", a], ["put", f"$nf = NF; $k = joink($*, \",\")"], ["cut", "-x", "-f", new], ["rename", f"{a},{c}"],
    ]
    chain = [rng.choice(restructure)]
    if rng.random() < 0.4:
        chain.append(rng.choice(restructure))
    chain.append(rng.choice(use))
    if rng.random() < 0.3:
        chain.append(rng.choice(use))
    argv = []
    for i, v in enumerate(chain):
        if i:
            argv.append("then")
        argv += v
    inp = gen.dkvp(recs)
    res = case_result(_h("a2", case["seed"]), nontrivial=(nf >= 12))
    outs = {}
    for flag in ("--hash-records", "--no-hash-records", None):
        fl = [flag] if flag else []
        r = R.mlr(fl + ["--ojson"] + argv, stdin=inp)
        bump(res, "runs")
        if r.verdict != "exited":
            if _hang_violation(res, r, argv, "hash differential", {"argv": fl + argv, "stdin": inp}):
                continue
        outs[flag or "default"] = (r.rc, r.stdout if r.rc == 0 else None)
    res["sample"] = {"monitor": "a2", "argv": argv, "fields": nf}
    vals = set(outs.values())
    if len(vals) > 1:
        add_violation(res, {"kind": "hash-records-dependence", "verbs": ",".join(v[0] for v in chain)},
                      f"output depends on --hash-records / --no-hash-records for records of {nf + 1} fields: mlr {' '.join(argv)}",
                      {"argv": ["--no-hash-records", "--ojson"] + argv, "stdin": inp,
                       "outputs": {k: (v[0], (v[1] or b"")[:600]) for k, v in outs.items()}})
    return res


# ==========================================================================================
# (b) termination of early-exit chains, with expected output from a slicing model

def _slice_model(chain, recs):
    """Expected surviving record ids for chains made only of modelled verbs; None if unmodelled."""
    cur = list(recs)
    for v in chain:
        if v[0] == "head" and len(v) == 3 and v[1] == "-n":
            k = int(v[2])
            if k >= 0:
                cur = cur[:k]
            else:
                cur = cur[:max(0, len(cur) + k)]
        elif v[0] in ("cat", "tee", "regularize") or (v[0] == "put" and v[-1] == "$k = 1"):
            pass
        elif v[0] == "tac":
            cur = cur[::-1]
        elif v[0] == "nothing":
            cur = []
        elif v[0] == "filter" and v[1] == "false":
            cur = []
        elif v[0] == "put" and v[1] == "-q":
            cur = []
        else:
            return None
    return cur


def early_case(case):
    import random
    seed, tier = case["seed"], case["tier"]
    rng = random.Random(seed)
    k = rng.choice([0, 1, 2, 3, 5, 500, 510])
    k2 = rng.choice([0, 1, 2, max(0, k - 1), k, k + 1])
    early = [
        ["head", "-n", str(k)], ["head", "-n", str(k2)], ["head", "-n", str(k), "-g", "a"],
        ["head", "-n", str(-min(k, 3))], ["tee", "tee.out"], ["nothing"], ["put", "-q", "true"],
        ["filter", "false"], ["seqgen", "--start", "1", "--stop", str(rng.choice([1, 10, 1200, 100000]))],
        ["put", '$nosuch .+ 1 == 2 { $z = asserting_null("") }'],
    ]
    other = [["cat"], ["put", "$k = 1"], ["tac"], ["sort", "-f", "a"], ["regularize"], ["uniq", "-g", "a"],
             ["count-similar", "-g", "a"], ["fill-down", "-f", "a"], ["unsparsify"]]
    if "chain" in case:
        # structured grid point: explicit chain / N / batch size
        chain = [list(v) for v in case["chain"]]
        b = case["b"]
        n = case["n"]
        L = len(chain)
    else:
        L = rng.randint(1, 4)
        chain = []
        for i in range(L):
            chain.append(list(rng.choice(early if rng.random() < 0.65 else other)))
        if not any(v[0] in ("head", "seqgen", "nothing", "tee") for v in chain):
            chain[rng.randrange(L)] = list(early[0])
        b = rng.choice([1, 2, 500])
        offs = rng.choice([-1, 0, 1, 2, 3])
        n = max(0, rng.choice([k + offs, b * rng.choice([1, 2, 3]) + offs, 2 * k + offs, 1200 + offs, 3]))
        n = min(n, 3000)
    nfiles = rng.choice([1, 1, 2, 3])
    recs, files = _mk_input(rng, n, nfiles, "dkvp")
    names = sorted(files)
    argv = []
    for i, v in enumerate(chain):
        if i:
            argv.append("then")
        argv += v
    env = {}
    delay_sites = ["lines.poll", "head.done.send", "dd.forward", "reader.eos.send", "chain.send", "lines.send",
                   "writer.recv", "chain.recv"]
    if rng.random() < 0.5:
        site = rng.choice(delay_sites)
        per_batch = site not in ("head.done.send", "dd.forward", "reader.eos.send")
        nb = max(1, n // b)
        ms = rng.choice([1, 5, 20]) if not per_batch or nb <= 20 else (rng.choice([0.5, 2]) if nb <= 300 else 0.1)
        env["MLR_VERIF_DELAY"] = f"{site}={ms}"
    elif rng.random() < 0.5:
        env["MLR_VERIF_SCHED"] = f"{rng.randint(1, 10**6)}:{rng.choice([200, 2000])}"
    full = ["--records-per-batch", str(b)] + argv + names
    r = R.mlr(full, files=files, env=env, trace=True, keep_cwd=True, watchdog=90)
    tee_out = None
    p = os.path.join(r.cwd, "tee.out")
    if os.path.exists(p):
        tee_out = open(p, "rb").read().decode()
    import shutil
    shutil.rmtree(r.cwd, ignore_errors=True)
    res = case_result(_h("b", seed), nontrivial=(n > b or len(chain) >= 2))
    detail = {"argv": full, "files": files, "env": env}
    for l in (r.trace or []):
        parts = l.split(" ")
        if len(parts) >= 2:
            bump(res, "site:" + parts[1])
    res["stats"]["interleaving_signatures"] = [_trace_sig(r.trace)]
    shape = "+".join(v[0] for v in chain)
    res["sample"] = {"monitor": "b", "argv": full, "n_records": n, "env": env, "rc": r.rc, "verdict": r.verdict}
    if r.verdict == "deadlock":
        add_violation(res, {"kind": "deadlock", "blocked": "|".join(r.hang_sig or []), "shape": shape},
                      f"early-exit chain deadlocks: mlr {' '.join(full[:12])} ... on {n} records; parked at {r.hang_sig}",
                      dict(detail, dump=(r.dump or "")[-6000:]))
        return res
    if _hang_violation(res, r, full, "early-exit chain", detail):
        return res
    if r.crashed():
        add_violation(res, {"kind": "crash", "shape": shape}, "crash trace in early-exit chain",
                      dict(detail, stderr=r.err[-3000:]))
        return res
    has_failing = any(v[0] == "put" and "asserting_null" in v[-1] for v in chain)
    if has_failing or any(v[0] == "seqgen" for v in chain):
        return res
    if r.rc != 0:
        add_violation(res, {"kind": "unexpected-failure", "shape": shape}, f"fault-free early-exit chain exits {r.rc}",
                      dict(detail, stderr=r.err[-2000:]))
        return res
    exp = _slice_model(chain, recs)
    if exp is not None and not any(len(v) > 3 and v[0] == "head" for v in chain):
        got_ids = [dict(rec).get("id") for rec in gen.parse_dkvp(r.out)]
        exp_ids = [dict(rec).get("id") for rec in exp]
        bump(res, "model_checked")
        if got_ids != exp_ids:
            add_violation(res, {"kind": "wrong-slice", "shape": shape},
                          f"early-exit chain output ids differ from slicing model: got {got_ids[:8]}.. expected {exp_ids[:8]}..",
                          dict(detail, expected=exp_ids[:50], got=got_ids[:50]))
    # tee must hold everything that reached it, even if a later head stops early
    if tee_out is not None:
        ti = [i for i, v in enumerate(chain) if v[0] == "tee"]
        if len(ti) == 1:
            exp_tee = _slice_model(chain[:ti[0]], recs)
            if exp_tee is not None and not any(len(v) > 3 and v[0] == "head" for v in chain[:ti[0]]):
                got_ids = [dict(rec).get("id") for rec in gen.parse_dkvp(tee_out)]
                exp_ids = [dict(rec).get("id") for rec in exp_tee]
                bump(res, "tee_model_checked")
                if got_ids != exp_ids:
                    add_violation(res, {"kind": "tee-incomplete", "shape": shape},
                                  f"tee file has {len(got_ids)} records, {len(exp_ids)} reached the tee",
                                  dict(detail, expected_n=len(exp_ids), got_n=len(got_ids)))
    return res


def early_grid(chk):
    """Structured grid: ordered pairs (and triples with a pass-through verb between) of early-exit verbs
    x N around the counts and batch boundaries x batch sizes. Quick: all head/head pairs + a seeded sample
    of the rest; thorough: the whole grid."""
    heads = [["head", "-n", "1"], ["head", "-n", "2"], ["head", "-n", "5"], ["head", "-n", "510"]]
    others = [["head", "-n", "2", "-g", "a"], ["tee", "tee.out"], ["nothing"], ["filter", "false"],
              ["seqgen", "--start", "1", "--stop", "1200"], ["head", "-n", "0"], ["put", "-q", "true"]]
    mids = [None, ["cat"], ["tac"], ["put", "$k = 1"]]
    grid = []
    idx = 0
    for u in heads + others:
        for d in heads + others:
            for mid in mids:
                for n in (3, 6, 7, 512, 1200):
                    for b in (1, 2, 500):
                        chain = [u] + ([mid] if mid else []) + [d]
                        core = (u in heads and d in heads and mid is None and n in (3, 7, 1200) and b in (1, 500))
                        grid.append((core, {"seed": f"{chk.seed}/bg/{idx}", "tier": chk.tier, "chain": chain, "n": n, "b": b}))
                        idx += 1
    if not chk.quick():
        return [g for _, g in grid]
    rng = chk.rng("early-grid")
    rest = [g for core, g in grid if not core]
    rng.shuffle(rest)
    return [g for core, g in grid if core] + rest[:60]


# ==========================================================================================
# (c) --seed reproducibility

RANDOM_VERBS = [
    (["shuffle"], 1), (["sample", "-k", "3"], 1), (["sample", "-k", "2", "-g", "a"], 1), (["bootstrap"], 1),
    (["put", "$u = urandint(1, 1000000)"], 1), (["put", "$u = urand32()"], 1),
    (["put", "$u = urandrange(0, 10)"], 1), (["filter", "urand() < 0.5"], 1),
    (["put", '$u = urandelement([1,2,3,4,5,6,7])'], 1), (["decimate", "-n", "2"], 0), (["cat"], 0), (["tac"], 0),
    (["sort", "-f", "a"], 0),
]


def seed_case(case):
    import random
    seed, tier = case["seed"], case["tier"]
    rng = random.Random(seed)
    L = rng.randint(1, 3)
    chain = [rng.choice(RANDOM_VERBS) for _ in range(L)]
    if not any(c[1] for c in chain):
        chain[0] = RANDOM_VERBS[rng.randrange(9)]
    nrand = sum(c[1] for c in chain)
    argv = []
    for i, (v, _) in enumerate(chain):
        if i:
            argv.append("then")
        argv += v
    n = rng.choice([5, 40, 1200, 3000])
    recs = gen.records(rng, n, ragged=0)
    inp = gen.dkvp(recs)
    s = rng.choice(["1", "12345", "0xcafefeed"])
    res = case_result(_h("c", seed), nontrivial=(n > 500 or nrand >= 1))
    outs = {}
    reps = 5
    for rep in range(reps):
        b = [None, "1", "500", "7", None][rep]
        flags = ["--seed", s] + (["--records-per-batch", b] if b else [])
        env = {"MLR_VERIF_SCHED": f"{rep+1}:500"} if rep in (2, 4) else {}
        r = R.mlr(flags + argv, stdin=inp, env=env)
        bump(res, "runs")
        detail = {"argv": flags + argv, "stdin": inp if n <= 50 else f"<{n} generated records, seed {seed}>", "env": env}
        if _hang_violation(res, r, argv, "seeded chain", detail):
            continue
        outs.setdefault((r.rc, r.stdout), []).append(rep)
    res["sample"] = {"monitor": "c", "argv": ["--seed", s] + argv, "n_records": n, "random_consumers": nrand,
                     "distinct_outputs": len(outs)}
    if len(outs) > 1:
        add_violation(res, {"kind": "seed-nonrepro", "random_consumers": min(nrand, 2),
                            "verbs": ",".join(v[0][0] for v in chain)},
                      f"--seed {s} gives {len(outs)} different outputs over {reps} runs: mlr --seed {s} {' '.join(argv)} ({n} records)",
                      {"argv": ["--seed", s] + argv, "stdin": inp if n <= 50 else "", "n": n, "gen_seed": seed})
    return res


# ==========================================================================================
# (d) race detector stress list

def race_cmds(rng, tier):
    cmds = []
    big = gen.dkvp(gen.records(rng, 2500, ragged=0.1, hetero=True))
    med = gen.dkvp(gen.records(rng, 600, ragged=0.1))
    cmds.append((["--records-per-batch", "1", "cat", "then", "put", '$z = sub($a, "(.)a", "\\1_")', "then", "put",
                  '$w = gsub($b, "([0-9])", "<\\1>")', "then", "sort", "-f", "a"], med, {}))
    cmds.append((["--records-per-batch", "2", "tee", "t1.out", "then", "put", "$i = $i . \"s\"; unset $x", "then",
                  "reorder", "-e", "-f", "id", "then", "tee", "t2.out"], big, {}))
    cmds.append((["--records-per-batch", "3", "--ojson", "put", "-q", 'tee > $a.".out", $*', "then", "nothing"], big, {}))
    cmds.append((["--records-per-batch", "1", "put", "-q", 'tee > "s".($i % 300).".out", $*'], big, {}))
    cmds.append((["--records-per-batch", "2", "--ocsv", "put", "-q", 'emit > "e".$a.".csv", mapsum({"id":$id},{"a":$a})'], med, {}))
    cmds.append((["--records-per-batch", "2", "put", "-q", 'print | "cat > p.out", $id'], med, {}))
    cmds.append((["--records-per-batch", "1", "--seed", "3", "put", "$u = urandint(1,100)", "then", "put", "$v = urand()"], med, {}))
    cmds.append((["--records-per-batch", "2", "tee", "-p", "cat > t3.out", "then", "nest", "--ivar", ";", "-f", "b", "then",
                  "case", "-u", "-v", "-f", "a"], big, {}))
    cmds.append((["--records-per-batch", "2", "tee", "t4.out", "then", "sec2gmt", "i", "then", "sort", "-nr", "i"], big, {}))
    cmds.append((["--records-per-batch", "1", "join", "-j", "a", "--lp", "L_", "-f", "left.dkvp", "then", "put", "$n = NR"], med,
                 {"left.dkvp": gen.dkvp(gen.records(rng, 40, ragged=0))}))
    cmds.append((["--records-per-batch", "1", "join", "-s", "-j", "id", "-f", "left.dkvp", "then", "tac"], med,
                 {"left.dkvp": med}))
    cmds.append((["--records-per-batch", "2", "split", "-g", "a", "--prefix", "sp", "then", "put", "$q = 1"], big, {}))
    cmds.append((["--records-per-batch", "2", "split", "-n", "300", "--prefix", "spn"], big, {}))
    cmds.append((["--records-per-batch", "1", "head", "-n", "4", "then", "put", "$q = 1", "then", "tee", "t5.out"], big, {}))
    cmds.append((["--records-per-batch", "1", "put", '$m = {"a":{"b":$i}}', "then", "flatten", "then", "unsparsify",
                  "then", "sort-within-records"], med, {}))
    cmds.append((["--records-per-batch", "2", "--ojson", "put", '$*  = mapsum($*, {"n": NR}); @last = $*', "then", "put",
                  '$k = strlen($a) . format_values'.replace(" . format_values", ""), "then", "stats1", "-a", "p50,mean", "-f", "i,x", "-g", "a"], big, {}))
    cmds.append((["--records-per-batch", "1", "--icsv", "--ojson", "--allow-ragged-csv-input", "cat", "then", "fill-down", "-a", "-f", "a"],
                 "id,a,b\n" + "".join(f"{i},{'x' if i % 3 else ''},{i}\n" for i in range(800)), {}))
    cmds.append((["--records-per-batch", "1", "--ijson", "--ojson", "put", '$c = $a . "x"', "then", "json-stringify", "then", "json-parse"],
                 gen.json_text(gen.records(rng, 500, ragged=0)), {}))
    cmds.append((["--records-per-batch", "1", "seqgen", "--start", "1", "--stop", "5000", "then", "put", "$y = $i * 2", "then", "head", "-n", "700"], "", {}))
    cmds.append((["-n", "put", "end { for (i = 0; i < 600; i += 1) { tee > \"f\".(i % 300).\".out\", {\"i\": i} } }"], "", {}))
    cmds.append((["--records-per-batch", "2", "--nr-progress-mod", "100", "count-similar", "-g", "a", "then", "top", "-n", "2", "-f", "x", "-g", "a", "-a"], big, {}))
    cmds.append((["--records-per-batch", "1", "--from", "in1.dkvp", "--from", "in2.dkvp", "put", "$f = FILENAME", "then", "tee", "t6.out", "then", "uniq", "-g", "a,f"], "",
                 {"in1.dkvp": med, "in2.dkvp": med}))
    cmds.append((["-I", "--records-per-batch", "1", "put", "$z = NR", "then", "sort", "-nr", "z", "ip1.dkvp", "ip2.dkvp"], "",
                 {"ip1.dkvp": med, "ip2.dkvp": med}))
    cmds.append((["--records-per-batch", "2", "--ojson", "put", "-q", 'emit1 {"a": $a}; dump > "d.out", {"i": $i}; printn > "pn.out", $id'], med, {}))
    # callbacks of the same name in two puts (process-global HOF cache), backward sliding window then a mutating put,
    # nest then put on wide records, step ewma/shift_lead then sort
    cmds.append((["--records-per-batch", "1", "put", "func f(a) {return a . \"x\"} $p = apply([$a, $b], f)[1]", "then", "put",
                  "func f(a) {return a . \"y\"} $q = apply([$a], f)[1]; $r = sort([$i, 3, 1], func(a,b) {return b <=> a})[1]"], med, {}))
    cmds.append((["--records-per-batch", "1", "--ojson", "--jvquoteall", "step", "-a", "slwin_2_2,shift_lead,ewma", "-d", "0.1,0.9", "-f", "i,x", "then", "put", "$i = \"abc\"; unset $x"], med, {}))
    cmds.append((["--records-per-batch", "2", "nest", "--explode", "--values", "--across-records", "-f", "a", "--nested-fs", "e", "then", "put", "$a = $a . \"!\"", "then",
                  "count-similar", "-g", "a", "then", "fill-down", "-a", "-f", "b"], big, {}))
    cmds.append((["--records-per-batch", "1", "repeat", "-n", "3", "then", "put", "$i = NR", "then", "sec2gmt", "i", "then", "uniq", "-g", "id,i"], med, {}))
    cmds.append((["--records-per-batch", "2", "--icsv", "--opprint", "--barred", "cat", "then", "sort-within-records", "-r", "then", "unsparsify"],
                 gen.csv_simple([[("id", f"r{k}"), ("a", "x"), ("b", str(k))] for k in range(700)]), {}))
    # Twin sweep (added after seeded change C04r2-b, a package-level buffer shared by every grouping verb): each catalogue
    # verb V runs as `V then V` and behind a streaming grouping verb, so that two instances of the same code -- and any
    # process-global state they share -- are live in two goroutines at once under the race detector.
    twin_in = gen.dkvp(gen.records(rng, 400 if tier == "quick" else 1500, ragged=0.1))
    seen = set()
    for v, tags in gen.verb_catalogue(rng):
        if "P" in tags or v[0] in ("seqgen", "nothing", "tee") or tuple(v) in seen:
            continue
        seen.add(tuple(v))
        cmds.append((["--records-per-batch", "2"] + v + ["then"] + v, twin_in, {}))
        cmds.append((["--records-per-batch", "1", "step", "-a", "shift", "-f", "i", "-g", "a,b", "then"] + v, twin_in, {}))
    return cmds


def regression_corpus_race(chk):
    """Thorough tier: Miller's own regression corpus (4790 cases: every verb and DSL feature at least once) under the race
    binary, from a scratch copy of /repo/test so that cases which write files never touch /repo."""
    import shutil
    import subprocess
    import tempfile
    d = tempfile.mkdtemp(prefix="vf-regrace-", dir=R.SCRATCH_ROOT)
    try:
        subprocess.run(["rsync", "-a", os.path.join(build.REPO, "test"), d + "/repo/"], check=True)
        shutil.copy(build.binpath("mlr-race"), d + "/repo/mlr")
        dirs = sorted(os.listdir(d + "/repo/test/cases"))
        logs = d + "/race"
        os.makedirs(logs)
        env = dict(R.BASE_ENV, PATH=d + "/repo:" + R.BASE_ENV["PATH"], HOME=d,
                   GORACE=f"halt_on_error=0 atexit_sleep_ms=0 log_path={logs}/r")
        procs = []
        nshards = 16
        for k in range(nshards):
            shard = ["test/cases/" + x for x in dirs[k::nshards]]
            procs.append(subprocess.Popen([d + "/repo/mlr", "regtest", "-m", d + "/repo/mlr"] + shard, cwd=d + "/repo", env=env,
                                          stdout=subprocess.DEVNULL, stderr=subprocess.DEVNULL))
        for p in procs:
            p.wait(timeout=3600)
        n = 0
        reports = []
        for fn in os.listdir(logs):
            txt = open(os.path.join(logs, fn), errors="replace").read()
            for b in txt.split("WARNING: DATA RACE")[1:]:
                if "github.com/johnkerl/miller" in b:
                    reports.append(b[:4000])
        chk.extra["regression_corpus_under_race_detector"] = {"case_directories": len(dirs), "race_reports": len(reports)}
        import re
        for b in reports:
            top = re.findall(r"^\s+(github\.com/johnkerl/miller/v6/\S+?)\(", b, re.M)[:2]
            pair = "|".join(sorted(set(t.replace("github.com/johnkerl/miller/v6/pkg/", "") for t in top)))
            chk.add_violation({"kind": "data-race", "pair": pair, "where": "regression-corpus"},
                              f"data race reported while running Miller's regression corpus under the race detector ({pair})", {"report": b})
        chk.evaluations += len(dirs)
    finally:
        shutil.rmtree(d, ignore_errors=True)


def race_case(case):
    argv, inp, files, sched, idx = case["argv"], case["stdin"], case["files"], case["sched"], case["idx"]
    env = {"MLR_VERIF_SCHED": sched} if sched else {}
    r = R.mlr(argv, stdin=inp, files=files, env=env, binary="mlr-race", cpu_s=120, watchdog=240, nofile=1024)
    res = case_result(_h("d", idx, sched), nontrivial=True)
    bump(res, "race_executions")
    detail = {"argv": argv, "stdin": inp if len(inp) < 4000 else inp[:4000] + "...(truncated)", "files": {k: v[:2000] for k, v in files.items()}, "env": env,
              "binary": "mlr-race"}
    res["sample"] = {"monitor": "d", "argv": argv, "sched": sched, "rc": r.rc}
    if _hang_violation(res, r, argv, "race stress", detail):
        return res
    reps = r.race_reports or []
    nrep = 0
    for rep in reps:
        blocks = rep.split("WARNING: DATA RACE")[1:]
        for b in blocks:
            if "github.com/johnkerl/miller" not in b:
                continue
            nrep += 1
            import re
            frames = re.findall(r"^\s+(github\.com/johnkerl/miller/v6/\S+?)\(", b, re.M)
            top = []
            for part in re.split(r"\n\s*\n", b):
                m = re.search(r"^\s+(github\.com/johnkerl/miller/v6/\S+?)\(", part, re.M)
                if m and ("Read at" in part or "Write at" in part or "Previous" in part):
                    top.append(m.group(1).replace("github.com/johnkerl/miller/v6/pkg/", ""))
            pair = "|".join(sorted(set(top[:2])))
            add_violation(res, {"kind": "data-race", "pair": pair},
                          f"data race reported by the race detector between {pair}",
                          dict(detail, report=b[:5000]))
    bump(res, "race_reports", nrep)
    if r.crashed():
        add_violation(res, {"kind": "crash"}, "crash under race binary", dict(detail, stderr=r.err[-3000:]))
    return res


# ==========================================================================================
# (r) reader formats: every record reader (and every decompressing path) has its own batching goroutine; monitor a draws
#     only dkvp / json / csv input. Here each reader gets inputs that span many batches, the chain is the identity, and the
#     output must (1) equal the generator's own record list, id by id, field by field - so a record lost, repeated or
#     overwritten at a batch hand-over is seen even when every batch size shows the same damage - and (2) be byte-identical
#     at every batch size; the same commands run under the race detector (a reader that goes on writing into a batch it has
#     already handed downstream is a data race whichever way the timing falls).  Added after seeded change C04r3-a.

READER_FORMATS = ["dkvp", "nidx", "csv", "csvlite", "tsv", "json", "jsonl", "xtab", "pprint", "markdown",
                  "dkvp-gz", "dkvp-bz2", "dkvp-z", "csv-gz", "xtab-gz", "json-gz"]


def _reader_text(fmt, recs):
    """rectangular records with simple non-empty values -> (input bytes, main flags, expected records)."""
    base = fmt.split("-")[0]
    hdr = [k for k, _ in recs[0]] if recs else []
    rows = [[v for _, v in r] for r in recs]
    exp = recs
    if base == "dkvp":
        text, flags = gen.dkvp(recs), ["--idkvp"]
    elif base == "nidx":
        text, flags = "".join(" ".join(r) + "\n" for r in rows), ["--inidx", "--ifs", " "]
        exp = [[(str(j + 1), v) for j, v in enumerate(r)] for r in rows]
    elif base in ("csv", "csvlite"):
        text, flags = (",".join(hdr) + "\n" + "".join(",".join(r) + "\n" for r in rows) if recs else ""), ["--i" + base]
    elif base == "tsv":
        text, flags = ("\t".join(hdr) + "\n" + "".join("\t".join(r) + "\n" for r in rows) if recs else ""), ["--itsv"]
    elif base == "json":
        text, flags = (gen.json_text(recs, as_strings=True) if recs else ""), ["--ijson"]
    elif base == "jsonl":
        import json
        text = "".join("{" + ", ".join(json.dumps(k) + ": " + json.dumps(v) for k, v in r) + "}\n" for r in recs)
        flags = ["--ijsonl"]
    elif base == "xtab":
        text, flags = "\n".join("".join(f"{k} {v}\n" for k, v in r) for r in recs), ["--ixtab"]
    elif base == "pprint":
        text, flags = (" ".join(hdr) + "\n" + "".join(" ".join(r) + "\n" for r in rows) if recs else ""), ["--ipprint"]
    elif base == "markdown":
        text = ("| " + " | ".join(hdr) + " |\n| " + " | ".join("---" for _ in hdr) + " |\n" +
                "".join("| " + " | ".join(r) + " |\n" for r in rows)) if recs else ""
        flags = ["--imd"]
    data = text.encode()
    name = "in." + base
    if fmt.endswith("-gz"):
        import gzip
        data, flags, name = gzip.compress(data), ["--gzin"] + flags, name + ".gz"
    elif fmt.endswith("-bz2"):
        import bz2
        data, flags, name = bz2.compress(data), ["--bz2in"] + flags, name + ".bz2"
    elif fmt.endswith("-z"):
        import zlib
        data, flags, name = zlib.compress(data), ["--zin"] + flags, name + ".z"
    return data, flags, name, exp


def reader_case(case):
    rng = random.Random(case["seed"])
    fmt, n, race = case["fmt"], case["n"], case.get("race", False)
    res = case_result(_h("r", fmt, n, race, case["seed"]), nontrivial=n > 500)
    recs = []
    for j in range(n):
        recs.append([("id", f"r{j + 1}"), ("a", rng.choice(gen.A_POOL)), ("i", str(rng.randint(-20, 60))),
                     ("x", f"{rng.uniform(-5, 5):.4f}"), ("s", rng.choice(["u", "vv", "www", "0x1F", "q-r"]))])
    data, iflags, name, exp = _reader_text(fmt, recs)
    want = gen.dkvp(exp).encode()
    nfiles = case.get("nfiles", 1)
    compressed = "-" in fmt
    use_stdin = (not compressed) and nfiles == 1 and rng.random() < 0.5
    if nfiles == 2:
        # the same file twice: reader state must be rebuilt per file; expected = the list twice
        files = {name: data, "again-" + name: data}
        want = want + want
        if fmt.startswith(("csv", "tsv", "pprint", "markdown")):
            pass    # same header in both files: one output stream in dkvp, nothing else changes
    else:
        files = {name: data}
    bss = case["bs"]
    ref = None
    for b in bss:
        vflags = ["--records-per-batch", str(b)] if b else []
        argv = vflags + iflags + ["--odkvp", "cat"] + ([] if use_stdin else sorted(files, key=lambda s: s.startswith("again-")))
        env = {"MLR_VERIF_SCHED": case["sched"]} if case.get("sched") else {}
        if use_stdin:
            r = R.mlr(argv, stdin=data, env=env, binary="mlr-race" if race else "mlr-verif", cpu_s=120 if race else 30, watchdog=240 if race else 90)
        else:
            r = R.mlr(argv, files=files, env=env, binary="mlr-race" if race else "mlr-verif", cpu_s=120 if race else 30, watchdog=240 if race else 90)
        bump(res, "runs")
        bump(res, "reader:" + fmt)
        detail = {"argv": argv, "format": fmt, "n_records": n, "batch": b, "stdin_used": use_stdin, "binary": "mlr-race" if race else "mlr-verif",
                  "input_head": data[:600].decode("utf-8", "replace") if not compressed else f"<{len(data)} compressed bytes; regenerate from the case seed>",
                  "env": env}
        if _hang_violation(res, r, argv, f"reader {fmt} batch {b}", detail):
            continue
        if r.verdict != "exited":
            res["inconc"] += 1
            continue
        if race:
            bump(res, "race_executions")
            for rep in (r.race_reports or []):
                for blk in rep.split("WARNING: DATA RACE")[1:]:
                    if "github.com/johnkerl/miller" not in blk:
                        continue
                    import re
                    top = []
                    for part in re.split(r"\n\s*\n", blk):
                        m = re.search(r"^\s+(github\.com/johnkerl/miller/v6/\S+?)\(", part, re.M)
                        if m and ("Read at" in part or "Write at" in part or "Previous" in part):
                            top.append(m.group(1).replace("github.com/johnkerl/miller/v6/pkg/", ""))
                    pair = "|".join(sorted(set(top[:2])))
                    bump(res, "race_reports")
                    add_violation(res, {"kind": "data-race", "pair": pair, "reader": fmt.split("-")[0]},
                                  f"data race reported by the race detector in the {fmt} reader path between {pair}", dict(detail, report=blk[:5000]))
        if r.crashed():
            add_violation(res, {"kind": "crash", "reader": fmt}, f"reader {fmt}, batch {b}: crash trace", dict(detail, stderr=r.err[-3000:]))
            continue
        if r.rc != 0:
            add_violation(res, {"kind": "reader-exit", "reader": fmt}, f"reader {fmt}, batch {b}: exit {r.rc} on well-formed input: {r.err.strip()[:200]}",
                          dict(detail, stderr=r.err[-2000:]))
            continue
        if r.stdout != want:
            got, expl = r.stdout.split(b"\n"), want.split(b"\n")
            p_ = 0
            while p_ < len(got) and p_ < len(expl) and got[p_] == expl[p_]:
                p_ += 1
            ids = [l.split(b",", 1)[0] for l in got if l]
            add_violation(res, {"kind": "reader-records", "reader": fmt.split("-")[0]},
                          f"reader {fmt}, --records-per-batch {b or 'default'}, {n} records: output is not the input's record list: {len(got) - 1} lines "
                          f"({len(set(ids))} distinct ids) for {len(expl) - 1} expected; first difference at record {p_ + 1}: "
                          f"got {got[p_][:70] if p_ < len(got) else b'<eof>'!r}, expected {expl[p_][:70] if p_ < len(expl) else b'<eof>'!r}",
                          dict(detail, got_around=[x.decode("utf-8", "replace") for x in got[max(0, p_ - 2): p_ + 4]],
                               expected_around=[x.decode("utf-8", "replace") for x in expl[max(0, p_ - 2): p_ + 4]]))
            continue
        bump(res, "reader_outputs_equal_to_generated_list")
        if ref is None:
            ref = r.stdout
    res["sample"] = {"monitor": "r", "format": fmt, "n_records": n, "batches": bss, "race": race}
    return res


WRITER_FLAGS = {
    "dkvp": ["--odkvp"], "nidx": ["--onidx"], "csv": ["--ocsv"], "csvlite": ["--ocsvlite"], "tsv": ["--otsv"], "json": ["--ojson"],
    "json-jvstack-off": ["--ojson", "--no-jvstack"], "jsonl": ["--ojsonl"], "xtab": ["--oxtab"], "pprint": ["--opprint"],
    "pprint-barred": ["--opprint", "--barred"], "pprint-right": ["--opprint", "--right"], "markdown": ["--omd"], "yaml": ["--oyaml"],
    "csv-quote-all": ["--ocsv", "--quote-all"], "csv-headerless": ["--ocsv", "--headerless-csv-output"], "dkvp-ofmt": ["--odkvp", "--ofmt", "%.3lf"],
}


def writer_case(case):
    """The writer side of monitor r: one stream of n records (a schema change in the middle for the formats that print a new
    header block) through every record writer; stdout must be byte-identical at every batch size, must contain every id
    exactly once in input order, and the same commands run under the race detector."""
    rng = random.Random(case["seed"])
    fmt, n, race = case["fmt"], case["n"], case.get("race", False)
    res = case_result(_h("rw", fmt, n, race, case["seed"]), nontrivial=n > 500)
    recs = []
    for j in range(n):
        r = [("id", f"r{j + 1}"), ("a", rng.choice(gen.A_POOL)), ("i", str(rng.randint(-20, 60))), ("x", f"{rng.uniform(-5, 5):.4f}")]
        if case.get("schema_change") and j >= n // 2:
            r.append(("extra", rng.choice(["u", "vv"])))
        recs.append(r)
    data = gen.dkvp(recs).encode()
    oflags = WRITER_FLAGS[fmt]
    ref = None
    binary = "mlr-race" if race else "mlr-verif"
    for b in case["bs"]:
        vflags = ["--records-per-batch", str(b)] if b else []
        argv = vflags + ["--idkvp"] + oflags + ["cat"]
        env = {"MLR_VERIF_SCHED": case["sched"]} if case.get("sched") else {}
        r = R.mlr(argv, stdin=data, env=env, binary=binary, cpu_s=120 if race else 30, watchdog=240 if race else 90)
        bump(res, "runs")
        bump(res, "writer:" + fmt)
        detail = {"argv": argv, "writer": fmt, "n_records": n, "batch": b, "binary": binary, "env": env, "input_head": data[:400].decode(),
                  "schema_change_at_record": n // 2 + 1 if case.get("schema_change") else None}
        if _hang_violation(res, r, argv, f"writer {fmt} batch {b}", detail):
            continue
        if r.verdict != "exited":
            res["inconc"] += 1
            continue
        if race:
            bump(res, "race_executions")
            for rep in (r.race_reports or []):
                for blk in rep.split("WARNING: DATA RACE")[1:]:
                    if "github.com/johnkerl/miller" not in blk:
                        continue
                    import re
                    top = []
                    for part in re.split(r"\n\s*\n", blk):
                        m = re.search(r"^\s+(github\.com/johnkerl/miller/v6/\S+?)\(", part, re.M)
                        if m and ("Read at" in part or "Write at" in part or "Previous" in part):
                            top.append(m.group(1).replace("github.com/johnkerl/miller/v6/pkg/", ""))
                    pair = "|".join(sorted(set(top[:2])))
                    bump(res, "race_reports")
                    add_violation(res, {"kind": "data-race", "pair": pair, "writer": fmt},
                                  f"data race reported by the race detector in the {fmt} writer path between {pair}", dict(detail, report=blk[:5000]))
        if r.crashed():
            add_violation(res, {"kind": "crash", "writer": fmt}, f"writer {fmt}, batch {b}: crash trace", dict(detail, stderr=r.err[-3000:]))
            continue
        if r.rc != 0:
            add_violation(res, {"kind": "writer-exit", "writer": fmt}, f"writer {fmt}, batch {b}: exit {r.rc} on a valid stream: {r.err.strip()[:200]}",
                          dict(detail, stderr=r.err[-2000:]))
            continue
        # every id exactly once, in input order (ids are delimited by a non-digit in every format)
        import re
        ids = [int(x) for x in re.findall(rb"\br(\d+)\b", r.stdout)]
        if ids != list(range(1, n + 1)):
            p_ = 0
            while p_ < len(ids) and p_ < n and ids[p_] == p_ + 1:
                p_ += 1
            add_violation(res, {"kind": "writer-records", "writer": fmt},
                          f"writer {fmt}, --records-per-batch {b or 'default'}: the ids in the output are not r1..r{n} once each in order: {len(ids)} ids, "
                          f"{len(set(ids))} distinct, first deviation at position {p_ + 1} (got {ids[p_] if p_ < len(ids) else '<eof>'})",
                          dict(detail, stdout_head=r.stdout[:1500].decode("utf-8", "replace")))
            continue
        if ref is None:
            ref = (b, r.stdout)
            bump(res, "writer_outputs_complete")
        elif r.stdout != ref[1]:
            add_violation(res, {"kind": "writer-batch-dependent", "writer": fmt},
                          f"writer {fmt}: stdout at --records-per-batch {b or 'default'} differs from --records-per-batch {ref[0] or 'default'} ({len(r.stdout)} vs {len(ref[1])} bytes)",
                          dict(detail, ref_batch=ref[0]))
        else:
            bump(res, "writer_outputs_identical_across_batch_sizes")
    res["sample"] = {"monitor": "r/writers", "format": fmt, "n_records": n, "batches": case["bs"], "race": race}
    return res


def writer_cases(chk):
    rng = chk.rng("writers")
    q = chk.quick()
    cases = []
    for fmt in WRITER_FLAGS:
        sc = fmt in ("csvlite", "pprint", "pprint-barred", "pprint-right", "xtab", "json", "jsonl", "dkvp", "markdown", "yaml", "json-jvstack-off", "dkvp-ofmt")
        for n in ([1003, 2501] if q else [1, 499, 500, 501, 1003, 2501, 20011]):
            cases.append({"seed": f"{chk.seed}/rw/{fmt}/{n}", "fmt": fmt, "n": n, "bs": [0, 1, 7, 100] if n <= 2600 else [0, 100, 1000],
                          "schema_change": sc and n > 2})
        cases.append({"seed": f"{chk.seed}/rw-race/{fmt}", "fmt": fmt, "n": 2501, "bs": [7, 0] if q else [7, 100, 0], "race": True, "schema_change": sc,
                      "sched": rng.choice(["", f"{rng.randint(1, 10**6)}:300"])})
    return cases


def reader_cases(chk):
    rng = chk.rng("readers")
    q = chk.quick()
    cases = []
    for fmt in READER_FORMATS:
        ns = [rng.choice([499, 500, 501]), rng.choice([1003, 2501]), 6100] if q else [0, 1, 499, 500, 501, 1003, 2501, 6100, 20011]
        for n in ns:
            if n > 7000 and fmt in ("pprint", "markdown"):
                pass
            bs = [0, 1, 7, 100] if n <= 2600 else [0, 100, 1000]
            cases.append({"seed": f"{chk.seed}/r/{fmt}/{n}", "fmt": fmt, "n": n, "bs": bs, "nfiles": 2 if (n in (501, 1003)) else 1})
        # race detector: several batches in flight at once (small batches, multi-thousand records) and the default batch size
        for n, bs in ([(2501, [7, 0])] if q else [(2501, [7, 100, 0]), (20011, [100, 0])]):
            cases.append({"seed": f"{chk.seed}/r-race/{fmt}/{n}", "fmt": fmt, "n": n, "bs": bs, "race": True,
                          "sched": rng.choice(["", f"{rng.randint(1, 10**6)}:300"])})
    return cases


# ==========================================================================================
# (f) function twins: the same builtin used with different constant arguments in two chained puts
#     (added after seeded change C16r2-b: a package-level "most recent format -> formatter" cache in the strftime helpers).
#     Each verb of a chain runs in its own goroutine, so any process-global state inside a builtin (a cache of the last
#     compiled format / regex / time zone) is shared by the two puts.  Two observations per function: the race detector
#     on the chained run over ~150 batches, and a differential of the chained run against one-batch runs
#     (where the puts cannot interleave).

FUNC_ARGS = {   # class -> (field argument, [constant argument sets A, B] for the 2nd/3rd positions)
    "time": ("$t", [['"%Y-%m-%d"', '"Asia/Tokyo"'], ['"%H:%M:%S"', '"America/Sao_Paulo"']]),
    "string": ("$s", [['"e"', '"X"'], ['"[a-n]"', '"<&>"']]),
    "conversion": ("$s", [['"%08.3lf"', '";"'], ['"%d"', '"e"']]),
    "hashing": ("$s", [['1', '2'], ['3', '4']]),
    "math": ("$x", [['3', '7'], ['2', '5']]),
    "arithmetic": ("$i", [['3', '7'], ['2', '5']]),
    "boolean": ("$i", [['3', '7'], ['2', '5']]),
    "typing": ("$s", [['"a"', '"b"'], ['"c"', '"d"']]),
    "collections": ("splitax($s, \"e\")", [['"e"', '"X"'], ['";"', '"Y"']]),
    "stats": ("splitax($s, \"e\")", [['25', '{}'], ['75', '{"interpolate_linearly": true}']]),
}
FUNC_SKIP = {"system", "exec", "os_type", "hostname", "version", "urand", "urandint", "urand32", "urandrange", "urandelement",
             "systime", "systimeint", "sysntime", "uptime", "strfntime_local", "unformat", "unformatx"}


def func_twin_input(n):
    rng = random.Random("c04-f-input")
    lines = []
    for k in range(n):
        lines.append(f"id=r{k+1},t={1500000000 + k * 86400 * 3 + rng.randint(0, 86399)},i={rng.randint(-50, 500)},"
                     f"x={rng.uniform(-5, 5):.4f},s={rng.choice(['pane', 'eks;wye', 'zee e', 'hat;cat;bat', 'Delta', 'tree'])}{k % 7}")
    return "\n".join(lines) + "\n"


def func_case(case):
    name, arity, cls = case["name"], case["arity"], case["cls"]
    field, consts = FUNC_ARGS[cls]
    res = case_result(_h("f", name, arity), nontrivial=True)
    calls = []
    for cset in consts:
        args = ([field] + cset)[:arity]
        calls.append(f"{name}({', '.join(args)})")
    inp = func_twin_input(case["n"])
    chain = ["put", "-q", f"$y = {calls[0]}; emit $*", "then", "put", f"$z = {calls[1]}", "then", "put", f"$w = {calls[0]}"]
    out = ["--ojson", "--jvquoteall"]
    detail = {"argv": ["--records-per-batch", "2"] + out + chain, "stdin": inp[:3000] + "...(regenerate: func_twin_input)", "function": name}
    res["sample"] = {"monitor": "f", "function": name, "arity": arity, "calls": calls}
    ref = R.mlr(["--records-per-batch", "100000"] + out + chain, stdin=inp, binary="mlr-verif", cpu_s=60, watchdog=120)
    bump(res, "func_twin_runs")
    if _hang_violation(res, ref, chain, "function twin (one batch)", detail):
        return res
    if ref.crashed():
        add_violation(res, {"kind": "crash", "function": name}, f"crash in chained puts using {name}", dict(detail, stderr=ref.err[-3000:]))
        return res
    for binary, rpb in (("mlr-race", "2"), ("mlr-verif", "3"), ("mlr-verif", "1")):
        r = R.mlr(["--records-per-batch", rpb] + out + chain, stdin=inp, binary=binary, cpu_s=120, watchdog=240)
        bump(res, "func_twin_runs")
        if _hang_violation(res, r, chain, "function twin", detail):
            return res
        if r.crashed():
            add_violation(res, {"kind": "crash", "function": name}, f"crash in chained puts using {name} (batch size {rpb})", dict(detail, stderr=r.err[-3000:]))
            return res
        if (r.rc, r.stdout) != (ref.rc, ref.stdout):
            a, b = r.out.splitlines(), ref.out.splitlines()
            first = next((i for i, (u, v) in enumerate(zip(a, b)) if u != v), min(len(a), len(b)))
            add_violation(res, {"kind": "stdout-differs", "where": "function-twins", "function": name},
                          f"two chained puts using {name} with different constant arguments: output with batch size {rpb} ({binary}) differs "
                          f"from the one-batch run at line {first+1}: {a[first][:120] if first < len(a) else None!r} vs {b[first][:120] if first < len(b) else None!r}",
                          dict(detail, rpb=rpb, binary=binary))
            return res
        if binary == "mlr-race":
            nrep = 0
            for rep in (r.race_reports or []):
                for blk in rep.split("WARNING: DATA RACE")[1:]:
                    if "github.com/johnkerl/miller" not in blk:
                        continue
                    nrep += 1
                    import re
                    top = re.findall(r"^\s+(github\.com/johnkerl/miller/v6/\S+?)\(", blk, re.M)[:1]
                    pair = "|".join(t.replace("github.com/johnkerl/miller/v6/pkg/", "") for t in top)
                    add_violation(res, {"kind": "data-race", "pair": pair, "where": "function-twins"},
                                  f"data race reported between two chained puts using {name} ({pair})", dict(detail, report=blk[:5000]))
            bump(res, "race_reports", nrep)
            bump(res, "race_executions")
    if ref.rc == 0:
        bump(res, "func_twins_evaluated_without_error")
    return res


def func_cases(chk):
    r = R.mlr(["help", "usage-functions-by-class"], binary="mlr-verif")
    import re
    cases = []
    for line in r.out.splitlines():
        m = re.match(r"^([A-Za-z_][A-Za-z0-9_]*)\s+\(class=(\S+) #args=([^)]+)\)", line)
        if not m:
            continue
        name, cls, args = m.groups()
        if name in FUNC_SKIP or cls not in FUNC_ARGS:
            continue
        ars = [1, 2, 3] if args == "variadic" else [int(a) for a in args.split(",") if a.strip().isdigit()]
        ars = [a for a in ars if 1 <= a <= 3]
        if not ars:
            continue
        for a in (ars if not chk.quick() else ars[-1:]):
            cases.append({"name": name, "arity": a, "cls": cls, "n": 300 if chk.quick() else 1500})
    return cases


# ==========================================================================================
# (e) streaming monitor

STREAM_VERBS = [
    (["cat"], lambda r: [r]),
    (["put", "$z = 1"], lambda r: [[kv for kv in r if kv[0] != "z"] + [("z", "1")] if not any(k == "z" for k, _ in r) else [(k, "1" if k == "z" else v) for k, v in r]]),
    (["filter", 'true'], lambda r: [r]),
    (["cut", "-x", "-f", "b"], lambda r: [[kv for kv in r if kv[0] != "b"]]),
    (["rename", "a,A"], lambda r: [[("A" if k == "a" else k, v) for k, v in r]]),
    (["reorder", "-e", "-f", "id"], lambda r: [[kv for kv in r if kv[0] != "id"] + [kv for kv in r if kv[0] == "id"]]),
    (["regularize"], lambda r: [r]),
    (["fill-empty", "-v", "E"], lambda r: [[(k, v if v != "" else "E") for k, v in r]]),
    (["label", "ID"], lambda r: [[("ID", r[0][1])] + r[1:]]),
    (["head", "-n", "1000"], lambda r: [r]),
    (["tee", "tee.out"], lambda r: [r]),
    (["unsparsify", "-f", "zz"], lambda r: [r + ([] if any(k == "zz" for k, _ in r) else [("zz", "")])]),
    (["sec2gmt", "nosuch"], lambda r: [r]),
    (["nest", "--explode", "--values", "--across-records", "-f", "a", "--nested-fs", ";"], lambda r: [r]),
    (["json-stringify", "-f", "nosuch"], lambda r: [r]),
    (["altkv"], None),   # model-free: only "some output line per input line" is required
    (["put", "-q", "print $id"], "print-id"),
    (["put", "-q", "emit mapsum($*, {})"], lambda r: [r]),
    (["grep", "-v", "NOSUCHTEXT"], lambda r: [r]),
    (["sort-within-records"], lambda r: [sorted(r, key=lambda kv: kv[0])]),
    (["gap", "-n", "1000"], lambda r: [r]),
    (["fill-down", "-f", "a"], None),
    (["step", "-a", "counter", "-f", "i"], None),
    (["cat", "-n"], None),
]


def stream_case(case):
    import random
    seed = case["seed"]
    rng = random.Random(seed)
    L = rng.randint(1, 3)
    picks = [rng.choice(STREAM_VERBS) for _ in range(L)]
    argv = []
    for i, (v, _) in enumerate(picks):
        if i:
            argv.append("then")
        argv += v
    fmt = rng.choice(["dkvp", "dkvp", "nidx", "csv", "tsv", "jsonl"])
    nrec = rng.randint(6, 14)
    recs = gen.records(rng, nrec, ragged=0)
    modelled = all(callable(m) for _, m in picks) and fmt == "dkvp"
    if fmt == "dkvp":
        io = ["--idkvp", "--odkvp"]
        lines = [gen.dkvp([r]) for r in recs]
        header = ""
    elif fmt == "nidx":
        io = ["--inidx", "--ifs", " ", "--ojsonl"]
        lines = [" ".join(v or "_" for _, v in r) + "\n" for r in recs]
        header = ""
    elif fmt == "csv":
        io = ["--icsv", "--ojsonl"]
        header = ",".join(k for k, _ in recs[0]) + "\n"
        lines = [",".join(v for _, v in r) + "\n" for r in recs]
    elif fmt == "tsv":
        io = ["--itsv", "--ojsonl"]
        header = "\t".join(k for k, _ in recs[0]) + "\n"
        lines = ["\t".join(v for _, v in r) + "\n" for r in recs]
    else:
        io = ["--ijsonl", "--ojsonl"]
        header = ""
        lines = [json.dumps(dict(r)) + "\n" for r in recs]
    full = ["--records-per-batch", "1", "--fflush"] + io + argv
    cwd = R.new_scratch()
    meta = R.new_scratch("vfm-")
    env = dict(R.BASE_ENV)
    env["HOME"] = meta
    env["MLR_VERIF_DUMP"] = os.path.join(meta, "dump")
    res = case_result(_h("e", seed), nontrivial=True)
    detail = {"argv": full, "format": fmt, "lines": lines, "header": header}
    res["sample"] = {"monitor": "e", "argv": full, "records_fed_one_at_a_time": nrec}
    sef = open(os.path.join(meta, "stderr"), "wb")
    p = subprocess.Popen([build.binpath("mlr-verif")] + full, stdin=subprocess.PIPE, stdout=subprocess.PIPE,
                         stderr=sef, cwd=cwd, env=env, preexec_fn=R._limits(20, 64 << 20, 4 << 30, 1024))
    os.set_blocking(p.stdout.fileno(), False)
    got = b""
    try:
        if header:
            p.stdin.write(header.encode())
            p.stdin.flush()
        seen_lines = 0
        for idx, line in enumerate(lines):
            p.stdin.write(line.encode())
            p.stdin.flush()
            # wait until: output for this record is readable, or process is quiescent waiting for stdin
            deadline = time.time() + 30
            produced = False
            checks = 0
            while time.time() < deadline:
                rl, _, _ = select.select([p.stdout], [], [], 0.05 if checks == 0 else 0.25)
                if rl:
                    try:
                        chunk = os.read(p.stdout.fileno(), 1 << 16)
                    except BlockingIOError:
                        chunk = b""
                    if chunk:
                        got += chunk
                nl = got.count(b"\n")
                if nl > seen_lines:
                    produced = True
                    break
                if p.poll() is not None:
                    break
                q, dump = hang.quiescent_waiting_for_stdin(p.pid, env["MLR_VERIF_DUMP"])
                checks += 1
                if q is True:
                    # drain once more: output may have landed between select and dump
                    rl, _, _ = select.select([p.stdout], [], [], 0.05)
                    if rl:
                        try:
                            got += os.read(p.stdout.fileno(), 1 << 16)
                        except BlockingIOError:
                            pass
                    if got.count(b"\n") > seen_lines:
                        produced = True
                        break
                    add_violation(res, {"kind": "stream-stall", "verbs": ",".join(v[0][0] for v in picks), "format": fmt},
                                  f"record {idx+1} was fed but mlr is quiescent (all goroutines parked, reader blocked in read(0)) without its output: mlr {' '.join(full)}",
                                  dict(detail, fed=idx + 1, got=got.decode('utf-8', 'replace')[-1000:], dump=(dump or "")[-4000:]))
                    return res
            if p.poll() is not None and not produced:
                add_violation(res, {"kind": "stream-exit", "verbs": ",".join(v[0][0] for v in picks)},
                              f"mlr exited (rc={p.returncode}) while stdin was still open", detail)
                return res
            if not produced:
                res["inconc"] += 1
                return res
            seen_lines = got.count(b"\n")
            bump(res, "records_confirmed_streamed")
        p.stdin.close()
        t_end = time.time() + 30
        while p.poll() is None and time.time() < t_end:
            rl, _, _ = select.select([p.stdout], [], [], 0.2)
            if rl:
                try:
                    chunk = os.read(p.stdout.fileno(), 1 << 16)
                    got += chunk
                except BlockingIOError:
                    pass
        if p.poll() is None:
            res["inconc"] += 1
            return res
        try:
            while True:
                chunk = os.read(p.stdout.fileno(), 1 << 16)
                if not chunk:
                    break
                got += chunk
        except (BlockingIOError, OSError):
            pass
        if p.returncode != 0:
            add_violation(res, {"kind": "stream-fail", "verbs": ",".join(v[0][0] for v in picks)},
                          f"streaming session exits {p.returncode}", detail)
            return res
        if modelled:
            exp = []
            for r in recs:
                cur = [r]
                for _, m in picks:
                    nxt = []
                    for c in cur:
                        nxt += m(c)
                    cur = nxt
                exp += cur
            if gen.parse_dkvp(got.decode()) != exp:
                add_violation(res, {"kind": "stream-output", "verbs": ",".join(v[0][0] for v in picks)},
                              "streamed output differs from the per-record model", dict(detail, got=got.decode()[:2000]))
            else:
                bump(res, "sessions_model_checked")
    finally:
        try:
            p.kill()
        except Exception:
            pass
        p.wait()
        sef.close()
        import shutil
        shutil.rmtree(cwd, ignore_errors=True)
        shutil.rmtree(meta, ignore_errors=True)
    return res


# ==========================================================================================

def run(chk):
    only = getattr(chk, "only", None)
    rng = chk.rng("master")
    q = chk.quick()
    chk.rule = ("a: random verb chains (catalogue of ~90 verb/option templates) x inputs of 0..2501 records in 1-3 files x "
                "configuration variants (batch size, GOMAXPROCS, taskset, --hash-records, perturbation seeds); b: early-exit chains "
                "(head/tee/seqgen/nothing/put -q/failing put) x N around k and batch boundaries x delays at hooked sites; "
                "c: chains with random verbs/functions under --seed x 5 repetitions; d: race-detector stress list x perturbation seeds; "
                "e: one-record-at-a-time streaming sessions; f: every builtin function used with two different constant argument sets in chained puts: "
                "race detector at batch size 2 + differential against the one-batch run; r: every record reader (dkvp, nidx, csv, csvlite, tsv, json, jsonl, "
                "xtab, pprint, markdown) and decompressing path (gz, bz2, zlib) on inputs of 499..6100 (thorough 20011) records: identity chain output equal to "
                "the generator's record list and identical at every batch size, plus the same commands under the race detector; likewise every record writer (17 output "
                "flag sets, schema change mid-stream where the format prints header blocks): ids r1..rn once each in order, bytes identical at every batch size, race detector. Non-trivial = input spans >= 2 batches and chain has >= 2 verbs or an early-exit verb; "
                "distinct = by generator seed of the case")
    if not only or "a" in only:
        n = 110 if q else 1400
        chk.pmap(diff_case, [{"seed": f"{chk.seed}/a/{i}", "tier": chk.tier} for i in range(n)], label="a differential")
    if not only or "a" in only or "a2" in only:
        n = 150 if q else 4000
        chk.pmap(hash_case, [{"seed": f"{chk.seed}/a2/{i}"} for i in range(n)], label="a2 hash-index differential")
    if not only or "b" in only:
        n = 130 if q else 3000
        cases = [{"seed": f"{chk.seed}/b/{i}", "tier": chk.tier} for i in range(n)]
        cases += early_grid(chk)
        chk.pmap(early_case, cases, label="b early-exit")
    if not only or "c" in only:
        n = 20 if q else 200
        chk.pmap(seed_case, [{"seed": f"{chk.seed}/c/{i}", "tier": chk.tier} for i in range(n)], label="c seeded")
    if not only or "d" in only:
        cmds = race_cmds(chk.rng("race"), chk.tier)
        nseeds = 2 if q else 12
        cases = []
        for idx, (argv, inp, files) in enumerate(cmds):
            for s in range(nseeds):
                sched = "" if s == 0 else f"{rng.randint(1, 10**6)}:{[300, 2000][s % 2]}"
                cases.append({"argv": argv, "stdin": inp, "files": files, "sched": sched, "idx": idx})
        chk.pmap(race_case, cases, label="d race")
        if not q:
            regression_corpus_race(chk)
    if not only or "r" in only:
        rc_ = reader_cases(chk)
        chk.extra["r_reader_cases"] = len(rc_)
        chk.pmap(reader_case, rc_, label="r reader formats")
        wc_ = writer_cases(chk)
        chk.extra["r_writer_cases"] = len(wc_)
        chk.pmap(writer_case, wc_, label="r writer formats")
    if not only or "f" in only:
        fc = func_cases(chk)
        chk.extra["f_function_twins"] = len(fc)
        chk.pmap(func_case, fc, label="f function twins")
    if not only or "e" in only:
        n = 40 if q else 500
        chk.pmap(stream_case, [{"seed": f"{chk.seed}/e/{i}"} for i in range(n)], label="e streaming")
    sigs = chk.stats.get("interleaving_signatures", set())
    chk.extra["distinct_interleaving_signatures"] = len(sigs)
    chk.stats.pop("interleaving_signatures", None)
    chk.extra["hook_sites_hit"] = {k[5:]: v for k, v in chk.stats.items() if k.startswith("site:")}
    for k in [k for k in chk.stats if k.startswith("site:")]:
        chk.stats.pop(k)
    chk.assumptions = [
        "schedules are sampled (perturbation seeds, GOMAXPROCS, taskset, forced delays at hooked sites), not enumerated",
        "the race detector generalises over schedules for data races only",
        "a run that is merely slow at the watchdog is inconclusive, never a violation",
        "stdout of failing runs is not compared (the statement fixes only successful runs' output and the failure itself)",
    ]
