"""C10 - aggregating verbs equal first-principles recomputation, group by group.

One reference-model monitor per verb family (DESIGN.md section 3, C10).  Every case generates a
record stream (heterogeneous: 20 % missing fields, empties, ties, int/float mixes, group keys whose
texts differ only in spelling: 1 / 1.0 / 1.00), picks an option set for the verb, runs the real
binary once and recomputes every output cell in Python from the definition in the verb's --help
text.  Exact comparison for counts, order statistics, modes, integer sums/min/max, group order and
membership; relative 1e-9 (plus a conditioning-scaled absolute term) for floating moments, against
an exact-rational reference.

Sub-monitors (./check C10 --only a,b): count cdist csim uniq stats1 stats1rx (regex field selection) stats1w (-w / -s)
merge step top fraction histogram freq filldown dsl (stats functions) pgrid (full percentile grid) proutes (the non-interpolated
index rule through stats1 -s / -w, merge-fields, percentile(), median(), percentiles() oa/ais) slwin (window grid) nulljson
collide (group keys containing the key joiner) docex (examples in `mlr help function`) docreplay (reference-verbs.md)."""
import hashlib
import json
import math
import random
import re
from fractions import Fraction

from .. import gen
from .. import run as R
from ..harness import add_violation, bump, case_result
from ..model import stats as S

BINARIES = ("mlr-verif",)
LEVEL = "exploration"

REL = 1e-9
ABS_COND = 1e-12


def _h(*xs):
    return hashlib.sha1(repr(xs).encode()).hexdigest()[:16]


# ==========================================================================================
# expectations for one output cell

def T(s):
    return ("T", s)


def I(n):
    return ("I", n)


def N(x, scale=0.0):
    """approximately x: |got - x| <= REL*|x| + ABS_COND*scale"""
    return ("N", float(x), float(scale if scale is not None else 0.0))


def E(x):
    """numerically identical as an IEEE double, any formatting"""
    return ("E", float(x))


ANY = ("A",)
# The exact value is outside the model (undocumented or ill-defined: no data, 0/0, x/0, arithmetic on text, ints beyond 2^53 in
# float moments), but the cell must still be a number (NaN/Inf included), empty, or Miller's error value - never other text.
WEAK = ("W",)


def ONEOF(texts):
    return ("O", list(texts))


_INT_RE = re.compile(r"-?[0-9]+\Z")


def _to_float(text):
    try:
        if text.lower().startswith(("0x", "-0x")):
            return float(int(text, 16))
        return float(text)
    except ValueError:
        return None


def cell_ok(exp, got):
    """True / False; None when the oracle declined."""
    k = exp[0]
    if k == "A":
        return None
    if k == "T":
        return got == exp[1]
    if k == "W":
        return got in ("", "(error)") or _to_float(got) is not None
    if k == "ALT":
        rs = [cell_ok(x, got) for x in exp[1]]
        return True if any(r is True for r in rs) else (None if any(r is None for r in rs) else False)
    if k == "O":
        return got in exp[1]
    if k == "I":
        if re.match(r"0x[0-9a-fA-F]+\Z", got):
            return int(got, 16) == exp[1]      # an input element returned with its original spelling
        return bool(_INT_RE.match(got)) and int(got) == exp[1]
    if k == "E":
        g = _to_float(got)
        return g is not None and g == exp[1]
    if k == "N":
        g = _to_float(got)
        if g is None or g != g:
            return False
        x, scale = exp[1], exp[2]
        if math.isinf(x) or math.isinf(g):
            return x == g
        return abs(g - x) <= REL * abs(x) + ABS_COND * max(scale, 0.0) + 5e-324
    raise AssertionError(exp)


def exp_repr(exp):
    k = exp[0]
    if k == "A":
        return "<declined>"
    if k == "W":
        return "<a number, empty or (error)>"
    if k == "ALT":
        return " or ".join(exp_repr(x) for x in exp[1])
    if k == "T":
        return exp[1]
    if k == "O":
        return "one of " + "|".join(exp[1])
    if k == "I":
        return f"{exp[1]} (int)"
    if k == "E":
        return f"{exp[1]!r} (exact double)"
    return f"{exp[1]!r} (+-1e-9 rel)"


def compare(res, verb, detail, got, exp, sig_extra=None, cell_class=None, what_prefix="", loose_order=False, rec_sig=None):
    """got: list of records (list of (k, text)); exp: list of records (list of (k, Exp)).
    cell_class(key) -> short class name used in the violation signature (accumulator, stepper ...).
    loose_order: the order of fields inside a record is not part of the property (only used where the
    documentation does not fix it); field names must be unique then.
    rec_sig(record_index, key or None) -> dict merged into the signature of a violation found at that record / cell
    (properties of the WITNESS, e.g. whether the failing record's own group has a gap) - known findings are matched on it.
    Every record and every cell is judged: a mismatch does not end the comparison (so that nothing hides behind a known
    finding); one violation is recorded per distinct signature and compare call."""
    sig_extra = sig_extra or {}
    nchecked = 0
    if len(got) != len(exp):
        add_violation(res, dict({"verb": verb, "kind": "nrecords"}, **sig_extra),
                      f"{what_prefix}{verb}: {len(got)} output records, {len(exp)} expected from recomputation",
                      dict(detail, expected=[[(k, exp_repr(e)) for k, e in r] for r in exp][:40], got=got[:40]))
        return 0
    seen = set()

    def report(sig, what, det):
        key = json.dumps(sig, sort_keys=True, default=str)
        if key in seen:
            bump(res, "further_mismatches_same_signature")
            return
        seen.add(key)
        add_violation(res, sig, what, det)

    for ri, (g, e) in enumerate(zip(got, exp)):
        gk = [k for k, _ in g]
        ek = [k for k, _ in e]
        if loose_order and gk != ek and sorted(gk) == sorted(ek) and len(set(gk)) == len(gk):
            bump(res, "records_with_undocumented_field_order")
            gd = dict(g)
            g = [(k, gd[k]) for k in ek]
            gk = ek
        if gk != ek:
            sig = dict({"verb": verb, "kind": "keys"}, **sig_extra)
            if rec_sig:
                sig.update(rec_sig(ri, None))
            report(sig, f"{what_prefix}{verb}: output record {ri+1} has fields {gk}, expected {ek}",
                   dict(detail, record_index=ri, expected=[(k, exp_repr(x)) for k, x in e], got=g))
            # still judge the cells both sides have (first occurrence of each name)
            gd = {}
            for k, v in g:
                gd.setdefault(k, v)
            pairs = [((k, gd[k]), (k, ev)) for k, ev in e if k in gd]
        else:
            pairs = list(zip(g, e))
        for (k, gv), (_, ev) in pairs:
            ok = cell_ok(ev, gv)
            if ok is None:
                bump(res, "cells_declined")
                continue
            nchecked += 1
            if ev[0] == "W":
                bump(res, "cells_checked_weakly")
            if not ok:
                cls = cell_class(k) if cell_class else k
                sig = dict({"verb": verb, "kind": "value", "cell": cls}, **sig_extra)
                if rec_sig:
                    sig.update(rec_sig(ri, k))
                report(sig, f"{what_prefix}{verb}: record {ri+1} field {k}: got {gv!r}, recomputed {exp_repr(ev)}",
                       dict(detail, record_index=ri, field=k, expected=exp_repr(ev), got=gv, got_record=g))
    bump(res, "cells_checked", nchecked)
    return nchecked


# ==========================================================================================
# record streams

A_POOL = ["pan", "eks", "wye", "zee", "hat", "1", "1.0", "1.00", "", "Pan", "pan ", "p.q", "-", "0x1"]
B_POOL = ["x", "y", "", "0"]
# -2^63 is left out on purpose: -2^63 + -2^63 and x - (-2^63) wrap instead of going to float, which is C07's finding
# (arithmetic), not an aggregation defect; overflow-to-float of sums is still exercised through 2^62 + 2^62 and (2^63-1) + 1
BIG_INTS = [2 ** 53 + 1, 2 ** 62, -(2 ** 62), 2 ** 63 - 1, 4611686018427387904, 123456789012345678,
            -(2 ** 63) + 1, 9007199254740993, 3037000500]
TEXTS = ["abc", "hello", "año", "Z", "x y", "zzz", "Abc", "ünï", "日本語"]


def gen_int(rng, big=False):
    if big and rng.random() < 0.3:
        return str(rng.choice(BIG_INTS))
    return str(rng.choice([rng.randint(-20, 60), rng.randint(0, 6)]))


def gen_float(rng):
    r = rng.random()
    if r < 0.15:
        return rng.choice(["1.5", "1.50", "2.0", "2.00", "-0.5", "0.0"])
    d = rng.choice([1, 2, 3, 4])
    return f"{rng.uniform(-50, 50):.{d}f}"


def gen_value(rng, profile):
    """profiles: int, bigint, float, mixed, mixed_empty, text, hexint"""
    if profile == "int":
        return gen_int(rng)
    if profile == "bigint":
        return gen_int(rng, big=True)
    if profile == "float":
        return gen_float(rng)
    if profile == "spfloat":
        # the float spellings beyond fixed-point: exponent, leading / trailing decimal point
        r = rng.random()
        if r < 0.45:
            return gen_float(rng)
        if r < 0.6:
            return gen_int(rng)
        return rng.choice(["5.", ".5", "-.5", "1e3", "1.5E-2", "2.5e1", "-3.e0", "12.", "1e0", "25e-1", ".25", "4.0e+1", "-7.5E1"])
    if profile == "posfloat":
        return f"{rng.uniform(0.1, 50):.{rng.choice([1, 2, 3])}f}"
    if profile == "mixed":
        return gen_int(rng) if rng.random() < 0.5 else gen_float(rng)
    if profile == "mixed_empty":
        if rng.random() < 0.15:
            return ""
        return gen_int(rng) if rng.random() < 0.5 else gen_float(rng)
    if profile == "hexint":
        return rng.choice([gen_int(rng), "0x" + format(rng.randint(0, 255), "x"), "0x" + format(rng.randint(0, 255), "X")])
    if profile == "text":
        r = rng.random()
        if r < 0.15:
            return ""
        if r < 0.55:
            return rng.choice(TEXTS)
        return gen_int(rng) if rng.random() < 0.5 else gen_float(rng)
    raise AssertionError(profile)


WIDE = [(f"w{j:02d}", str(j)) for j in range(1, 13)]


def make_stream(rng, n, profiles, na=None, nb=None, missing=0.2, extra=False, wide=None):
    """profiles: dict field -> profile.  Fields: id, a, b, then value fields in dict order.
    wide: 12 constant filler fields w01..w12 (right after id, or at the end) so that records reach the width at which
    Miller switches to indexed field lookup (>= 12 fields); None = in 12 % of the streams."""
    na = na if na is not None else rng.randint(1, 14)
    nb = nb if nb is not None else rng.randint(1, 4)
    apool = rng.sample(A_POOL, na)
    bpool = rng.sample(B_POOL, nb)
    if wide is None:
        wide = rng.random() < 0.12
    wide_front = rng.random() < 0.5
    recs = []
    for i in range(n):
        rec = [("id", f"r{i+1}")]
        if wide and wide_front:
            rec += WIDE
        if rng.random() >= missing:
            rec.append(("a", rng.choice(apool)))
        if rng.random() >= missing:
            rec.append(("b", rng.choice(bpool)))
        for f, prof in profiles.items():
            if rng.random() >= missing:
                rec.append((f, gen_value(rng, prof)))
        if extra and rng.random() < 0.2:
            rec.append((rng.choice(["p", "q"]), rng.choice(["u", "3"])))
        if wide and not wide_front:
            rec += WIDE
        recs.append(rec)
    return recs


def pick_n(rng, tier):
    r = rng.random()
    if r < 0.03:
        return rng.choice([499, 500, 501, 502, 1003])      # around / beyond the 500-record batch
    if r < 0.06:
        return 0
    if r < 0.10:
        return rng.randint(1, 3)
    if r < 0.75:
        return rng.randint(4, 40)
    if r < 0.95:
        return rng.randint(41, 120)
    return rng.randint(121, 300)


def gkey(rec, fields):
    d = dict(rec)
    out = []
    for f in fields:
        if f not in d:
            return None
        out.append(d[f])
    return tuple(out)


def stream_traits(recs, gfields, vfields):
    """ngroups, records skipped for a missing group-by/value field, tie or mixed int/float column."""
    groups = {}
    skipped = 0
    for r in recs:
        k = gkey(r, gfields) if gfields else ()
        d = dict(r)
        if k is None or any(f not in d for f in vfields):
            skipped += 1
        if k is not None:
            groups[k] = groups.get(k, 0) + 1
    tie = any(c >= 2 for c in groups.values()) if not vfields else False
    mixed = False
    for f in vfields:
        vals = [dict(r)[f] for r in recs if f in dict(r)]
        if len(set(vals)) < len(vals):
            tie = True
        kinds = set()
        for v in vals:
            try:
                p = S.parse(v)
            except ValueError:
                p = None
            if p is not None:
                kinds.add(p.kind)
        if len(kinds) == 2:
            mixed = True
    return len(groups), skipped, (tie or mixed)


def nontrivial(recs, gfields, vfields):
    ng, sk, tm = stream_traits(recs, gfields, vfields)
    return ng >= 2 and sk >= 1 and tm


def run_mlr(res, argv, recs, verb, stdin_text=None):
    """Runs mlr on the DKVP stream; returns (parsed output records, detail) or (None, detail) after
    recording inconclusive / failure."""
    stdin = gen.dkvp(recs) if stdin_text is None else stdin_text
    # Reader batch size: a pure function of the case (hash of command and input).  A third of the runs use a small batch so
    # that groups, windows and end-of-stream flushes span many batches; the default (500) is crossed by the 499..1003 streams.
    if argv and not argv[0].startswith("-"):
        base = argv[:-3] if list(argv[-3:]) == TYPEOF_PUT else argv      # the typeof re-run uses the same batch size
        hb = int(hashlib.sha1(repr((list(base), len(stdin), stdin[:200])).encode()).hexdigest()[:8], 16)
        b = [None, None, None, None, None, 1, 2, 7, 100][hb % 9]
        if b is not None:
            argv = ["--records-per-batch", str(b)] + list(argv)
            bump(res, "runs_with_small_batches")
    r = R.mlr(argv, stdin=stdin)
    detail = {"argv": argv, "stdin": stdin}
    bump(res, "runs")
    if r.verdict == "slow":
        res["inconc"] += 1
        return None, detail
    if r.verdict != "exited" or r.crashed():
        m = re.search(r"^(panic: .*|fatal error: .*)$", r.err, re.M)
        msg = m.group(1)[:120] if m else ""
        add_violation(res, {"verb": verb, "kind": "crash" if r.crashed() else "hang", "verdict": r.verdict, "panic": msg},
                      f"{verb}: run ended with verdict {r.verdict} rc={r.rc} signal={r.signal} {msg}",
                      dict(detail, stderr=r.err[-3000:]))
        return None, detail
    if r.rc != 0:
        add_violation(res, {"verb": verb, "kind": "rc"},
                      f"{verb}: fault-free in-domain run exits {r.rc}: {r.err[:200]!r}",
                      dict(detail, stderr=r.err[-3000:]))
        return None, detail
    return gen.parse_dkvp(r.out), detail


TYPEOF_PUT = ["then", "put", 'for (k,v in $*) { if (k != "id") { $[k] = typeof(v) } }']


def check_int_types(res, verb, argv, recs, exp, sig_extra, by_id=False, rows=None, stdin_text=None):
    """'sums/min/max of ints stay ints': every cell whose recomputed value is an exact integer (counts, int sums,
    int min/max, counters, ranks ...) must still be of type int inside the chain - observed with typeof() in a following put
    (the printed text cannot tell int 6 from float 6).  A second run of the same command, so that the values themselves are
    judged on the untouched output.  Alignment with the expected rows: by the record's id field (by_id), by the indices `rows`
    of the raw output records that the value comparison used, or one to one."""
    if not any(e[0] == "I" for r in exp for _, e in r):
        return
    got, detail = run_mlr(res, argv + TYPEOF_PUT, recs, verb, stdin_text=stdin_text)
    if got is None:
        return
    if by_id:
        m = {}
        for g in got:
            i = dict(g).get("id")
            if i is not None:
                m[i] = g
        pairs = []
        for e in exp:
            i = next((ev[1] for k, ev in e if k == "id" and ev[0] == "T"), None)
            if i in m:
                pairs.append((m[i], e))
    elif rows is not None:
        if any(i >= len(got) for i in rows) or len(rows) != len(exp):
            return
        pairs = [(got[i], e) for i, e in zip(rows, exp)]
    else:
        if len(got) != len(exp):
            return
        pairs = list(zip(got, exp))
    seen = set()
    for ri, (g, e) in enumerate(pairs):
        gd = dict(g)
        for k, ev in e:
            if ev[0] != "I" or k not in gd:
                continue
            bump(res, "int_type_cells_checked")
            if gd[k] != "int":
                cell = k.split("_", 1)[-1]
                if cell in seen:
                    continue
                seen.add(cell)
                add_violation(res, dict({"verb": verb, "kind": "type", "cell": cell}, **(sig_extra or {})),
                              f"{verb}: record {ri+1} field {k} is an exact integer ({ev[1]}) by recomputation but typeof gives {gd[k]}",
                              dict(detail, record_index=ri, field=k, got_types=g))


def group_sizes(recs, gfields):
    groups = {}
    for r in recs:
        k = gkey(r, gfields)
        if k is None:
            continue
        groups.setdefault(k, []).append(r)
    return groups


def pick_gfields(rng, allow_empty=True):
    c = [["a"], ["a"], ["b"], ["a", "b"], ["b", "a"]]
    if allow_empty:
        c += [[], []]
    return rng.choice(c)


# ==========================================================================================
# count / count-distinct / count-similar / uniq

def count_case(case):
    rng = random.Random(case["seed"])
    n = pick_n(rng, case["tier"])
    recs = make_stream(rng, n, {"x": "int"}, extra=True)
    gf = pick_gfields(rng)
    nflag = bool(gf) and rng.random() < 0.25
    oname = rng.choice(["count", "count", "N", "how_many"])
    argv = ["count"] + (["-g", ",".join(gf)] if gf else []) + (["-n"] if nflag else []) + (["-o", oname] if oname != "count" else [])
    res = case_result(_h("count", case["seed"]), nontrivial(recs, gf, []))
    got, detail = run_mlr(res, argv, recs, "count")
    if got is None:
        return res
    groups = group_sizes(recs, gf)
    if not gf:
        exp = [[(oname, I(len(recs)))]]
    elif nflag:
        exp = [[(oname, I(len(groups)))]]
        if got and got[0] and got[0][0][0] == "count":      # the name used with -n is not documented
            exp = [[("count", I(len(groups)))]]
    else:
        exp = [[(f, T(v)) for f, v in zip(gf, k)] + [(oname, I(len(rs)))] for k, rs in groups.items()]
    compare(res, "count", detail, got, exp, {"opts": "-n" if nflag else ("-g" if gf else "")}, lambda k: "count" if k == oname else "group-field")
    check_int_types(res, "count", argv, recs, [[(k, e) for k, e in r if e[0] == "I"] for r in exp], {"opts": "-n" if nflag else ("-g" if gf else "")})
    res["sample"] = {"monitor": "count", "argv": argv, "n_records": n, "groups": len(groups)}
    return res


def cdist_case(case):
    rng = random.Random(case["seed"])
    n = pick_n(rng, case["tier"])
    recs = make_stream(rng, n, {"x": "int"}, extra=True, wide=False)
    gf = pick_gfields(rng, allow_empty=False)
    mode = rng.choice(["plain", "plain", "-n", "-u", "-x"])
    oname = rng.choice(["count", "count", "N"])
    flag = rng.choice(["-f", "-g"])
    res = case_result(_h("cdist", case["seed"]), nontrivial(recs, gf, []))
    if mode == "-x":
        # -x: "use each record's other fields instead" => key = the (name, value) pairs of the other fields
        xf = rng.choice([["id", "x"], ["id", "x", "p", "q"], ["id", "x", "b"]])
        argv = ["count-distinct", "-x", ",".join(xf)] + (["-o", oname] if oname != "count" else [])
        groups = {}
        for r in recs:
            k = tuple((f, v) for f, v in r if f not in xf)
            groups[k] = groups.get(k, 0) + 1
        exp = [[(f, T(v)) for f, v in k] + [(oname, I(c))] for k, c in groups.items()]
        # a record with no other fields at all: key is empty; whether it is emitted is not documented
        if any(len(k) == 0 for k in groups):
            res["skipped"] += 1
            return res
    else:
        argv = ["count-distinct", flag, ",".join(gf)] + ([mode] if mode in ("-n", "-u") else []) + (["-o", oname] if oname != "count" else [])
        groups = group_sizes(recs, gf)
        if mode == "-n":
            exp = [[("count", I(len(groups)))]]
        elif mode == "-u":
            exp = []
            for f in gf:
                c = {}
                for r in recs:
                    d = dict(r)
                    if f in d:
                        c[d[f]] = c.get(d[f], 0) + 1
                exp += [[("field", T(f)), ("value", T(v)), ("count", I(k))] for v, k in c.items()]
        else:
            exp = [[(f, T(v)) for f, v in zip(gf, k)] + [(oname, I(len(rs)))] for k, rs in groups.items()]
    got, detail = run_mlr(res, argv, recs, "count-distinct")
    if got is None:
        return res
    if mode == "-n" and got and got[0] and got[0][0][0] == oname:
        exp = [[(oname, e) for _, e in exp[0]]]
    sig = {"opts": mode}
    if mode == "-x" and len({",".join(v for _, v in k) for k in groups}) < len(groups):
        sig["cond"] = "same-values-different-field-names"
    compare(res, "count-distinct", detail, got, exp, sig, lambda k: "count" if k in (oname, "count") else "group-field")
    check_int_types(res, "count-distinct", argv, recs, [[(k, e) for k, e in r if e[0] == "I"] for r in exp], sig)
    res["sample"] = {"monitor": "cdist", "argv": argv, "n_records": n}
    return res


def csim_case(case):
    rng = random.Random(case["seed"])
    n = pick_n(rng, case["tier"])
    recs = make_stream(rng, n, {"x": "mixed"}, extra=True)
    gf = pick_gfields(rng, allow_empty=False)
    oname = rng.choice(["count", "count", "sim"])
    argv = ["count-similar", "-g", ",".join(gf)] + (["-o", oname] if oname != "count" else [])
    res = case_result(_h("csim", case["seed"]), nontrivial(recs, gf, []))
    got, detail = run_mlr(res, argv, recs, "count-similar")
    if got is None:
        return res
    groups = group_sizes(recs, gf)
    # records lacking a group-by field: not part of any count; whether they are passed through or dropped
    # is not documented -> drop them from the observed output before comparing (they must be unchanged)
    lacking = {dict(r)["id"]: r for r in recs if gkey(r, gf) is None}
    got2 = []
    for g in got:
        i = dict(g).get("id")
        if i in lacking:
            if g != lacking[i]:
                add_violation(res, {"verb": "count-similar", "kind": "lacking-record-changed"},
                              f"count-similar: record {i} lacks a group-by field but was modified", dict(detail, got=g))
            continue
        got2.append(g)
    exp = []
    for k, rs in groups.items():
        for r in rs:
            exp.append([(f, T(v)) for f, v in r] + [(oname, I(len(rs)))])
    compare(res, "count-similar", detail, got2, exp, {}, lambda k: "count" if k == oname else "passthrough")
    check_int_types(res, "count-similar", argv, recs, [[(k, e) for k, e in r if k == "id" or k == oname] for r in exp], {}, by_id=True)
    res["sample"] = {"monitor": "csim", "argv": argv, "n_records": n, "groups": len(groups)}
    return res


def uniq_case(case):
    rng = random.Random(case["seed"])
    n = pick_n(rng, case["tier"])
    mode = rng.choice(["-g", "-g -c", "-g -n", "-a", "-a -c", "-a -n", "-x", "-x -c"])
    oname = rng.choice(["count", "count", "N"])
    res = case_result(_h("uniq", case["seed"]), False)
    if mode.startswith("-a"):
        # whole-record uniqueness: few distinct records so that repeats happen
        recs0 = make_stream(rng, max(1, n // 3), {"x": "int"}, na=3, nb=2, wide=False)
        base = [[kv for kv in r if kv[0] != "id"] for r in recs0]
        base = [b for b in base if b] or [[("a", "pan")]]
        recs = [list(rng.choice(base)) for _ in range(n)]
        argv = ["uniq", "-a"] + mode.split()[1:]
        groups = {}
        for r in recs:
            groups[tuple(r)] = groups.get(tuple(r), 0) + 1
        if mode == "-a":
            exp = [[(f, T(v)) for f, v in k] for k in groups]
        elif mode == "-a -c":
            exp = [[("count", I(c))] + [(f, T(v)) for f, v in k] for k, c in groups.items()]
        else:
            exp = [[("count", I(len(groups)))]]
        if "-c" in mode and oname != "count":
            argv += ["-o", oname]
            # -o with -a -c: the help gives the name for "output count"; accept either spelling of the key
        res["nontrivial"] = len(groups) >= 2 and any(c >= 2 for c in groups.values()) and len({tuple(k for k, _ in g) for g in groups}) >= 2
        got, detail = run_mlr(res, argv, recs, "uniq")
        if got is None:
            return res
        sig_a = {"opts": mode}
        dehex = lambda v: str(int(v, 16)) if re.match(r"0x[0-9a-fA-F]+\Z", v) else v
        if len({tuple((f, dehex(v)) for f, v in k) for k in groups}) < len(groups):
            sig_a["cond"] = "records-differ-only-in-hex-vs-decimal-spelling"
        if "-c" in mode and oname != "count" and got and got[0] and got[0][0][0] == oname:
            exp = [[(oname, r[0][1])] + r[1:] for r in exp]
        compare(res, "uniq", detail, got, exp, sig_a, lambda k: "count" if k in ("count", oname) else "field")
        check_int_types(res, "uniq", argv, recs, [[(k, e) for k, e in r if e[0] == "I"] for r in exp], sig_a)
        res["sample"] = {"monitor": "uniq", "argv": argv, "n_records": n, "distinct": len(groups)}
        return res
    recs = make_stream(rng, n, {"x": "int"}, extra=True, wide=False)
    if mode.startswith("-x"):
        xf = rng.choice([["id", "x"], ["id", "x", "p", "q"], ["id", "x", "b"]])
        argv = ["uniq", "-x", ",".join(xf)] + mode.split()[1:]
        groups = {}
        for r in recs:
            k = tuple((f, v) for f, v in r if f not in xf)
            groups[k] = groups.get(k, 0) + 1
        if any(len(k) == 0 for k in groups):
            res["skipped"] += 1
            return res
        res["nontrivial"] = len(groups) >= 2 and any(c >= 2 for c in groups.values())
        exp = [[(f, T(v)) for f, v in k] + ([(oname, I(c))] if "-c" in mode else []) for k, c in groups.items()]
    else:
        gf = pick_gfields(rng, allow_empty=False)
        flag = rng.choice(["-g", "-f"])
        argv = ["uniq", flag, ",".join(gf)] + mode.split()[1:]
        groups = group_sizes(recs, gf)
        res["nontrivial"] = nontrivial(recs, gf, [])
        if mode == "-g":
            exp = [[(f, T(v)) for f, v in zip(gf, k)] for k in groups]
        elif mode == "-g -c":
            exp = [[(f, T(v)) for f, v in zip(gf, k)] + [(oname, I(len(rs)))] for k, rs in groups.items()]
        else:
            exp = [[("count", I(len(groups)))]]
    if "-c" in mode and oname != "count":
        argv += ["-o", oname]
    got, detail = run_mlr(res, argv, recs, "uniq")
    if got is None:
        return res
    sig = {"opts": mode}
    if mode.startswith("-x") and len({",".join(v for _, v in k) for k in groups}) < len(groups):
        sig["cond"] = "same-values-different-field-names"
    compare(res, "uniq", detail, got, exp, sig, lambda k: "count" if k in ("count", oname) else "field")
    check_int_types(res, "uniq", argv, recs, [[(k, e) for k, e in r if e[0] == "I"] for r in exp], sig)
    res["sample"] = {"monitor": "uniq", "argv": argv, "n_records": n, "distinct": len(groups)}
    return res


# ==========================================================================================
# accumulators shared by stats1 and merge-fields

NUMERIC_ACCS = ["sum", "mean", "mad", "var", "stddev", "meaneb", "skewness", "kurtosis"]
TEXT_ACCS = ["count", "null_count", "distinct_count", "mode", "antimode", "min", "max", "minlen", "maxlen"]
PCTS = ["p0", "p10", "p25", "p50", "median", "p75", "p90", "p99", "p100", "p25.2", "p0.1", "p99.9", "p33", "p66.6", "p5", "p95", "p1"]


def pct_of(acc):
    if acc == "median":
        return Fraction(50)
    if re.match(r"p[0-9]+(\.[0-9]+)?\Z", acc):
        return Fraction(acc[1:])
    return None


def acc_class(acc):
    return "percentile" if pct_of(acc) is not None else acc


def int_sum(nums):
    """Miller's running + over the values (ints stay ints until a partial sum leaves int64)."""
    acc = 0
    for x in nums:
        acc = S.m_add(acc, S.num_value(x))
    return acc


def acc_expect(acc, texts, nulls, interp, empties_seen=True):
    """Expected output cell of accumulator `acc` over the non-empty value texts (in input order);
    `nulls` = number of empty values seen.  Returns an expectation; ANY when the oracle declines."""
    try:
        nums = [S.parse(t) for t in texts]
    except ValueError:
        return ANY
    n = len(texts)
    all_num = all(x is not None for x in nums)
    if acc == "count":
        return I(n)
    if acc == "null_count":
        return I(nulls)
    if acc == "distinct_count":
        return I(len(set(texts)))
    if n == 0:
        return WEAK       # value of an accumulator over no data is not documented
    if acc == "mode":
        return T(S.first_mode(texts))
    if acc == "antimode":
        return T(S.first_mode(texts, anti=True))
    if acc == "minlen":
        return I(min(S.strlen(t) for t in texts))
    if acc == "maxlen":
        return I(max(S.strlen(t) for t in texts))
    if acc in ("min", "max"):
        numeric = [x for x in nums if x is not None]
        strings = [t for t, x in zip(texts, nums) if x is None]
        # "In case of mixed data, numbers are less than strings."
        if acc == "min":
            if numeric:
                m = min(numeric, key=lambda x: x.exact)
                return I(m.i) if all(x.kind == "int" for x in numeric) else E(float(m.exact))
            return T(min(strings, key=lambda s: s.encode()))
        if strings:
            return T(max(strings, key=lambda s: s.encode()))
        m = max(numeric, key=lambda x: x.exact)
        return I(m.i) if all(x.kind == "int" for x in numeric) else E(float(m.exact))
    p = pct_of(acc)
    if p is not None:
        if interp:
            if not all_num:
                return ANY        # "Not sensical for string-valued fields"
            if any(x.kind == "int" and abs(x.i) > 2 ** 53 for x in nums):
                return WEAK       # interpolation between ints beyond 2^53: int64 overflow territory (C07), outside this model
            srt = sorted(x.exact for x in nums)
            v = S.pct_interp(p, srt)
            return N(v, float(max(abs(srt[0]), abs(srt[-1]))))
        srt = S.sort_texts(texts)
        idxs = S.pct_index_set("50" if acc == "median" else acc[1:], n)
        cands = set()
        for i in idxs:
            k = S.collation_key(srt[i])
            cands |= {t for t in texts if S.collation_key(t) == k}
        return ONEOF(sorted(cands))
    # numeric accumulators: "the rest require numeric input"
    if not all_num:
        return WEAK
    if acc == "sum":
        if all(x.kind == "int" for x in nums):
            s = int_sum(nums)
            # once a partial sum leaves int64 the documented rule is float arithmetic from there on
            return I(s) if isinstance(s, int) else N(s, float(sum(abs(x.i) for x in nums)))
        return N(sum((x.exact for x in nums), Fraction(0)), float(sum(abs(x.exact) for x in nums)))
    if any(x.kind == "int" and abs(x.i) > 2 ** 53 for x in nums):
        return WEAK       # moments of ints beyond 2^53 go through float conversion: outside the model
    xs = [x.exact for x in nums]
    mom = S.moments(xs)
    if acc in mom:
        v, scale = mom[acc]
        if v is None or scale is None:
            return WEAK   # zero variance: 0/0
        if v == "":
            return T("")
        return N(v, scale)
    raise AssertionError(acc)


def pick_accs(rng, profile, k=None, with_pcts=True):
    pool = list(TEXT_ACCS)
    if profile != "text":
        pool += NUMERIC_ACCS
    if with_pcts:
        pool += PCTS
    k = k or rng.randint(1, 6)
    accs = []
    for a in rng.sample(pool, min(k, len(pool))):
        if a not in accs:
            accs.append(a)
    return accs


# ==========================================================================================
# stats1

def stats1_model(recs, accs, vfields, gfields, interp):
    """-f/-g form.  Returns (expected records, note)."""
    groups = {}
    for r in recs:
        k = gkey(r, gfields)
        if k is None:
            continue
        g = groups.setdefault(k, {})
        for f, v in r:
            if f in vfields:
                st = g.setdefault(f, {"texts": [], "nulls": 0})
                if v == "":
                    st["nulls"] += 1
                else:
                    st["texts"].append(v)
    exp = []
    for k, g in groups.items():
        rec = [(f, T(v)) for f, v in zip(gfields, k)]
        for f in vfields:
            if f not in g:
                continue
            st = g[f]
            for a in accs:
                rec.append((f"{f}_{a}", acc_expect(a, st["texts"], st["nulls"], interp)))
        exp.append(rec)
    return exp, groups


def stats1_case(case):
    rng = random.Random(case["seed"])
    n = pick_n(rng, case["tier"])
    prof = rng.choice(["int", "bigint", "float", "mixed", "mixed", "mixed_empty", "mixed_empty", "text", "hexint", "spfloat"])
    profiles = {"x": prof, "y": rng.choice(["float", "mixed", "int"])}
    recs = make_stream(rng, n, profiles, extra=rng.random() < 0.3)
    gf = pick_gfields(rng)
    vf = rng.choice([["x"], ["x"], ["x", "y"], ["y", "x"], ["x", "nosuch"]])
    interp = rng.random() < 0.3
    accs = pick_accs(rng, prof if "x" in vf else profiles["y"])
    if "y" in vf and prof == "text":
        accs = [a for a in accs if a not in NUMERIC_ACCS] or ["count"]
    argv = ["stats1", "-a", ",".join(accs), "-f", ",".join(vf)] + (["-g", ",".join(gf)] if gf else []) + (["-i"] if interp else [])
    res = case_result(_h("stats1", case["seed"]), nontrivial(recs, gf, [f for f in vf if f != "nosuch"]))
    exp, groups = stats1_model(recs, accs, vf, gf, interp)
    got, detail = run_mlr(res, argv, recs, "stats1")
    if got is None:
        return res
    if not gf and (not exp or not exp[0]):
        # ungrouped and no value at all: an empty record or nothing, not documented
        if got not in ([], [[]]):
            add_violation(res, {"verb": "stats1", "kind": "output-from-nothing"}, "stats1: output although no value field was seen",
                          dict(detail, got=got))
        return res
    if not gf and not recs:
        exp = []
    nck = compare(res, "stats1", detail, got, exp, {"interp": interp},
                  lambda k: acc_class(k.split("_", 1)[1]) if "_" in k and k.split("_", 1)[0] in ("x", "y") else "group-field",
                  loose_order=True)
    # conservation: counts over all groups add up to the number of contributing records
    if "count" in accs and nck:
        for f in vf:
            tot = 0
            for g in got:
                d = dict(g)
                if f + "_count" in d and _INT_RE.match(d[f + "_count"]):
                    tot += int(d[f + "_count"])
            contributing = sum(1 for r in recs if gkey(r, gf) is not None and dict(r).get(f, "") != "")
            if tot != contributing:
                add_violation(res, {"verb": "stats1", "kind": "conservation"},
                              f"stats1: {f}_count over all groups sums to {tot}, {contributing} records contribute",
                              detail)
    if nck:
        check_int_types(res, "stats1", argv, recs, exp, {"interp": interp})
    res["stats"]["accs_seen"] = [acc_class(a) for a in accs]
    res["sample"] = {"monitor": "stats1", "argv": argv, "n_records": n, "groups": len(groups), "profile": prof}
    return res


def stats1_regex_case(case):
    """--fr/--fx/--gr/--gx/--grfx: value / group-by fields chosen per record by regex."""
    rng = random.Random(case["seed"])
    n = pick_n(rng, case["tier"])
    profiles = {"x": rng.choice(["int", "mixed"]), "y": "float", "x2": "int"}
    recs = make_stream(rng, n, profiles, wide=False)      # --fx/--gx select by exclusion: the field set is kept closed
    if rng.random() < 0.6:
        # every record has both group-by fields, non-empty: the regex-selected group-by names are the same everywhere
        recs = [[(k, v) for k, v in r if k not in ("a", "b")] for r in recs]
        for r in recs:
            r[1:1] = [("a", rng.choice(["pan", "eks", "1", "1.0"])), ("b", rng.choice(["x", "y"]))]
    accs = pick_accs(rng, "mixed", k=rng.randint(1, 4))
    interp = False
    form = rng.choice(["fr", "fr-gr", "fx-gx", "grfx", "fr-g"])
    names = ["id", "a", "b", "x", "y", "x2"]
    if form == "fr":
        frx, sel_g = rng.choice(["^x", "^[xy]$", "^y$|^x2$"]), None
        argv = ["stats1", "-a", ",".join(accs), "--fr", frx]
        vsel = lambda k: re.search(frx, k) is not None
        gsel = lambda k: False
    elif form == "fr-g":
        frx = rng.choice(["^x", "^[xy]$"])
        argv = ["stats1", "-a", ",".join(accs), "--fr", frx, "-g", "a"]
        vsel = lambda k: re.search(frx, k) is not None
        gsel = None
    elif form == "fr-gr":
        frx, grx = rng.choice(["^x", "^[xy]$"]), rng.choice(["^a$", "^[ab]$"])
        argv = ["stats1", "-a", ",".join(accs), "--fr", frx, "--gr", grx]
        vsel = lambda k: re.search(frx, k) is not None
        gsel = lambda k: re.search(grx, k) is not None
    elif form == "fx-gx":
        fxx, gxx = "^(id|a|b)$", rng.choice(["^(id|x|y|x2)$", "^(id|x|y|x2|b)$"])
        argv = ["stats1", "-a", ",".join(accs), "--fx", fxx, "--gx", gxx]
        vsel = lambda k: re.search(fxx, k) is None
        gsel = lambda k: re.search(gxx, k) is None
    else:
        grx = rng.choice(["^a$", "^[ab]$"])
        # --grfx: "Shorthand for --gr {regex} --fx {that same regex}": everything else is a value field, id too
        argv = ["stats1", "-a", ",".join(accs), "--grfx", grx]
        recs = [[kv for kv in r if kv[0] != "id"] for r in recs]
        recs = [r for r in recs if r]
        vsel = lambda k: re.search(grx, k) is None
        gsel = lambda k: re.search(grx, k) is not None
    res = case_result(_h("stats1rx", case["seed"]), False)
    groups = {}
    collision = False
    seen_valuekeys = {}
    for r in recs:
        if gsel is None:
            d = dict(r)
            if "a" not in d:
                continue
            k = (("a", d["a"]),)
        else:
            k = tuple((f, v) for f, v in r if gsel(f))
        vk = ",".join(v for _, v in k)
        if vk in seen_valuekeys and seen_valuekeys[vk] != k:
            collision = True
        seen_valuekeys.setdefault(vk, k)
        g = groups.setdefault(k, {})
        for f, v in r:
            if vsel(f) and not (gsel and gsel(f)) and not (gsel is None and f == "a"):
                st = g.setdefault(f, {"texts": [], "nulls": 0})
                if v == "":
                    st["nulls"] += 1
                else:
                    st["texts"].append(v)
    exp = []
    for k, g in groups.items():
        rec = [(f, T(v)) for f, v in k]
        for f, st in g.items():
            for a in accs:
                rec.append((f"{f}_{a}", acc_expect(a, st["texts"], st["nulls"], interp)))
        exp.append(rec)
    res["nontrivial"] = len(groups) >= 2 and any(len(g) >= 2 for g in groups.values())
    got, detail = run_mlr(res, argv, recs, "stats1")
    if got is None:
        return res
    if len(groups) == 1 and not list(groups)[0] and not exp[0]:
        return res
    sig = {"form": form}
    if collision:
        # two different sets of regex-selected group-by fields carry the same value texts
        sig["cond"] = "same-values-different-group-by-field-names"
    compare(res, "stats1", detail, got, exp, sig,
            lambda k: acc_class(k.split("_", 1)[1]) if "_" in k else "group-field", what_prefix="(regex field selection) ",
            loose_order=True)
    res["sample"] = {"monitor": "stats1rx", "argv": argv, "n_records": len(recs), "groups": len(groups)}
    return res




def _strip_lacking(res, verb, detail, got, recs, gf):
    """Records lacking a group-by field take part in no accumulation; whether the verb passes them
    through or drops them is not documented.  Remove them from the observed output (they must be
    unchanged if present) and return the rest."""
    lacking = {dict(r)["id"]: r for r in recs if gkey(r, gf) is None}
    out = []
    for g in got:
        i = dict(g).get("id")
        if i in lacking:
            if g != lacking[i]:
                add_violation(res, {"verb": verb, "kind": "lacking-record-changed"},
                              f"{verb}: record {i} lacks a group-by field but was modified", dict(detail, got=g, original=lacking[i]))
            continue
        out.append(g)
    return out


def stats1w_case(case):
    """stats1 -w n (sliding window over the last n records of the group) and -s (running stats)."""
    rng = random.Random(case["seed"])
    tier = case["tier"]
    n0 = pick_n(rng, tier)
    iterative = rng.random() < 0.25
    # sliding windows also across the 500-record batch; the running form is recomputed in O(n^2) and stays capped
    n = n0 if (n0 >= 499 and not iterative) else min(n0, 80)
    prof = rng.choice(["int", "float", "mixed", "mixed_empty", "spfloat"])
    recs = make_stream(rng, n, {"x": prof, "y": "int"})
    gf = pick_gfields(rng)
    vf = rng.choice([["x"], ["x", "y"]])
    accs = pick_accs(rng, prof, k=rng.randint(1, 4))
    interp = rng.random() < 0.25
    w = case.get("w") or rng.randint(1, 12)
    argv = ["stats1", "-a", ",".join(accs), "-f", ",".join(vf)] + (["-g", ",".join(gf)] if gf else []) + (["-i"] if interp else [])
    argv += ["-s"] if iterative else ["-w", str(w)]
    res = case_result(_h("stats1w", case["seed"], case.get("w")), nontrivial(recs, gf, vf))
    got, detail = run_mlr(res, argv, recs, "stats1")
    if got is None:
        return res
    summary = [g for g in got if "id" not in dict(g)]
    got = [g for g in got if "id" in dict(g)]
    if not iterative:
        # -w: "One output record is emitted per input record, with the windowed statistics appended to it" - a record that lacks
        # a group-by field belongs to no window, but it is still an input record (it must come out, unchanged: checked below)
        gotids = {dict(g)["id"] for g in got}
        dropped = [dict(r)["id"] for r in recs if gkey(r, gf) is None and dict(r)["id"] not in gotids]
        if dropped:
            add_violation(res, {"verb": "stats1", "kind": "records-dropped", "opts": "-w", "witness": "record-lacking-group-by-field"},
                          f"stats1 -w -g {','.join(gf)}: {len(dropped)} input records lacking a group-by field are not emitted (e.g. {dropped[:4]}); "
                          f"the help promises one output record per input record", dict(detail, dropped=dropped))
    got = _strip_lacking(res, "stats1", detail, got, recs, gf)
    hist = {}
    exp = []
    for r in recs:
        k = gkey(r, gf)
        if k is None:
            continue
        h = hist.setdefault(k, [])
        h.append(r)
        win = h if iterative else h[-w:]
        d = dict(r)
        rec = [(f, T(v)) for f, v in r]
        for f in vf:
            vals = [dict(x)[f] for x in win if f in dict(x)]
            if iterative:
                if d.get(f, "") == "":
                    continue          # only records that contribute are checked under -s
            elif not vals:
                continue
            texts = [v for v in vals if v != ""]
            for a in accs:
                rec.append((f"{f}_{a}", acc_expect(a, texts, len(vals) - len(texts), interp)))
        exp.append(rec)
    # cells the model has no opinion about (field not yet seen in the window / non-contributing record under -s)
    got2 = []
    byid = {dict(e_)["id"][1]: {k for k, _ in e_} for e_ in exp}
    for g in got:
        keep = byid.get(dict(g)["id"], set())
        orig = {k for k, _ in g if "_" not in k}
        got2.append([(k, v) for k, v in g if k in keep or k in orig])
    compare(res, "stats1", detail, got2, exp, {"opts": "-s" if iterative else "-w", "interp": interp},
            lambda k: acc_class(k.split("_", 1)[1]) if "_" in k else "passthrough", loose_order=True)
    check_int_types(res, "stats1", argv, recs, [[(k, e) for k, e in r if k == "id" or re.match(r"[xy]_", k)] for r in exp],
                    {"opts": "-s" if iterative else "-w", "interp": interp}, by_id=True)
    if summary and iterative:
        e2, _ = stats1_model(recs, accs, vf, gf, interp)
        compare(res, "stats1", detail, summary, e2, {"opts": "-s-final", "interp": interp},
                lambda k: acc_class(k.split("_", 1)[1]) if "_" in k else "group-field", loose_order=True)
    res["stats"]["accs_seen"] = [acc_class(a) for a in accs]
    res["sample"] = {"monitor": "stats1w", "argv": argv, "n_records": n}
    return res


# ==========================================================================================
# merge-fields

def merge_case(case):
    rng = random.Random(case["seed"])
    n = min(pick_n(rng, case["tier"]), 60)
    prof = rng.choice(["int", "bigint", "float", "mixed", "mixed_empty", "mixed_empty", "text", "hexint", "spfloat"])
    names = ["a_in", "a_out", "b_in", "b_out", "c_in", "a_mid"]
    recs = []
    for i in range(n):
        rec = [("id", f"r{i+1}")]
        order = names[:]
        if rng.random() < 0.3:
            rng.shuffle(order)
        for nm in order:
            if rng.random() >= 0.25:
                rec.append((nm, gen_value(rng, prof)))
        if rng.random() < 0.5:
            rec.append(("other", rng.choice(["u", "7"])))
        recs.append(rec)
    accs = pick_accs(rng, prof, k=rng.randint(1, 6))
    interp = rng.random() < 0.3
    keep = rng.random() < 0.4
    form = rng.choice(["-f", "-f", "-r", "-c"])
    oname = rng.choice(["out", "ab"])
    if form == "-f":
        sel = rng.choice([["a_in", "a_out"], ["a_in", "a_out", "b_out"], ["b_out", "a_in", "nosuch"], names])
        argv = ["merge-fields", "-a", ",".join(accs), "-f", ",".join(sel), "-o", oname]
        matcher = lambda k: oname if k in sel else None
    elif form == "-r":
        rx = rng.choice([["^a_"], ["_in$", "_out$"], ["^[ab]_"], ["^a_", "^b_out$"]])
        argv = ["merge-fields", "-a", ",".join(accs), "-r", ",".join(rx), "-o", oname]
        matcher = lambda k: oname if any(re.search(x, k) for x in rx) else None
    else:
        subs = rng.choice([["_in", "_out"], ["_in", "_out", "_mid"], ["_out"]])
        argv = ["merge-fields", "-a", ",".join(accs), "-c", ",".join(subs)]

        def matcher(k):
            for s_ in subs:
                if s_ in k:
                    return k.replace(s_, "", 1)
            return None
    if keep:
        argv.insert(1, "-k")
    if interp:
        argv.insert(1, "-i")
    res = case_result(_h("merge", case["seed"]), False)
    got, detail = run_mlr(res, argv, recs, "merge-fields")
    if got is None:
        return res
    exp = []
    has_empty_contrib = False
    multi = 0
    for r in recs:
        buckets = {}
        if form != "-c":
            buckets[oname] = []
        out = []
        for k, v in r:
            b = matcher(k)
            if b is None:
                out.append((k, T(v)))
                continue
            buckets.setdefault(b, []).append(v)
            if keep:
                out.append((k, T(v)))
        for b, vals in buckets.items():
            texts = [v for v in vals if v != ""]
            nulls = len(vals) - len(texts)
            if nulls:
                has_empty_contrib = True
            if len(texts) >= 2:
                multi += 1
            for a in accs:
                e = acc_expect(a, texts, nulls, interp)
                if a in ("mode", "antimode") and e[0] == "T" and form == "-f":
                    # first-found wins ties; "first" in -f order or in record order is not documented
                    alt = [dict(r)[k] for k in sel if k in dict(r) and dict(r)[k] != ""]
                    e = ONEOF({e[1], S.first_mode(alt, anti=(a == "antimode"))})
                if a == "sum" and form == "-f":
                    # an int sum leaves int64 (and turns float for good) or not depending on the order of addition; whether the
                    # fields are added in record order or in -f order is not documented
                    alt = [dict(r)[k] for k in sel if k in dict(r) and dict(r)[k] != ""]
                    e2 = acc_expect(a, alt, nulls, interp)
                    if e2 != e:
                        e = ("ALT", [e, e2])
                out.append((f"{b}_{a}", e))
        exp.append(out)
    res["nontrivial"] = multi >= 2 and len({tuple(k for k, _ in r) for r in recs}) >= 2
    sig = {"form": form, "keep": keep}
    nck = compare(res, "merge-fields", detail, got, exp, sig,
                  lambda k: acc_class(k.split("_", 1)[1]) if re.match(r"(out|ab|a|b|c)_", k) and k not in names else "passthrough",
                  loose_order=False)
    if nck:
        # only the computed cells: pass-through fields are typed by inference, which is not this property
        exp_t = [[(k, e) for k, e in r if k == "id" or (re.match(r"(out|ab|a|b|c)_", k) and k not in names)] for r in exp]
        check_int_types(res, "merge-fields", argv, recs, exp_t, sig, by_id=True)
    res["stats"]["accs_seen"] = [acc_class(a) for a in accs]
    res["sample"] = {"monitor": "merge", "argv": argv, "n_records": n, "profile": prof}
    return res


# ==========================================================================================
# step

def _num(text):
    return S.parse(text)


def _sub_expect(a, b):
    """Miller a - b for numbers read from data."""
    if a.kind == "int" and b.kind == "int":
        d = a.i - b.i
        if S.INT64_MIN <= d <= S.INT64_MAX:
            return I(d)
        return N(float(d), 0.0)
    return N(a.exact - b.exact, float(abs(a.exact) + abs(b.exact)))


def step_case(case):
    rng = random.Random(case["seed"])
    n = pick_n(rng, case["tier"])
    n = n if n >= 499 else min(n, 120)
    prof = rng.choice(["int", "int", "float", "mixed", "posfloat", "spfloat"])
    missing = rng.choice([0.0, 0.0, 0.2, 0.2, 0.35])
    recs = make_stream(rng, n, {"x": prof, "y": rng.choice(["int", "float"])}, missing=missing, na=rng.randint(1, 6))
    gf = pick_gfields(rng)
    vf = rng.choice([["x"], ["x"], ["x", "y"], ["y", "x"]])
    simple = ["counter", "delta", "shift", "shift_lag", "from-first", "ratio", "rsum", "rprod", "ewma"]
    counted = [f"{s}_{k}" for s in ("delta", "shift", "shift_lag", "ratio") for k in (1, 2, 3, 5)]
    forward = ["shift_lead", "shift_lead_1", "shift_lead_2", "shift_lead_4"]
    if "slw" in case:
        m, k = case["slw"]
        steppers = [f"slwin_{m}_{k}", "counter"]
        recs = make_stream(rng, case["n"], {"x": prof, "y": "int"}, missing=0.0, na=2)
        gf = rng.choice([[], ["a"]])
        vf = ["x"]
    else:
        pool = simple + counted
        r = rng.random()
        if r < 0.35:
            pool = pool + forward + [f"slwin_{rng.randint(0, 4)}_{rng.randint(0, 4)}" for _ in range(3)]
        steppers = []
        for s_ in rng.sample(pool, rng.randint(1, 5)):
            if s_ not in steppers:
                steppers.append(s_)
    alphas = None
    suffixes = None
    argv = ["step", "-a", ",".join(steppers), "-f", ",".join(vf)] + (["-g", ",".join(gf)] if gf else [])
    if "ewma" in steppers:
        if rng.random() < 0.7:
            alphas = rng.choice([["0.1", "0.9"], ["0.25"], ["1"], ["0.5", "0.01", "0.75"]])
            argv += ["-d", ",".join(alphas)]
            if rng.random() < 0.5:
                suffixes = [f"s{i}" for i in range(len(alphas))]
                argv += ["-o", ",".join(suffixes)]
        else:
            alphas = ["0.5"]
    has_fwd = any(s_.startswith("shift_lead") or (s_.startswith("slwin_") and int(s_.split("_")[2]) > 0) for s_ in steppers)
    res = case_result(_h("step", case["seed"], case.get("slw"), case.get("n")), nontrivial(recs, gf, vf))
    got, detail = run_mlr(res, argv, recs, "step")
    if got is None:
        return res
    groups = {}
    for r in recs:
        k = gkey(r, gf)
        if k is not None:
            groups.setdefault(k, []).append(r)
    gap_in_group = False
    expmap = {}
    order = []
    for r in recs:
        if gkey(r, gf) is None:
            expmap[dict(r)["id"]] = [(f, T(v)) for f, v in r]
    for k, G in groups.items():
        D = [dict(r) for r in G]
        cells = [[] for _ in G]
        for f in vf:
            have = [f in d for d in D]
            if not all(have):
                gap_in_group = True
            nums = [(_num(d[f]) if f in d else None) for d in D]
            P = [i for i, h in enumerate(have) if h]
            pos = {i: j for j, i in enumerate(P)}
            # running quantities over the records that have the field
            rs, rp = 0, 1
            rsum, rprod, exact_prod = {}, {}, {}
            ep = Fraction(1)
            ew = {}
            prev_ew = None
            for i in P:
                v = S.num_value(nums[i])
                rs = S.m_add(rs, v)
                rp = S.m_mul(rp, v)
                ep *= nums[i].exact
                rsum[i], rprod[i], exact_prod[i] = rs, rp, ep
                if alphas:
                    cur = []
                    for ai, al in enumerate(alphas):
                        a_ = Fraction(al)
                        cur.append(nums[i].exact if prev_ew is None else a_ * nums[i].exact + (1 - a_) * prev_ew[ai])
                    prev_ew = cur
                    ew[i] = cur
            maxabs = float(max([abs(nums[i].exact) for i in P], default=0))
            for i in P:
                x = nums[i]
                for s_ in steppers:
                    base = s_
                    cnt = 1
                    m = re.match(r"(delta|shift|shift_lag|shift_lead|ratio)_([0-9]+)\Z", s_)
                    if m:
                        base, cnt = m.group(1), int(m.group(2))
                    name = f"{f}_{s_.replace('-', '_')}"
                    if base == "counter":
                        e = I(pos[i] + 1)
                    elif base == "rsum":
                        e = I(rsum[i]) if isinstance(rsum[i], int) else N(sum(nums[j].exact for j in P if j <= i) if all(nums[j].kind == "float" or abs(nums[j].i) < 2 ** 53 for j in P) else rsum[i], maxabs * len(P))
                    elif base == "rprod":
                        if isinstance(rprod[i], int):
                            e = I(rprod[i])
                        else:
                            try:
                                e = N(float(exact_prod[i]), 0.0)
                            except OverflowError:
                                e = WEAK
                    elif base == "from-first":
                        e = _sub_expect(x, nums[P[0]])
                    elif base == "ewma":
                        for ai, al in enumerate(alphas):
                            nm = f"{f}_ewma_{suffixes[ai] if suffixes else al}"
                            cells[i].append((nm, N(ew[i][ai], maxabs)))
                        continue
                    elif base in ("shift", "shift_lag", "shift_lead", "delta", "ratio"):
                        # "n records back/forward", "the previous record, if any": the help does not say whether records of
                        # the group that lack the field count as positions.  Reading A: they do (record i-n of the group,
                        # literally); reading B: they do not (the n-th previous record that has the field).  Where both
                        # readings name the same record the cell is judged strictly; where they differ, shift must be one
                        # of the two and delta/ratio (whose no-predecessor value 0 / 1 is only pinned for "no record") are declined.
                        step_ = cnt if base == "shift_lead" else -cnt
                        ja = i + step_
                        ja = ja if 0 <= ja < len(G) else None
                        pb = pos[i] + step_
                        jb = P[pb] if 0 <= pb < len(P) else None
                        agree = (ja == jb) or (ja is None and jb is None)
                        if not agree:
                            bump(res, "step_cells_where_readings_differ")
                            if base in ("delta", "ratio"):
                                e = WEAK
                            else:
                                va = D[ja][f] if ja is not None and have[ja] else ""
                                vb = D[jb][f] if jb is not None else ""
                                e = T(va) if va == vb else ONEOF([va, vb])
                        elif ja is None:
                            e = T("") if base.startswith("shift") else (I(0) if base == "delta" else I(1))
                        elif base.startswith("shift"):
                            e = T(D[ja][f])
                        elif base == "delta":
                            e = _sub_expect(x, nums[ja])
                        else:
                            e = WEAK if nums[ja].exact == 0 else N(x.exact / nums[ja].exact, 0.0)
                    elif base.startswith("slwin_"):
                        _, mb, mf = base.split("_")
                        lo, hi = max(0, i - int(mb)), min(len(G) - 1, i + int(mf))
                        name = f"{f}_{mb}_{mf}"
                        if all(have[lo:hi + 1]):
                            e = N(sum(nums[j].exact for j in range(lo, hi + 1)) / (hi - lo + 1), maxabs)
                        else:
                            e = WEAK
                    else:
                        raise AssertionError(s_)
                    cells[i].append((name, e))
        for i, r in enumerate(G):
            expmap[D[i]["id"]] = [(f_, T(v)) for f_, v in r] + cells[i]
    sig = {"fwd": has_fwd}
    maxfwd = 0
    for s_ in steppers:
        m = re.match(r"shift_lead(?:_([0-9]+))?\Z", s_)
        if m:
            maxfwd = max(maxfwd, int(m.group(1) or 1))
        m = re.match(r"slwin_[0-9]+_([0-9]+)\Z", s_)
        if m:
            maxfwd = max(maxfwd, int(m.group(1)))
    if "ewma" in steppers and "-d" not in argv:
        sig["cond"] = "ewma-without-d"
    # properties of the failing record's OWN group (known findings are matched on these, never on the whole stream)
    gap_fields = {}      # group key -> value fields that some record of the group lacks
    for k, G in groups.items():
        gap_fields[k] = {f for f in vf if any(f not in dict(r) for r in G)}
    id2group = {dict(r)["id"]: k for k, G in groups.items() for r in G}

    def witness(rid, key):
        k = id2group.get(rid)
        if k is None:
            return {"group_gap": False, "group_short": False, "cell": "record-keys" if key is None else "passthrough"}
        w = {"group_short": bool(has_fwd and len(groups[k]) < maxfwd)}
        m = re.match(r"([xy])_", key or "")
        if key is None:
            w["group_gap"] = bool(gap_fields[k])
            w["cell"] = "record-keys"
        else:
            w["group_gap"] = bool(m and m.group(1) in gap_fields[k])
        return w

    if has_fwd:
        # delayed emission: order across groups is not documented -> match by id, check order inside each group
        gotids = [dict(g).get("id") for g in got]
        unknown = [i for i in gotids if i not in expmap]
        dup = len(set(gotids)) != len(gotids)
        if unknown or dup:
            add_violation(res, dict({"verb": "step", "kind": "records-duplicated-or-invented"}, **sig),
                          f"step: output holds ids that are not in the input or are repeated ({unknown[:5]}, repeated={dup})", detail)
            return res
        lost = [i for i in expmap if i not in set(gotids)]
        if lost:
            for short in (True, False):
                ids = [i for i in lost if witness(i, None)["group_short"] == short]
                if ids:
                    gaps = any(witness(i, None)["group_gap"] for i in ids)
                    add_violation(res, dict({"verb": "step", "kind": "records-lost", "group_short": short, "group_gap": gaps}, **sig),
                                  f"step: {len(ids)} input records are missing from the output (e.g. {ids[:5]}); their groups are "
                                  f"{'shorter' if short else 'not shorter'} than the forward window {maxfwd}", dict(detail, lost=ids))
        for k, G in groups.items():
            ids = [dict(r)["id"] for r in G]
            sub = [i for i in gotids if i in set(ids)]
            if sub != [i for i in ids if i in set(gotids)]:
                add_violation(res, dict({"verb": "step", "kind": "group-order"}, **sig),
                              f"step: records of group {k} are emitted out of input order", dict(detail, expected=ids, got=sub))
                return res
        exp = [expmap[i] for i in gotids]
        rids = gotids
    else:
        exp = [expmap[dict(r)["id"]] for r in recs]
        rids = [dict(r)["id"] for r in recs]
    nck = compare(res, "step", detail, got, exp, sig, lambda k: re.sub(r"^[xy]_", "", k) if re.match(r"[xy]_", k) else "passthrough",
                  rec_sig=lambda ri, key: witness(rids[ri], key))
    if nck:
        exp_t = [[(k, e) for k, e in r if k == "id" or re.match(r"[xy]_", k)] for r in exp]
        if has_fwd:
            # in a group with a gap every stepper cell is covered by C10-F5: types are only judged in groups without one
            exp_t = [r for r, rid in zip(exp_t, rids) if not witness(rid, None)["group_gap"]]
        check_int_types(res, "step", argv, recs, exp_t, sig, by_id=True)
    res["stats"]["steppers_seen"] = [re.sub(r"_[0-9_]+$", "", s_) for s_ in steppers]
    res["sample"] = {"monitor": "step", "argv": argv, "n_records": len(recs), "groups": len(groups)}
    return res


# ==========================================================================================
# top

def top_case(case):
    rng = random.Random(case["seed"])
    n = pick_n(rng, case["tier"])
    prof = rng.choice(["int", "float", "mixed", "mixed", "spfloat"])
    recs = make_stream(rng, n, {"x": prof, "y": rng.choice(["int", "float"])})
    gf = pick_gfields(rng)
    showall = rng.random() < 0.3
    vf = ["x"] if showall else rng.choice([["x"], ["x", "y"], ["y", "x"]])
    k = rng.choice([1, 1, 2, 3, 5, 10])
    mn = rng.random() < 0.4
    oname = rng.choice(["top_idx", "top_idx", "rank"])
    argv = ["top", "-f", ",".join(vf), "-n", str(k)] + (["-g", ",".join(gf)] if gf else []) + (["--min"] if mn else rng.choice([[], ["--max"]]))
    if showall:
        argv.append("-a")
    if oname != "top_idx":
        argv += ["-o", oname]
    if len(vf) > 1 and rng.random() < 0.7:
        # several -f fields: a record has all of them or none (see below for why the other streams are out of the model's domain)
        for r in recs:
            d = dict(r)
            if any(f in d for f in vf) and not all(f in d for f in vf):
                if rng.random() < 0.5:
                    r[:] = [kv for kv in r if kv[0] not in vf]
                else:
                    r.extend((f, gen_value(rng, "int")) for f in vf if f not in d)
    res = case_result(_h("top", case["seed"]), nontrivial(recs, gf, vf))
    got, detail = run_mlr(res, argv, recs, "top")
    if got is None:
        return res
    # Several -f fields and a record that has some but not all of them: neither `mlr top --help` nor reference-verbs.md says
    # whether such a record is ranked for the fields it has (the property's "left out of that accumulation only") or not at
    # all (what the regression corpus shows).  The documentation being silent, the oracle declines the whole case.
    if len(vf) > 1 and any(gkey(r, gf) is not None and any(f in dict(r) for f in vf) and not all(f in dict(r) for f in vf) for r in recs):
        res["skipped"] += 1
        bump(res, "top_cases_declined_partial_value_fields")
        return res
    contrib = [r for r in recs if all(f in dict(r) for f in vf)]
    groups = group_sizes(contrib, gf) if gf else ({(): contrib} if contrib else {})
    sig = {"opts": ("-a" if showall else "") + ("--min" if mn else "")}

    def ranked(rs, f):
        vals = [(S.parse(dict(r)[f]), r) for r in rs if f in dict(r)]
        vals.sort(key=lambda t: t[0].exact, reverse=not mn)
        return vals

    if showall:
        exp_seq = []
        for gk_, rs in groups.items():
            exp_seq.append(ranked(rs, "x")[:k])
        flat = [t for g in exp_seq for t in g]
        if len(got) != len(flat):
            add_violation(res, dict({"verb": "top", "kind": "nrecords"}, **sig),
                          f"top -a: {len(got)} records, expected {len(flat)}", dict(detail, got=got[:30]))
            return res
        used = set()
        inputs = {dict(r)["id"]: r for r in recs}
        pos = 0
        for gk_, top in zip(groups, exp_seq):
            for (v, _r) in top:
                g = got[pos]
                pos += 1
                gid = dict(g).get("id")
                orig = inputs.get(gid)
                ok = (orig is not None and g == orig and gid not in used and gkey(orig, gf) == (gk_ if gf else ())
                      and "x" in dict(orig) and S.parse(dict(orig)["x"]).exact == v.exact)
                used.add(gid)
                if not ok:
                    add_violation(res, dict({"verb": "top", "kind": "value", "cell": "record"}, **sig),
                                  f"top -a: output record {pos} is {g}, expected a record of group {gk_} with x == {v.text}",
                                  dict(detail, got=got[:30]))
                    return res
        bump(res, "cells_checked", len(flat))
    else:
        exp = []
        navail = {}
        for gk_, rs in groups.items():
            rk = {f: ranked(rs, f) for f in vf}
            navail[gk_] = max([len(v) for v in rk.values()] + [0])
            for i in range(k):
                row = [(f, T(v)) for f, v in zip(gf, gk_)] + [(oname, I(i + 1))]
                for f in vf:
                    if i < len(rk[f]):
                        v = rk[f][i][0]
                        same = sorted({t[0].text for t in rk[f] if t[0].exact == v.exact})
                        row.append((f + "_top", ONEOF(same) if len(same) > 1 or v.kind != "int" else T(v.text)))
                        if row[-1][0] == f + "_top" and row[-1][1][0] == "O":
                            # the value may be re-rendered as a float: accept numerically identical text
                            row[-1] = (f + "_top", E(float(v.exact)))
                    else:
                        row.append((f + "_top", ANY))     # fewer values than -n: padding is not documented
                exp.append((gk_, i, row))
        # drop undocumented padding rows (index beyond the number of values in the group) from both sides
        exp_rows = [row for gk_, i, row in exp if i < navail[gk_]]
        got_rows = []
        kept = []
        per = {}
        for gi, g in enumerate(got):
            d = dict(g)
            gk_ = tuple(d.get(f) for f in gf)
            per[gk_] = per.get(gk_, 0) + 1
            if per[gk_] > navail.get(gk_, 0) and all(d.get(f + "_top", "") == "" for f in vf):
                bump(res, "padding_rows_ignored")
                continue
            got_rows.append(g)
            kept.append(gi)
        nck = compare(res, "top", detail, got_rows, exp_rows, sig, lambda key: "top-value" if key.endswith("_top") else ("idx" if key == oname else "group-field"))
        if nck and len(got_rows) == len(exp_rows):
            # the rank and a top value that is an int in the data must be ints ("-F ... ignored in Miller 6")
            exp_t = [[(k_, e) for k_, e in r if k_ == oname or (k_.endswith("_top") and e[0] == "T" and _INT_RE.match(e[1]))] for r in exp_rows]
            exp_t = [[(k_, I(int(e[1])) if e[0] == "T" else e) for k_, e in r] for r in exp_t]
            check_int_types(res, "top", argv, recs, exp_t, sig, rows=kept)
    res["sample"] = {"monitor": "top", "argv": argv, "n_records": n, "groups": len(groups)}
    return res


# ==========================================================================================
# fraction

def fraction_case(case):
    rng = random.Random(case["seed"])
    n = pick_n(rng, case["tier"])
    prof = rng.choice(["int", "posfloat", "mixed", "float", "spfloat"])
    gf = pick_gfields(rng)
    vf = rng.choice([["x"], ["x"], ["x", "y"], ["y", "x"]])
    recs = make_stream(rng, n, {"x": prof, "y": rng.choice(["int", "posfloat"])})
    if len(vf) == 2 and rng.random() < 0.5:
        # both value fields in every record (several -f fields with a field first seen late in a group crash: C10-F8)
        for r in recs:
            d = dict(r)
            for f in vf:
                if f not in d:
                    r.append((f, gen_value(rng, "int")))
    pflag, cflag = rng.random() < 0.4, rng.random() < 0.4
    argv = ["fraction", "-f", ",".join(vf)] + (["-g", ",".join(gf)] if gf else []) + (["-p"] if pflag else []) + (["-c"] if cflag else [])
    res = case_result(_h("fraction", case["seed"]), nontrivial(recs, gf, vf))
    got, detail = run_mlr(res, argv, recs, "fraction")
    if got is None:
        return res
    suffix = "_" + ("cumulative_" if cflag else "") + ("percent" if pflag else "fraction")
    mult = 100 if pflag else 1
    sums = {}
    for r in recs:
        k = gkey(r, gf)
        if k is None:
            continue
        for f in vf:
            if f in dict(r):
                sums[(k, f)] = sums.get((k, f), Fraction(0)) + S.parse(dict(r)[f]).exact
    abssum = {}
    for r in recs:
        k = gkey(r, gf)
        if k is None:
            continue
        for f in vf:
            if f in dict(r):
                abssum[(k, f)] = abssum.get((k, f), Fraction(0)) + abs(S.parse(dict(r)[f]).exact)
    cum = {}
    exp = []
    for r in recs:
        k = gkey(r, gf)
        row = [(f, T(v)) for f, v in r]
        if k is not None:
            for f in vf:
                if f in dict(r):
                    v = S.parse(dict(r)[f]).exact
                    cum[(k, f)] = cum.get((k, f), Fraction(0)) + v
                    tot = sums[(k, f)]
                    if tot == 0:
                        row.append((f + suffix, WEAK))     # x/0
                    else:
                        num = cum[(k, f)] if cflag else v
                        # conditioning: the denominator is a float sum with error ~ eps * sum|x|
                        val = mult * num / tot
                        row.append((f + suffix, N(val, float(abs(val) * abssum[(k, f)] / abs(tot)) + (float(mult * abssum[(k, f)] / abs(tot)) if cflag else 0.0))))
        exp.append(row)
    compare(res, "fraction", detail, got, exp, {"opts": ("-p" if pflag else "") + ("-c" if cflag else "")},
            lambda key: "fraction" if key.endswith(suffix) else "passthrough")
    res["sample"] = {"monitor": "fraction", "argv": argv, "n_records": n}
    return res


# ==========================================================================================
# histogram

def histogram_case(case):
    rng = random.Random(case["seed"])
    n = pick_n(rng, case["tier"])
    prof = rng.choice(["int", "float", "mixed", "posfloat", "spfloat"])
    recs = make_stream(rng, n, {"x": prof, "y": rng.choice(["int", "float"])})
    vf = rng.choice([["x"], ["x", "y"], ["y", "x"]])
    auto = rng.random() < 0.35
    nbins = rng.choice([1, 2, 3, 4, 5, 7, 10, 20, None])
    prefix = rng.choice([None, None, "h_"])
    lo, hi = rng.choice([(0, 10), (-20, 60), (-50, 50), (0, 1), (-7, 13), (0, 60), (-0.5, 2.5)])
    argv = ["histogram", "-f", ",".join(vf)]
    if auto:
        argv.append("--auto")
        if rng.random() < 0.5:
            argv += ["--lo", "0", "--hi", "1"]      # "ignoring --lo and --hi"
    else:
        argv += ["--lo", str(lo), "--hi", str(hi)]
    if nbins is not None:
        argv += ["--nbins", str(nbins)]
    if prefix:
        argv += ["-o", prefix]
    nb = nbins if nbins is not None else 20
    res = case_result(_h("histogram", case["seed"]), False)
    vals = {f: [S.parse(dict(r)[f]).exact for r in recs if f in dict(r)] for f in vf}
    allv = [v for f in vf for v in vals[f]]
    res["nontrivial"] = len(allv) >= 4 and len(vf) >= 2 and any(f not in dict(r) for r in recs for f in vf)
    if auto:
        if not allv or min(allv) == max(allv):
            res["skipped"] += 1
            return res
        lo_, hi_ = min(allv), max(allv)
    else:
        lo_, hi_ = Fraction(str(lo)), Fraction(str(hi))
    got, detail = run_mlr(res, argv, recs, "histogram")
    if got is None:
        return res
    w = (hi_ - lo_) / nb
    p = prefix or ""
    exp = []
    lo_counts = {f: [0] * nb for f in vf}
    hi_counts = {f: [0] * nb for f in vf}
    for f in vf:
        for v in vals[f]:
            if v < lo_ or v > hi_:
                continue         # "Input values < lo or > hi are not counted."
            if v == hi_:
                cand = {nb - 1}  # "Input numbers equal to [hi] are counted in the last bin."
            else:
                q = (v - lo_) / w
                i = math.floor(q)
                cand = {min(i, nb - 1)}
                # a value within rounding distance of a bin edge may land on either side in floating point
                if q - i < Fraction(1, 10 ** 9) and i > 0:
                    cand.add(i - 1)
                if (i + 1) - q < Fraction(1, 10 ** 9) and i + 1 < nb:
                    cand.add(i + 1)
            if len(cand) == 1:
                i = next(iter(cand))
                lo_counts[f][i] += 1
                hi_counts[f][i] += 1
            else:
                for i in cand:
                    hi_counts[f][i] += 1
    ok_struct = len(got) == nb
    if not ok_struct:
        add_violation(res, {"verb": "histogram", "kind": "nrecords", "auto": auto},
                      f"histogram: {len(got)} bins emitted, --nbins is {nb}", dict(detail, got=got[:25]))
        return res
    for i, g in enumerate(got):
        row = [(p + "bin_lo", N(lo_ + i * w, float(abs(lo_) + abs(hi_)))), (p + "bin_hi", N(lo_ + (i + 1) * w, float(abs(lo_) + abs(hi_))))]
        for f in vf:
            if lo_counts[f][i] == hi_counts[f][i]:
                row.append((p + f + "_count", I(lo_counts[f][i])))
            else:
                gv = dict(g).get(p + f + "_count", "")
                okr = bool(_INT_RE.match(gv)) and lo_counts[f][i] <= int(gv) <= hi_counts[f][i]
                row.append((p + f + "_count", ANY if okr else I(lo_counts[f][i])))
        exp.append(row)
    nck = compare(res, "histogram", detail, got, exp, {"auto": auto},
                  lambda key: "count" if key.endswith("_count") else "bin-edge")
    if nck:
        check_int_types(res, "histogram", argv, recs, [[(k, e) for k, e in r if e[0] == "I"] for r in exp], {"auto": auto})
    if nck:
        for f in vf:
            cnts = [dict(g).get(p + f + "_count", "") for g in got]
            if not all(_INT_RE.match(c) for c in cnts):
                continue      # already reported cell by cell
            tot = sum(int(c) for c in cnts)
            inrange = sum(1 for v in vals[f] if lo_ <= v <= hi_)
            if tot != inrange:
                add_violation(res, {"verb": "histogram", "kind": "conservation", "auto": auto},
                              f"histogram: bin counts of {f} add up to {tot}, {inrange} values lie in [lo, hi]", detail)
    res["sample"] = {"monitor": "histogram", "argv": argv, "n_records": n}
    return res


# ==========================================================================================
# most-frequent / least-frequent

def freq_case(case):
    rng = random.Random(case["seed"])
    n = pick_n(rng, case["tier"])
    recs = make_stream(rng, n, {"x": "int"})
    gf = pick_gfields(rng, allow_empty=False)
    verb = rng.choice(["most-frequent", "least-frequent"])
    maxn = rng.choice([None, None, 1, 2, 3, 5])
    brief = rng.random() < 0.3
    oname = rng.choice(["count", "count", "N"])
    argv = [verb, "-f", ",".join(gf)] + (["-n", str(maxn)] if maxn else []) + (["-b"] if brief else []) + (["-o", oname] if oname != "count" else [])
    res = case_result(_h("freq", case["seed"]), nontrivial(recs, gf, []))
    got, detail = run_mlr(res, argv, recs, verb)
    if got is None:
        return res
    groups = {k: len(v) for k, v in group_sizes(recs, gf).items()}
    limit = maxn or 10
    want = min(limit, len(groups))
    sig = {"opts": "-b" if brief else ""}
    if len(got) != want:
        add_violation(res, dict({"verb": verb, "kind": "nrecords"}, **sig),
                      f"{verb}: {len(got)} records, expected min(-n, distinct) = {want}", dict(detail, got=got[:20]))
        return res
    seen = set()
    counts = []
    for ri, g in enumerate(got):
        ek = gf + ([] if brief else [oname])
        if [k for k, _ in g] != ek:
            add_violation(res, dict({"verb": verb, "kind": "keys"}, **sig), f"{verb}: record {ri+1} has fields {[k for k, _ in g]}, expected {ek}",
                          dict(detail, got=g))
            return res
        k = tuple(v for f, v in g if f in gf)[:len(gf)]
        if k not in groups or k in seen:
            add_violation(res, dict({"verb": verb, "kind": "value", "cell": "group"}, **sig),
                          f"{verb}: record {ri+1} names {k}, which is not a distinct value of the input (or is repeated)", dict(detail, got=got[:20]))
            return res
        seen.add(k)
        counts.append(groups[k])
        if not brief and not (_INT_RE.match(dict(g)[oname]) and int(dict(g)[oname]) == groups[k]):
            add_violation(res, dict({"verb": verb, "kind": "value", "cell": "count"}, **sig),
                          f"{verb}: {k} reported with count {dict(g)[oname]}, recounted {groups[k]}", dict(detail, got=got[:20]))
            return res
    desc = verb == "most-frequent"
    srt = sorted(groups.values(), reverse=desc)[:want]
    if counts != srt:
        # ties may come in any order, but the sequence of counts is fully determined
        add_violation(res, dict({"verb": verb, "kind": "order"}, **sig),
                      f"{verb}: counts of the emitted values are {counts[:12]}, the {want} {'largest' if desc else 'smallest'} are {srt[:12]}",
                      dict(detail, got=got[:20]))
        return res
    bump(res, "cells_checked", len(got) * (len(gf) + (0 if brief else 1)))
    if not brief:
        check_int_types(res, verb, argv, recs, [[(oname, I(c))] for c in counts], sig)
    res["sample"] = {"monitor": "freq", "argv": argv, "n_records": n, "distinct": len(groups)}
    return res


# ==========================================================================================
# fill-down

def filldown_case(case):
    rng = random.Random(case["seed"])
    n = pick_n(rng, case["tier"])
    recs = make_stream(rng, n, {"x": "mixed_empty", "y": "text"}, missing=rng.choice([0.1, 0.3]), na=rng.randint(2, 6))
    only_absent = rng.random() < 0.4
    allf = rng.random() < 0.3
    ff = rng.choice([["a"], ["x"], ["a", "x"], ["y", "b", "nosuch"], ["x", "a", "y"]])
    aflag = rng.choice(["-a", "--only-if-absent"])
    argv = ["fill-down"] + (["--all"] if allf else ["-f", ",".join(ff)]) + ([aflag] if only_absent else [])
    if allf and rng.random() < 0.3:
        argv[1] = "-a" if not only_absent else "--all"     # keep "--all" spelled out: -a means only-if-absent
        argv = ["fill-down", "--all"] + ([aflag] if only_absent else [])
    res = case_result(_h("filldown", case["seed"]), False)
    got, detail = run_mlr(res, argv, recs, "fill-down")
    if got is None:
        return res
    last = {}
    exp = []
    filled = 0
    for r in recs:
        d = dict(r)
        row = []
        names = [k for k, _ in r] if allf else ff
        newvals = {}
        appended = []
        for f in names:
            present = f in d
            missing = (not present) if only_absent else (not present or d[f] == "")
            if missing:
                if f in last:
                    filled += 1
                    if present:
                        newvals[f] = last[f]
                    else:
                        appended.append((f, T(last[f])))
            else:
                last[f] = d[f]
        for k, v in r:
            row.append((k, T(newvals.get(k, v))))
        exp.append(row + appended)
    res["nontrivial"] = filled >= 2 and len({tuple(k for k, _ in r) for r in recs}) >= 2
    compare(res, "fill-down", detail, got, exp, {"opts": ("--all" if allf else "-f") + ("-a" if only_absent else "")},
            lambda k: "filled-field")
    res["sample"] = {"monitor": "filldown", "argv": argv, "n_records": n, "cells_filled": filled}
    return res


# ==========================================================================================
# DSL stats functions

class NumText(str):
    """a JSON number, kept as its text"""


def parse_json_keep_text(text):
    return json.loads(text, parse_float=NumText, parse_int=NumText, parse_constant=NumText)


def dsl_literal(text, is_string):
    if is_string:
        return json.dumps(text, ensure_ascii=False)
    return text


def flat_got(obj, prefix=""):
    out = []
    if isinstance(obj, dict):
        if not obj:
            out.append((prefix + "{}", ""))
        for k, v in obj.items():
            out += flat_got(v, f"{prefix}{k}/")
    elif isinstance(obj, list):
        out.append((prefix + "#", str(len(obj))))
        for i, v in enumerate(obj):
            out += flat_got(v, f"{prefix}{i}/")
    else:
        if obj is None:
            obj = "null"
        elif obj is True:
            obj = "true"
        elif obj is False:
            obj = "false"
        out.append((prefix.rstrip("/"), str(obj)))
    return out


def elem_expect(text, pool=()):
    """an element of the input returned as such (mode, percentile, sort): strings verbatim; numbers numerically
    identical (an int stays an int unless the pool holds a float of the same value: ties may come in any order)"""
    p = S.parse(text)
    if p is None:
        return T(text)
    if p.kind == "int" and not any((q is not None and q.kind == "float" and q.exact == p.exact) for q in pool):
        return I(p.i)
    return E(float(p.exact))


DSL_PS = ["0", "10", "25", "50", "75", "90", "99", "100", "0.1", "99.9", "25.5", "33", "66.6", "1", "5", "95"]


def dsl_expectations(texts, is_str, ps, opts):
    """name -> list of (path, Exp) for one collection.  opts: dict with il / oa / ais booleans."""
    n = len(texts)
    nums = [None if s_ else S.parse(t) for t, s_ in zip(texts, is_str)]
    all_num = all(x is not None for x in nums)
    out = {}

    def put(name, e):
        out[name] = [(name, e)]

    put("count", I(n))
    put("distinct_count", I(len(set(texts))))
    put("null_count", I(sum(1 for t in texts if t == "")))
    if n >= 1:
        put("mode", elem_expect(S.first_mode(texts)))
        put("antimode", elem_expect(S.first_mode(texts, anti=True)))
    if n >= 2:
        put("minlen", I(min(S.strlen(t) for t in texts)))
        put("maxlen", I(max(S.strlen(t) for t in texts)))
    # sort_collection: sorting.md "numeric data sorts before boolean before voids before strings"
    srt = S.sort_texts(texts)
    out["sort_collection"] = [("sort_collection/#", T(str(n)))] + [(f"sort_collection/{i}", elem_expect(t, nums)) for i, t in enumerate(srt)]
    # percentiles
    il, oa, ais = opts.get("il"), opts.get("oa"), opts.get("ais")
    base = list(texts) if ais else srt

    def pexp(ptext):
        p = Fraction(ptext)
        if n == 0:
            return T("")        # "Returns empty string AKA void for empty array/map"
        if il:
            if not all_num:
                return ANY      # "this produces error values on string inputs"
            if any(x.kind == "int" and abs(x.i) > 2 ** 53 for x in nums):
                return ANY      # interpolation between ints beyond 2^53: int64 overflow territory (C07)
            ex = [S.parse(t).exact for t in base]
            return N(S.pct_interp(p, ex), float(max(abs(e_) for e_ in ex)))
        idxs = S.pct_index_set(ptext, n)
        cands = [base[i] for i in idxs]
        if len(idxs) == 1:
            return elem_expect(cands[0], nums)
        return ANY if len({S.collation_key(c) for c in cands}) > 1 else elem_expect(cands[0], nums)

    if oa:
        out["percentiles"] = [("percentiles/#", T(str(len(ps))))] + [(f"percentiles/{i}", pexp(p)) for i, p in enumerate(ps)]
    else:
        out["percentiles"] = [(f"percentiles/{p}", pexp(p)) for p in ps]
    out["percentile"] = [("percentile", pexp(ps[0]))] if ps else []
    out["median"] = [("median", pexp("50"))]
    if not all_num:
        return out
    ints = all(x.kind == "int" for x in nums)
    if ints:
        s1 = int_sum(nums)
        put("sum", I(s1) if isinstance(s1, int) else N(s1, float(sum(abs(x.i) for x in nums))))
        for k in (2, 3, 4):
            tot = sum(x.i ** k for x in nums)
            small = all(abs(x.i) ** k <= S.INT64_MAX for x in nums) and sum(abs(x.i) ** k for x in nums) <= S.INT64_MAX
            put(f"sum{k}", I(tot) if small else N(float(tot), float(sum(abs(x.i) ** k for x in nums))))
    else:
        put("sum", N(sum((x.exact for x in nums), Fraction(0)), float(sum(abs(x.exact) for x in nums))))
        for k in (2, 3, 4):
            put(f"sum{k}", N(sum((x.exact ** k for x in nums), Fraction(0)), float(sum(abs(x.exact) ** k for x in nums))))
    if n == 0:
        put("mean", T(""))
    if any(x.kind == "int" and abs(x.i) > 2 ** 53 for x in nums) or n == 0:
        return out
    mom = S.moments([x.exact for x in nums])
    for nm, fn in (("mean", "mean"), ("var", "variance"), ("stddev", "stddev"), ("meaneb", "meaneb"), ("skewness", "skewness"), ("kurtosis", "kurtosis")):
        v, scale = mom[nm]
        if v is None or scale is None:
            continue
        put(fn, T("") if v == "" else N(v, scale))
    return out


def dsl_oa_case(case):
    """percentile()/median() take the same option map as percentiles() ("Please see the percentiles function for
    information on optional flags"); output_array_not_map has nothing to change for a single result."""
    expr = case["expr"]
    res = case_result(_h("dsl-oa", expr), True)
    argv = ["-n", "put", "-q", f"end {{ print {expr} }}"]
    r = R.mlr(argv, stdin="")
    bump(res, "runs")
    if not r.ok or r.out.strip() != case["want"]:
        add_violation(res, {"verb": "dsl", "kind": "rc" if not r.ok else "value", "fn": case["fn"], "opt": "oa"},
                      f"{expr}: expected {case['want']}, got rc={r.rc} stdout={r.out.strip()[:60]!r} stderr={r.err.strip()[:120]!r}",
                      {"argv": argv, "stdin": "", "expected": case["want"], "got": r.out, "stderr": r.err[-1500:]})
    else:
        bump(res, "cells_checked")
    return res


DSL_OA_CASES = [
    {"fn": "percentile", "expr": 'percentile([3,4,5,6,9,10], 90, {"oa": true})', "want": "10"},
    {"fn": "percentile", "expr": 'percentile([3,4,5,6,9,10], 25, {"output_array_not_map": true})', "want": "4"},
    {"fn": "median", "expr": 'median([3,4,5,6,9,10], {"oa": true})', "want": "6"},
    {"fn": "percentile", "expr": 'percentile([3,4,5,6,9,10], 25, {"oa": false})', "want": "4"},
    {"fn": "median", "expr": 'median([3,4,5,6,9,10], {"oa": false, "il": true})', "want": "5.5"},
]


DSL_TYPES_FUNC = ("func types(x) { if (is_map(x)) { return apply(x, func(k,v) { return {k: typeof(v)} }) } "
                  "elif (is_array(x)) { return apply(x, func(e) { return typeof(e) }) } else { return typeof(x) } }")

DSL_FUNCS = ["count", "distinct_count", "null_count", "mode", "antimode", "minlen", "maxlen", "sort_collection", "percentiles",
             "percentile", "median", "sum", "sum2", "sum3", "sum4", "mean", "variance", "stddev", "meaneb", "skewness", "kurtosis"]


def dsl_case(case):
    rng = random.Random(case["seed"])
    K = case.get("k", 8)
    prog = [DSL_TYPES_FUNC, "end {"]
    expect = []
    colls = []
    for ci in range(K):
        prof = rng.choice(["int", "int", "bigint", "float", "mixed", "mixed", "text", "mixed_empty"])
        r = rng.random()
        n = 0 if r < 0.04 else (1 if r < 0.1 else (rng.randint(2, 12) if r < 0.8 else rng.randint(13, 60)))
        texts = [gen_value(rng, prof) for _ in range(n)]
        how = rng.choice(["literal", "map", "splita", "splita"])
        if how != "splita":
            # a negative literal is a computed value (unary minus) and loses its spelling: keep literals non-negative
            texts = [("9223372036854775807" if t == "-9223372036854775808" else t.lstrip("-")) for t in texts]
        if how == "splita" and n == 0:
            how = "literal"
        if how == "splita" and n == 1 and texts[0] == "":
            texts = ["7"]
        is_str = [(t == "" or not S.is_numeric_text(t)) for t in texts]
        as_map = how == "map"
        lits = [dsl_literal(t, s_) for t, s_ in zip(texts, is_str)]
        if as_map:
            coll = "{" + ", ".join(f'"k{i}": {l}' for i, l in enumerate(lits)) + "}"
        elif how == "splita":
            # splita: "Splits string into array with type inference" - the same inference as for field values
            coll = "splita(" + json.dumps(";".join(texts), ensure_ascii=False) + ', ";")'
        else:
            coll = "[" + ", ".join(lits) + "]"
        ps = rng.sample(DSL_PS, rng.randint(1, 5))
        opts = {"il": rng.random() < 0.3, "oa": rng.random() < 0.3, "ais": rng.random() < 0.2}
        if opts["il"] and prof in ("text",):
            opts["il"] = False
        if opts["ais"] and as_map:
            opts["ais"] = False        # "array_is_sorted" on a map is an error value
        oparts = []
        if opts["il"]:
            oparts.append(rng.choice(['"interpolate_linearly": true', '"il": true']))
        if opts["oa"]:
            oparts.append(rng.choice(['"output_array_not_map": true', '"oa": true']))
        if opts["ais"]:
            oparts.append(rng.choice(['"array_is_sorted": true', '"ais": true']))
        ostr = ("{" + ", ".join(oparts) + "}") if oparts else None
        oparts1 = [o for o in oparts if "oa" not in o and "output_array" not in o]
        ostr1 = ("{" + ", ".join(oparts1) + "}") if oparts1 else None
        exp = dsl_expectations(texts, is_str, ps, opts)
        prog.append(f"  c = {coll};")
        prog.append(f"  @r[{ci}] = {{}};")
        prog.append(f"  @t[{ci}] = {{}};")
        for fn in DSL_FUNCS:
            if fn not in exp:
                continue
            if fn == "percentiles":
                call = f"percentiles(c, [{', '.join(ps)}]" + (f", {ostr})" if ostr else ")")
            elif fn == "percentile":
                call = f"percentile(c, {ps[0]}" + (f", {ostr1})" if ostr1 else ")")
            elif fn == "median":
                call = "median(c" + (f", {ostr1})" if ostr1 else ")")
            else:
                call = f"{fn}(c)"
            prog.append(f'  @r[{ci}]["{fn}"] = {call};')
            prog.append(f'  @t[{ci}]["{fn}"] = types({call});')
        expect.append(exp)
        colls.append({"collection": coll, "ps": ps, "opts": opts})
    prog.append('  dump {"r": @r, "t": @t};')
    prog.append("}")
    program = "\n".join(prog)
    argv = ["-n", "put", "-q", program]
    res = case_result(_h("dsl", case["seed"]), True)
    r = R.mlr(argv, stdin="")
    bump(res, "runs")
    detail = {"argv": argv, "stdin": ""}
    if r.verdict == "slow":
        res["inconc"] += 1
        return res
    if not r.ok:
        add_violation(res, {"verb": "dsl", "kind": "rc"}, f"DSL stats program over in-domain collections fails: rc={r.rc} {r.err[:300]!r}",
                      dict(detail, stderr=r.err[-3000:]))
        return res
    try:
        gotall = parse_json_keep_text(r.out)
    except ValueError:
        add_violation(res, {"verb": "dsl", "kind": "unparseable"}, "DSL stats: dump output is not JSON", dict(detail, stdout=r.out[:3000]))
        return res
    keys = []
    typesall = gotall.get("t", {}) if isinstance(gotall, dict) else {}
    gotall = gotall.get("r", {}) if isinstance(gotall, dict) else {}
    for ci in range(K):
        g = gotall.get(str(ci), {})
        tg = typesall.get(str(ci), {})
        for fn, cells in expect[ci].items():
            # "sums/min/max of ints stay ints": every result the recomputation gives as an exact integer must be of type int
            # (the dump text cannot tell int 6 from float 6)
            tf_ = dict(flat_got({fn: tg[fn]})) if fn in tg else {}
            for path, e in cells:
                if e[0] == "I" and path in tf_:
                    bump(res, "int_type_cells_checked")
                    if tf_[path] != "int":
                        add_violation(res, {"verb": "dsl", "kind": "type", "fn": fn, "cell": fn},
                                      f"DSL {fn}({colls[ci]['collection'][:120]}): {path} is the exact integer {e[1]} by recomputation but typeof gives {tf_[path]}",
                                      dict(detail, collection=colls[ci], function=fn, got_types=tg.get(fn), got_value=g.get(fn)))
                        break
            gf_ = dict(flat_got({fn: g[fn]})) if fn in g else {}
            gl = []
            for path, e in cells:
                if path in gf_:
                    gl.append((path, gf_[path]))
                elif e[0] == "A" or (e[0] == "T" and e[1] == ""):
                    gl.append((path, ""))      # absent/void results are not stored by the assignment
            extra = [p_ for p_ in gf_ if p_ not in {p for p, _ in cells}]
            if extra:
                add_violation(res, {"verb": "dsl", "kind": "keys", "cell": fn},
                              f"DSL {fn}: unexpected result entries {extra[:5]} for {colls[ci]['collection'][:200]}",
                              dict(detail, collection=colls[ci], got=g.get(fn)))
                continue
            nck = compare(res, "dsl", dict(detail, collection=colls[ci], function=fn, got_value=g.get(fn)), [gl], [cells],
                          {"fn": fn, "il": bool(colls[ci]["opts"]["il"]) if fn in ("percentiles", "percentile", "median") else False},
                          lambda k: fn, what_prefix=f"{fn}({colls[ci]['collection'][:120]}): ", loose_order=True)
            if nck:
                keys.append(_h("dslcell", case["seed"], ci, fn))
    res["nontrivial_keys"] = keys
    res["evals"] = K
    res["stats"]["dsl_functions_seen"] = sorted({fn for e in expect for fn in e})
    res["sample"] = {"monitor": "dsl", "collections": K, "first": colls[0] if colls else None}
    return res


# ==========================================================================================
# the full (p, n) percentile grid through stats1 and percentiles()

GRID_PS = ["0", "0.1"] + [str(i) for i in range(1, 100)] + ["99.9", "100", "12.5", "37.5", "2.5", "97.5", "33.3", "66.7"]


def grid_values(rng, n, prof=None):
    """n value texts with pairwise distinct numeric values (so that an off-by-one index is visible), shuffled."""
    prof = prof or rng.choice(["int", "float", "mixed"])
    vals = set()
    while len(vals) < n:
        vals.add(gen_value(rng, prof) if n <= 60 else str(rng.randint(-10 ** 6, 10 ** 6)))
        if len(vals) < n and n <= 60 and rng.random() < 0.3:
            vals.add(str(rng.randint(-500, 500)))
    byval = {}
    for v in vals:
        byval.setdefault(S.parse(v).exact, v)
    vals = list(byval.values())
    while len(vals) < n:
        v = str(rng.randint(-10 ** 7, 10 ** 7))
        if S.parse(v).exact not in byval:
            byval[S.parse(v).exact] = v
            vals.append(v)
    rng.shuffle(vals)
    return vals


def pgrid_case(case):
    rng = random.Random(case["seed"])
    n = case["n"]
    interp = case["interp"]
    via = case["via"]
    vals = grid_values(rng, n)
    res = case_result(_h("pgrid", n, interp, via, case["seed"]), n >= 2)
    keys = []
    if via == "stats1":
        recs = [[("x", v)] for v in vals]
        accs = ["p" + p for p in GRID_PS]
        argv = ["stats1", "-a", ",".join(accs), "-f", "x"] + (["-i"] if interp else [])
        got, detail = run_mlr(res, argv, recs, "stats1")
        if got is None:
            return res
        if interp:
            exp = [[(f"x_{a}", acc_expect(a, vals, 0, interp)) for a in accs]]
        else:
            srt = [t for _, t in sorted((S.parse(v).exact, v) for v in vals)]      # numerically distinct by construction
            exp = [[(f"x_{a}", _pct_pick(srt, a)) for a in accs]]
        nck = compare(res, "stats1", detail, got, exp, {"interp": interp, "grid": True}, lambda k: "percentile")
    else:
        coll = "[" + ", ".join(vals) + "]"
        opt = ', {"il": true}' if interp else ""
        argv = ["-n", "put", "-q", f"end {{ dump percentiles({coll}, [{', '.join(GRID_PS)}]{opt}) }}"]
        r = R.mlr(argv, stdin="")
        bump(res, "runs")
        detail = {"argv": argv, "stdin": ""}
        if r.verdict == "slow":
            res["inconc"] += 1
            return res
        if not r.ok:
            add_violation(res, {"verb": "dsl", "kind": "rc"}, f"percentiles() grid fails rc={r.rc} {r.err[:200]!r}", detail)
            return res
        g = parse_json_keep_text(r.out)
        got = [[(k, str(v)) for k, v in g.items()]]
        e = dsl_expectations(vals, [False] * n, GRID_PS, {"il": interp})["percentiles"]
        exp = [[(p.split("/", 1)[1], x) for p, x in e]]
        nck = compare(res, "dsl", detail, got, exp, {"fn": "percentiles", "il": interp, "grid": True}, lambda k: "percentiles")
    if nck:
        for p in GRID_PS:
            keys.append(f"pgrid/{via}/{int(interp)}/{n}/{p}")
            if S.pct_boundary(Fraction(p), n):
                bump(res, "pn_rounding_boundaries_checked")
    res["nontrivial_keys"] = keys if n >= 2 else []
    res["evals"] = len(GRID_PS)
    res["stats"]["grid_n_seen"] = [n]
    if n == 7 and via == "stats1" and not interp:
        res["sample"] = {"monitor": "pgrid", "n": n, "values": vals, "percentiles": len(GRID_PS)}
    return res


# ==========================================================================================
# the non-interpolated index rule through every other user of the percentile code: stats1 -s (running: one run
# visits every group size 1..n), stats1 -w, merge-fields, percentile()/median()/percentiles() on arrays and maps

ROUTE_ACCS = ["p" + p for p in GRID_PS] + ["median"]
_IDX_CACHE = {}


def _pct_pick(srt, acc):
    """expected cell for the non-interpolated percentile `acc` over the sorted, numerically distinct texts `srt`"""
    n = len(srt)
    ptext = "50" if acc == "median" else acc[1:]
    key = (ptext, n)
    if key not in _IDX_CACHE:
        _IDX_CACHE[key] = sorted(S.pct_index_set(ptext, n))
    idxs = _IDX_CACHE[key]
    return T(srt[idxs[0]]) if len(idxs) == 1 else ONEOF([srt[i] for i in idxs])


def proutes_case(case):
    import bisect
    rng = random.Random(case["seed"])
    route = case["route"]
    res = case_result(_h("proutes", route, case["seed"]), True)
    keys = []
    sizes = set()
    cc = lambda k: "percentile"
    if route in ("stats1-s", "stats1-w"):
        n = case["n"]
        w = case.get("w")
        vals = grid_values(rng, n, "int" if n > 60 else None)
        recs = [[("id", f"r{i+1}"), ("x", v)] for i, v in enumerate(vals)]
        argv = ["stats1", "-a", ",".join(ROUTE_ACCS), "-f", "x"] + (["-s"] if route == "stats1-s" else ["-w", str(w)])
        got, detail = run_mlr(res, argv, recs, "stats1")
        if got is None:
            return res
        summary = [g for g in got if "id" not in dict(g)]
        got = [g for g in got if "id" in dict(g)]
        exp = []
        win = []       # (exact, text) sorted
        for i, v in enumerate(vals):
            bisect.insort(win, (S.parse(v).exact, v))
            if w and i >= w:
                old = vals[i - w]
                win.remove((S.parse(old).exact, old))
            srt = [t for _, t in win]
            sizes.add(len(srt))
            exp.append([("id", T(f"r{i+1}")), ("x", T(v))] + [(f"x_{a}", _pct_pick(srt, a)) for a in ROUTE_ACCS])
        nck = compare(res, "stats1", detail, got, exp, {"opts": "-s" if route == "stats1-s" else "-w", "interp": False, "grid": True}, cc)
        if route == "stats1-s" and summary:     # whether -s also prints the final statistics is not documented
            srt = [t for _, t in win]
            compare(res, "stats1", detail, summary, [[(f"x_{a}", _pct_pick(srt, a)) for a in ROUTE_ACCS]],
                    {"opts": "-s-final", "interp": False, "grid": True}, cc)
    elif route == "merge":
        ns = case["ns"]
        recs, exp = [], []
        how = rng.choice(["-f", "-r"])
        for ri, n in enumerate(ns):
            vals = grid_values(rng, n, "int" if n > 60 else None)
            recs.append([("id", f"r{ri+1}")] + [(f"x{j+1}_in", v) for j, v in enumerate(vals)])
            srt = [t for _, t in sorted((S.parse(v).exact, v) for v in vals)]
            sizes.add(n)
            exp.append([("id", T(f"r{ri+1}"))] + [(f"out_{a}", _pct_pick(srt, a)) for a in ROUTE_ACCS])
        if how == "-f":
            argv = ["merge-fields", "-a", ",".join(ROUTE_ACCS), "-f", ",".join(f"x{j+1}_in" for j in range(max(ns))), "-o", "out"]
        else:
            argv = ["merge-fields", "-a", ",".join(ROUTE_ACCS), "-r", "^x[0-9]+_in$", "-o", "out"]
        got, detail = run_mlr(res, argv, recs, "merge-fields")
        if got is None:
            return res
        nck = compare(res, "merge-fields", detail, got, exp, {"form": how, "grid": True}, cc)
    else:   # dsl
        n = case["n"]
        vals = grid_values(rng, n, "int" if n > 60 else None)
        sizes.add(n)
        as_map = rng.random() < 0.3
        coll = ("{" + ", ".join(f'"k{i}": {v}' for i, v in enumerate(vals)) + "}") if as_map else ("[" + ", ".join(vals) + "]")
        # negative literals are computed values (unary minus): compare numerically, not by spelling
        prog = (f"end {{ c = {coll}; ps = [{', '.join(GRID_PS)}]; @single = {{}}; "
                "for (i = 1; i <= length(ps); i += 1) { @single[i] = percentile(c, ps[i]) } "
                "@median = median(c); @arr = percentiles(c, ps, {\"oa\": true}); @srt = percentiles(sort_collection(c), ps, {\"ais\": true, \"oa\": true}); "
                "dump }")
        argv = ["-n", "put", "-q", prog]
        r = R.mlr(argv, stdin="")
        bump(res, "runs")
        detail = {"argv": argv, "stdin": ""}
        if r.verdict == "slow":
            res["inconc"] += 1
            return res
        if not r.ok:
            add_violation(res, {"verb": "dsl", "kind": "rc", "grid": True}, f"percentile()/median() sweep fails rc={r.rc} {r.err[:200]!r}", detail)
            return res
        try:
            g = parse_json_keep_text(r.out)
        except ValueError:
            add_violation(res, {"verb": "dsl", "kind": "unparseable", "grid": True}, "percentile sweep: dump output is not JSON", dict(detail, stdout=r.out[:2000]))
            return res
        srt = [t for _, t in sorted((S.parse(v).exact, v) for v in vals)]

        def num_exp(acc):
            e = _pct_pick(srt, acc)
            if e[0] == "T":
                return elem_expect(e[1])
            vs = {S.parse(t).exact for t in e[1]}
            return ANY if len(vs) > 1 else elem_expect(e[1][0])
        nck = 0
        single = g.get("single", {})
        got1 = [[(f"p{p}", str(single.get(str(i + 1), "<absent>"))) for i, p in enumerate(GRID_PS)] + [("median", str(g.get("median", "<absent>")))]]
        exp1 = [[(f"p{p}", num_exp("p" + p)) for p in GRID_PS] + [("median", num_exp("median"))]]
        nck += compare(res, "dsl", detail, got1, exp1, {"fn": "percentile", "il": False, "grid": True}, lambda k: "median" if k == "median" else "percentile")
        for name in ("arr", "srt"):
            arr = g.get(name, [])
            if not isinstance(arr, list) or len(arr) != len(GRID_PS):
                add_violation(res, {"verb": "dsl", "kind": "keys", "fn": "percentiles", "grid": True},
                              f"percentiles(..., {name}) does not return an array of {len(GRID_PS)} values", dict(detail, got=arr))
                continue
            nck += compare(res, "dsl", detail, [[(f"p{p}", str(v)) for p, v in zip(GRID_PS, arr)]], [[(f"p{p}", num_exp("p" + p)) for p in GRID_PS]],
                           {"fn": "percentiles", "il": False, "grid": True, "opt": "oa" if name == "arr" else "ais"}, lambda k: "percentiles")
    if nck:
        for n_ in sizes:
            keys.append(f"proutes/{route}/{n_}")
            for p in GRID_PS:
                if S.pct_boundary(Fraction(p), n_):
                    bump(res, "pn_rounding_boundaries_checked")
    res["nontrivial_keys"] = keys
    res["evals"] = max(1, len(sizes))
    res["stats"]["route_n_seen_" + route] = sorted(sizes)
    return res


# ==========================================================================================
# null_count on JSON input: "Count number of empty-string/JSON-null instances per field" - the one accumulator whose
# definition mentions a typed JSON value (everything else about typed JSON input is outside this model)

def nulljson_case(case):
    rng = random.Random(case["seed"])
    n = rng.choice([1, 2, 5, 12, 30])
    recs = []
    for i in range(n):
        r = {"id": f"r{i+1}", "g": rng.choice(["a", "b", "c"])}
        for f in ("x", "y", "z"):
            q = rng.random()
            if q < 0.2:
                continue
            r[f] = None if q < 0.45 else ("" if q < 0.6 else (rng.randint(-5, 5) if q < 0.9 else "abc"))
        recs.append(r)
    stdin = json.dumps(recs)
    res = case_result(_h("nulljson", case["seed"]), n >= 2)
    isnull = lambda v: v is None or v == ""
    # stats1
    argv = ["--ijson", "--ojson", "stats1", "-a", "null_count", "-f", "x,y", "-g", "g"]
    r = R.mlr(argv, stdin=stdin)
    bump(res, "runs")
    detail = {"argv": argv, "stdin": stdin}
    if r.verdict == "slow":
        res["inconc"] += 1
        return res
    try:
        out = json.loads(r.out) if r.ok else None
    except ValueError:
        out = None
    if out is None:
        add_violation(res, {"verb": "stats1", "kind": "rc", "input": "json-null"}, f"stats1 null_count on JSON input fails: rc={r.rc} {r.err[:200]!r}", detail)
    else:
        exp = {}
        for rec in recs:
            e = exp.setdefault(rec["g"], {})         # groups in order of first appearance, whether or not that record has x / y
            for f in ("x", "y"):
                if f in rec:
                    e[f + "_null_count"] = e.get(f + "_null_count", 0) + (1 if isnull(rec[f]) else 0)
        exp = {g_: c for g_, c in exp.items() if c}
        got = {o.get("g"): {k: v for k, v in o.items() if k != "g"} for o in out}
        got = {g_: c for g_, c in got.items() if c}        # a group in which neither field ever occurs: emitted bare or not at all
        if got != exp or [o.get("g") for o in out if o.get("g") in got] != list(exp):
            add_violation(res, {"verb": "stats1", "kind": "value", "cell": "null_count", "input": "json-null"},
                          f"stats1 -a null_count over JSON input with null / empty values: got {got}, recounted {exp}", dict(detail, got=out, expected=exp))
        else:
            bump(res, "cells_checked", sum(len(v) for v in exp.values()))
    # merge-fields
    argv = ["--ijson", "--ojson", "merge-fields", "-a", "null_count", "-f", "x,y,z", "-o", "o"]
    r = R.mlr(argv, stdin=stdin)
    bump(res, "runs")
    detail = {"argv": argv, "stdin": stdin}
    try:
        out = json.loads(r.out) if r.ok else None
    except ValueError:
        out = None
    if out is None or len(out) != len(recs):
        add_violation(res, {"verb": "merge-fields", "kind": "rc", "input": "json-null"}, f"merge-fields null_count on JSON input: rc={r.rc} {r.err[:200]!r}", detail)
    else:
        for rec, o in zip(recs, out):
            want = sum(1 for f in ("x", "y", "z") if f in rec and isnull(rec[f]))
            if o.get("o_null_count") != want:
                add_violation(res, {"verb": "merge-fields", "kind": "value", "cell": "null_count", "input": "json-null"},
                              f"merge-fields -a null_count: record {rec} gives {o.get('o_null_count')!r}, recounted {want}", dict(detail, got=o))
                break
            bump(res, "cells_checked")
    # DSL
    lits = ", ".join("null" if v is None else json.dumps(v) for rec in recs for v in [rec.get("x", 1)])
    argv = ["-n", "put", "-q", f"end {{ print null_count([{lits}]) }}"]
    r = R.mlr(argv, stdin="")
    bump(res, "runs")
    want = sum(1 for rec in recs if isnull(rec.get("x", 1)))
    if not r.ok or r.out.strip() != str(want):
        add_violation(res, {"verb": "dsl", "kind": "value", "fn": "null_count", "cell": "null_count", "input": "json-null"},
                      f"null_count([{lits[:100]}]) prints {r.out.strip()[:40]!r}, recounted {want}", {"argv": argv, "stdin": "", "expected": want, "got": r.out})
    else:
        bump(res, "cells_checked")
    return res


# ==========================================================================================
# group keys whose texts contain the key joiner: "Groups are formed by the exact texts of the group-by fields"

def collide_case(case):
    verb_argv = case["argv"]
    name = case["name"]
    a1, b1, a2, b2 = case["vals"]
    recs_json = json.dumps([{"id": "r1", "a": a1, "b": b1, "x": 1}, {"id": "r2", "a": a2, "b": b2, "x": 2},
                            {"id": "r3", "a": a1, "b": b1, "x": 4}])
    argv = ["--ijson", "--ojson"] + verb_argv
    res = case_result(_h("collide", name, case["vals"]), True)
    r = R.mlr(argv, stdin=recs_json)
    bump(res, "runs")
    detail = {"argv": argv, "stdin": recs_json}
    if not r.ok:
        add_violation(res, {"verb": name, "kind": "rc"}, f"{name}: rc={r.rc} {r.err[:200]!r}", detail)
        return res
    try:
        out = json.loads(r.out)
        # the two groups are (a1,b1) x2 and (a2,b2) x1: every verb below must show two groups
        seen = {(str(o.get("a")), str(o.get("b"))) for o in out}
        byid = lambda key: [o.get(key) for o in sorted(out, key=lambda o: o["id"])]
        r6 = lambda xs: [round(x, 6) if isinstance(x, (int, float)) else x for x in xs]
        if name in ("count", "count-distinct", "uniq -c", "most-frequent"):
            obs, good, merged = sorted(o.get("count", -1) for o in out), [1, 2], [3]
        elif name == "stats1":
            obs, good, merged = sorted(o.get("x_sum", -1) for o in out), [2, 5], [7]
        elif name == "count-similar":
            obs, good, merged = sorted(o.get("count", -1) for o in out), [1, 2, 2], [3, 3, 3]
        elif name == "step":
            obs, good, merged = byid("x_rsum"), [1, 2, 5], [1, 3, 7]
        elif name == "fraction":
            obs, good, merged = r6(byid("x_fraction")), [0.2, 1, 0.8], r6([1 / 7, 2 / 7, 4 / 7])
        elif name == "top":
            obs, good, merged = sorted(o.get("x_top", -1) for o in out), [2, 4], [4]
        else:
            raise AssertionError(name)
    except (ValueError, KeyError, TypeError, AttributeError) as ex:
        add_violation(res, {"verb": name, "kind": "unparseable", "joiner": case["joiner"]}, f"{name}: output cannot be interpreted ({ex})",
                      dict(detail, stdout=r.out[:2000]))
        return res
    both = (a1, b1) in seen and (a2, b2) in seen
    if both and obs == good:
        bump(res, "cells_checked")
    elif obs == merged:
        # exactly the result of treating the two different groups as ONE group: the collision defect
        add_violation(res, {"verb": name, "kind": "group-collision", "joiner": case["joiner"]},
                      f"{name}: records with (a,b) = ({a1!r},{b1!r}) and ({a2!r},{b2!r}) are put in one group",
                      dict(detail, got=out))
    else:
        add_violation(res, {"verb": name, "kind": "value", "cell": "two-group-result", "joiner": case["joiner"]},
                      f"{name}: two groups of sizes 2 and 1 expected ({good}), got {obs} - neither the correct result nor the result of "
                      f"merging the two groups", dict(detail, got=out))
    return res


def collide_cases(chk):
    verbs = [("count", ["count", "-g", "a,b"]), ("count-distinct", ["count-distinct", "-f", "a,b"]),
             ("uniq -c", ["uniq", "-g", "a,b", "-c"]), ("stats1", ["stats1", "-a", "sum", "-f", "x", "-g", "a,b"]),
             ("count-similar", ["count-similar", "-g", "a,b"]), ("step", ["step", "-a", "rsum", "-f", "x", "-g", "a,b"]),
             ("top", ["top", "-f", "x", "-g", "a,b"]), ("fraction", ["fraction", "-f", "x", "-g", "a,b"]),
             ("most-frequent", ["most-frequent", "-f", "a,b"])]
    vals = [(("1,2", "3", "1", "2,3"), ","), (("p q", "r", "p", "q r"), " "), (("p;q", "r", "p", "q;r"), ";"),
            (("p|q", "r", "p", "q|r"), "|"), (("p\tq", "r", "p", "q\tr"), "tab"), (("", "x", "x", ""), "empty-swap"),
            (("p\u001fq", "r", "p", "q\u001fr"), "US")]
    return [{"name": n_, "argv": a, "vals": v, "joiner": j} for n_, a in verbs for v, j in vals]


# ==========================================================================================
# worked examples in `mlr help function <stats function>`: recorded statements of the intended results

def docex_case(case):
    fn = case["fn"]
    res = case_result(_h("docex", fn), True)
    h = R.mlr(["help", "function", fn])
    bump(res, "runs")
    keys = []
    for line in h.out.splitlines():
        m = re.match(r"\s*(%s\(.*\))\s+(?:is|gives)\s+(.+?)\s*(?:which is (?:in)?correct)?$" % re.escape(fn), line)
        if not m:
            continue
        expr, want = m.group(1), m.group(2)
        if " x" in expr or "(x" in expr:
            continue          # examples that refer to a variable defined on an earlier line
        r = R.mlr(["-n", "put", "-q", f"end {{ print {expr} }}"])
        bump(res, "runs")
        detail = {"argv": r.argv[1:], "stdin": "", "doc_line": line}
        if not r.ok:
            add_violation(res, {"verb": "dsl", "kind": "rc", "fn": fn}, f"documented example {expr} fails: {r.err[:200]!r}", detail)
            continue
        got = r.out.strip()
        norm = lambda s_: re.sub(r"\s+", "", s_)
        w = want.rstrip(".")
        okv = norm(got) == norm(w) or norm(got) == norm(w.strip('"'))
        if not okv:
            try:
                a, b = float(got), float(w)
                okv = abs(a - b) <= 1e-6 * max(1.0, abs(b))
            except ValueError:
                pass
        if not okv:
            add_violation(res, {"verb": "dsl", "kind": "doc-example", "fn": fn},
                          f"`mlr help function {fn}` says {expr} is {want}; the binary prints {got[:80]!r}", detail)
        else:
            keys.append(f"docex/{fn}/{_h(expr)}")
            bump(res, "doc_examples_reproduced")
    res["nontrivial_keys"] = keys
    return res


# ==========================================================================================
# doc-replay (DESIGN 2.9) restricted to this property's verbs: every GENMD block in reference-verbs.md is a
# recorded execution (command, stdout) of upstream Miller

DOC_VERBS = ["count", "count-distinct", "count-similar", "fill-down", "fraction", "histogram", "least-frequent",
             "merge-fields", "most-frequent", "stats1", "step", "top", "uniq"]
DOCS_SRC = "/repo/docs/src"
_NUM_TOKEN = re.compile(r"-?[0-9]+(\.[0-9]+)?([eE][-+]?[0-9]+)?\Z")


def doc_blocks(verb):
    import html
    try:
        text = open(f"{DOCS_SRC}/reference-verbs.md", encoding="utf-8").read()
    except OSError:
        return []
    m = re.search(r"^## %s\n(.*?)(?=^## |\Z)" % re.escape(verb), text, re.S | re.M)
    if not m:
        return []
    out = []
    for b in re.finditer(r'<pre class="pre-highlight-in-pair">\n((?:<b>.*?</b>\n)+)</pre>\n<pre class="pre-non-highlight-in-pair">\n(.*?)</pre>',
                         m.group(1), re.S):
        cmd = "\n".join(html.unescape(x) for x in re.findall(r"<b>(.*?)</b>", b.group(1)))
        out.append((cmd, html.unescape(b.group(2))))
    return out


def docreplay_case(case):
    import shlex
    verb = case["verb"]
    res = case_result(_h("docreplay", verb), True)
    keys = []
    for cmd, want in doc_blocks(verb):
        flat = cmd.replace("\\\n", " ")
        try:
            toks = shlex.split(flat)
        except ValueError:
            bump(res, "doc_blocks_skipped")
            continue
        if not toks or toks[0] != "mlr":
            bump(res, "doc_blocks_skipped")
            continue
        head = None
        if "|" in toks:
            i = toks.index("|")
            tail = toks[i + 1:]
            toks = toks[:i]
            if len(tail) == 2 and tail[0] == "head" and re.match(r"-[0-9]+\Z", tail[1]):
                head = int(tail[1][1:])
            elif len(tail) == 3 and tail[0] == "head" and tail[1] == "-n":
                head = int(tail[2])
            else:
                bump(res, "doc_blocks_skipped")
                continue
        if any(t in (">", ">>", "<", ";", "&&", "2>&1") for t in toks) or "tee" in toks or "split" in toks or "-I" in toks:
            bump(res, "doc_blocks_skipped")
            continue
        r = R.mlr(toks[1:], cwd=DOCS_SRC)
        bump(res, "runs")
        detail = {"argv": toks[1:], "stdin": "", "cwd": DOCS_SRC, "doc_command": cmd}
        if r.verdict == "slow":
            res["inconc"] += 1
            continue
        got = r.out
        if head is not None:
            got = "".join(got.splitlines(True)[:head])
        gl, wl = got.rstrip("\n").split("\n"), want.rstrip("\n").split("\n")
        bad = None
        if r.rc != 0 and "--help" not in toks and "-h" not in toks:
            bad = f"exit status {r.rc}: {r.err[:200]!r}"
        elif len(gl) != len(wl):
            bad = f"{len(gl)} output lines, the documentation shows {len(wl)}"
        else:
            for li, (a, b) in enumerate(zip(gl, wl)):
                if a == b:
                    continue
                ta, tb = re.split(r"[\s,=]+", a.strip()), re.split(r"[\s,=]+", b.strip())
                same = len(ta) == len(tb)
                if same:
                    for x, y in zip(ta, tb):
                        if x == y:
                            continue
                        if _NUM_TOKEN.match(x) and _NUM_TOKEN.match(y) and abs(float(x) - float(y)) <= 1e-9 * max(abs(float(x)), abs(float(y))):
                            continue
                        same = False
                        break
                if not same:
                    bad = f"line {li+1}: got {a[:120]!r}, documented {b[:120]!r}"
                    break
        if bad:
            add_violation(res, {"verb": verb, "kind": "doc-replay", "cmd": _h(cmd)},
                          f"reference-verbs.md ({verb}): `{flat[:140]}` - {bad}", dict(detail, expected=want[:3000], got=got[:3000]))
        else:
            keys.append(f"docreplay/{verb}/{_h(cmd)}")
            bump(res, "doc_blocks_reproduced")
    res["nontrivial_keys"] = keys
    res["evals"] = max(1, len(keys))
    return res


# ==========================================================================================

MONITORS = {
    # name: (worker, quick count, thorough count)
    "count": (count_case, 40, 400),
    "cdist": (cdist_case, 50, 500),
    "csim": (csim_case, 30, 300),
    "uniq": (uniq_case, 70, 700),
    "stats1": (stats1_case, 220, 3000),
    "stats1rx": (stats1_regex_case, 60, 600),
    "stats1w": (stats1w_case, 90, 1200),
    "merge": (merge_case, 120, 1800),
    "step": (step_case, 200, 3000),
    "top": (top_case, 80, 900),
    "fraction": (fraction_case, 70, 700),
    "histogram": (histogram_case, 70, 700),
    "freq": (freq_case, 50, 500),
    "filldown": (filldown_case, 60, 600),
    "dsl": (dsl_case, 60, 800),
}

def dispatch(case):
    """one sample per monitor in the evidence file instead of five from the first monitor"""
    res = MONITORS[case["mon"]][0](case)
    if case.get("i") != 0:
        res["sample"] = None
    return res


ASSUMPTIONS = [
    "Value spellings are limited to decimal ints within int64, 0x hex ints, fixed-point decimals and (profile spfloat) floats with a "
    "leading/trailing point or a decimal exponent (5. .5 1e3 1.5E-2); anything else the oracle's parser does not cover is never generated "
    "(number grammar is C06's subject). Empty or text values in the value field of step/top/fraction/histogram are not generated "
    "(fraction and histogram document numeric input and stop with an error; step and top say nothing).",
    "Conventions not fixed by the help text are pinned from the worked examples in `mlr help function ...` and the recorded outputs in "
    "reference-verbs.md (both replayed by this check: monitors docex, docreplay): var = sum (x-mu)^2/(n-1); stddev = sqrt(var); "
    "meaneb = sqrt(var/n); mad = mean absolute deviation sum|x-mu|/n ('Compute mean absolute deviation'); kurtosis = m4/m2^2 - 3 with "
    "population moments (kurtosis([4,5,9,10,11]) is -1.6703688); skewness = m3/s^3 with the SAMPLE standard deviation "
    "(skewness([4,5,9,10,11]) is -0.2097285; summary page of data/medium); var/stddev/meaneb/skewness/kurtosis of fewer than two values are empty.",
    "Percentiles: non-interpolated = sorted[int(p/100*n)] clamped to [0, n-1], interpolated (-i / interpolate_linearly) = R type 7, as in "
    "`mlr stats1 --help` and the worked examples of `mlr help function percentiles`/`median`. The index is recomputed in exact rational "
    "arithmetic, for p as the decimal written and for p as the IEEE double nearest to it (they differ only for p such as 66.6 that no "
    "double represents, when p*n/100 is an integer); nothing in the reference depends on the order of floating-point operations. "
    "p outside 0..100 is not exercised (`p{n} for n in 0..100`).",
    "Float results are compared with |got-ref| <= 1e-9*|ref| + 1e-12*scale, scale being the magnitude of the raw power sums the statistic "
    "is computed from (conditioning); references are exact rationals. Moments and interpolated percentiles of ints beyond 2^53, numeric "
    "accumulators over text, accumulators over no data, and any statistic whose definition divides by zero (zero variance, zero group sum, "
    "ratio to 0) have no modelled value: such a cell must still be a number (NaN/Inf included), empty or (error) - counted as "
    "cells_checked_weakly.",
    "stats1/merge-fields skip empty values for every accumulator except null_count ('count instances of fields' vs 'Count number of "
    "empty-string ... instances'); an accumulator over no data at all is declined except count/distinct_count/null_count; numeric "
    "accumulators are only checked on all-numeric data ('count and mode allow text input; the rest require numeric input'); min/max/"
    "percentiles on mixed data follow 'numbers are less than strings' and sorting.md (numeric < void < string).",
    "int sums follow reference-main-arithmetic.md: int + int stays int unless it leaves int64, then float arithmetic from there on "
    "(the running sum is simulated in that order; merge-fields -f: in record order or in -f order, the documentation does not say which).",
    "Field order inside an output record is not part of the property where the documentation does not fix it (stats1 emits value fields "
    "in order of first appearance, regex group-by fields in global first-appearance order): compared order-insensitively there.",
    "Records lacking a group-by field take part in no accumulation; whether a verb drops them or passes them through unchanged is not "
    "documented (count-similar and stats1 -s drop them, step and fraction pass them): both accepted, but they must be unchanged. "
    "Exception: stats1 -w documents 'One output record is emitted per input record', so there they must be passed through (C10-F11).",
    "top: a record is ranked if it has every -g and every -f field; with several -f fields, streams in which some record has some but "
    "not all of them are declined (skipped): the documentation does not say whether such a record is ranked for the fields it has. "
    "Groups in order of first contribution. Rows beyond the number of available values (padding with empty) are ignored. Ties may come "
    "in any order (top -a, most/least-frequent, equal-valued percentiles).",
    "step: counter, rsum, rprod, ewma, from-first run over the records of the group that have the value field (a record lacking it gets "
    "no stepper field for it). shift/shift_lag/shift_lead/delta/ratio 'n records back/forward': the help does not say whether records of "
    "the group lacking the field count as positions; where the literal reading (record i-n of the group) and the field-sequence reading "
    "(n-th previous record having the field) name the same record the cell is judged strictly, otherwise shift* must equal one of the "
    "two readings and delta/ratio are declined. No such record: shift empty, delta 0 (doc example), ratio 1 (regression case verb-step/0025). "
    "slwin windows containing a record without the field are declined. Output name of slwin_m_n is <field>_<m>_<n> (regression cases). "
    "With forward-looking steppers records are matched by id (emission order across groups is not documented).",
    "histogram: a value within 1e-9 (relative to the bin width) of a bin edge may be counted on either side (float division).",
    "fill-down: without -a a field is missing if absent or empty and the remembered value is the last non-empty one; with -a|--only-if-absent "
    "only absent counts and the remembered value is the last present one (possibly empty); --all = every field of the current record.",
    "DSL collections are written as literals (non-negative numbers only: a negative literal is a computed value and loses its spelling), "
    "as maps, or through splita() (same inference as field values). array_is_sorted is not combined with maps. percentile()/median() "
    "are not given output_array_not_map in the batch (see C10-F9; checked separately). sparkline() is only covered by its help examples.",
    "uniq has no -d/-u and stats1 has no first/last accumulator in this tree (`mlr uniq --help`, `mlr stats1 --help`): not covered.",
]


def run(chk):
    only = getattr(chk, "only", None)
    chk.sample_cap = 16
    chk.assumptions = ASSUMPTIONS
    chk.rule = ("Per verb family a fixed number of seeded cases (seed = VERIF_SEED/monitor/index): each case draws a stream of 0-300 records "
                "(id, group fields a/b from pools with 1, 1.0, 1.00, empty, 'pan ' etc., value fields with 20 % missing, ints/floats/mixed/"
                "empties/strings/hex/big ints, ties), an option set for the verb (every documented option that changes values), runs mlr once and "
                "recomputes every output cell (a second run of the same command followed by typeof() observes that exact-integer cells are ints); "
                "12 % of the streams are >= 13 fields wide, 3 % have 499..1003 records, 4 of 9 runs use --records-per-batch 1/2/7/100. "
                "Plus: the full (p, n) percentile grid (p in 0, 0.1, 1..99, 99.9, 100 and 6 fractional; non-interpolated: every n in 1..120, "
                "multiples of 10 to 300 and a sample [thorough: every n in 1..300, 499..501, 1000, 1003]; interpolated: a smaller n set) "
                "through stats1 and percentiles(); the same p grid through stats1 -s (one run visits every group size 1..300), stats1 -w, "
                "merge-fields, percentile(), median(), percentiles() with oa / ais; a slwin_m_n x n grid; group keys containing the key joiner; the worked examples of "
                "`mlr help function <stats fn>`; the recorded executions in reference-verbs.md for the 13 verbs. Non-trivial = >= 2 groups, >= 1 "
                "record left out for a missing group-by/value field, and >= 1 tie or mixed int/float column (grid/DSL/doc sub-cases: one key per "
                "checked (p, n, mode, route) cell, per (collection, function), per doc block). Distinct = by case seed / cell key.")
    for name, (func, nq, nt) in MONITORS.items():
        if only and name not in only:
            continue
        n = chk.pick(nq, nt)
        cases = [{"seed": f"{chk.seed}/{name}/{i}", "tier": chk.tier, "mon": name, "i": i} for i in range(n)]
        chk.pmap(dispatch, cases, label=name)
    if not only or "pgrid" in only:
        # Non-interpolated rule: every group size 1..120 and, above that, the sizes with the most rounding boundaries
        # (p*n/100 is an integer for many p when n is a multiple of 10) plus a seeded sample; thorough: every n in 1..300
        # and the sizes around the 500-record batch.  Interpolated: a smaller set (the formula has no truncation step).
        rs = chk.rng("pgrid-n")
        if chk.quick():
            ns_plain = sorted(set(range(1, 121)) | set(range(130, 301, 10)) | set(rs.sample(range(121, 300), 8)))
            ns_interp = list(range(1, 14)) + [20, 25, 40, 50, 100, 101]
        else:
            ns_plain = list(range(1, 301)) + [499, 500, 501, 1000, 1003]
            ns_interp = list(range(1, 41)) + [50, 64, 100, 101, 200, 1000]
        cases = [{"seed": f"{chk.seed}/pgrid/{n}/{via}/{int(ip)}", "n": n, "via": via, "interp": ip}
                 for ip, ns in ((False, ns_plain), (True, ns_interp)) for n in ns for via in ("stats1", "dsl")]
        chk.pmap(pgrid_case, cases, label="pgrid")
        chk.extra["percentile_grid"] = {"p_values": len(GRID_PS), "n_values_non_interpolated": ns_plain, "n_values_interpolated": ns_interp,
                                        "routes": ["stats1 -a pNN", "percentiles()"]}
    if not only or "proutes" in only:
        rs = chk.rng("proutes-n")
        many = [10, 20, 25, 30, 40, 50, 60, 70, 75, 80, 90, 100, 110, 120, 150, 200, 250, 300]   # sizes with many boundaries p*n/100 in Z
        cases = []
        for i, n in enumerate([300, 130] if chk.quick() else [300, 300, 200, 130, 64, 501]):
            cases.append({"seed": f"{chk.seed}/proutes/s/{i}", "route": "stats1-s", "n": n})
        ws = (many + rs.sample(range(2, 130), 6)) if chk.quick() else sorted(set(range(1, 131)) | set(many))
        for w in ws:
            cases.append({"seed": f"{chk.seed}/proutes/w/{w}", "route": "stats1-w", "n": w + 4, "w": w})
        all_n = sorted(set(range(1, 121)) | set(many) | set(rs.sample(range(121, 300), 6))) if chk.quick() else list(range(1, 301))
        for j in range(6):
            cases.append({"seed": f"{chk.seed}/proutes/m/{j}", "route": "merge", "ns": all_n[j::6]})
        dn = sorted(set(range(1, 31)) | set(many) | set(rs.sample(range(31, 300), 12))) if chk.quick() else list(range(1, 301)) + [500, 1003]
        for n in dn:
            cases.append({"seed": f"{chk.seed}/proutes/d/{n}", "route": "dsl", "n": n})
        chk.pmap(proutes_case, cases, label="percentile routes")
    if not only or "slwin" in only:
        ws = [(m, k) for m in range(0, 4) for k in range(0, 4)] if chk.quick() else [(m, k) for m in range(0, 7) for k in range(0, 7)]
        nn = [0, 1, 2, 5, 9] if chk.quick() else list(range(0, 31))
        rng = chk.rng("slwin")
        cases = [{"seed": f"{chk.seed}/slwin/{m}/{k}/{n}", "tier": chk.tier, "slw": (m, k), "n": n} for (m, k) in ws for n in nn]
        if chk.quick():
            cases = rng.sample(cases, 40)
        chk.pmap(step_case, cases, label="slwin grid")
    if not only or "stats1w" in only:
        ws = [1, 2, 3, 12] if chk.quick() else list(range(1, 13))
        cases = [{"seed": f"{chk.seed}/wgrid/{w}/{i}", "tier": chk.tier, "w": w} for w in ws for i in range(chk.pick(2, 12))]
        chk.pmap(stats1w_case, cases, label="stats1 -w grid")
    if not only or "nulljson" in only:
        chk.pmap(nulljson_case, [{"seed": f"{chk.seed}/nulljson/{i}"} for i in range(chk.pick(12, 120))], label="null_count on JSON null")
    if not only or "collide" in only:
        chk.pmap(collide_case, collide_cases(chk), label="collide")
    if not only or "dsl" in only:
        chk.pmap(dsl_oa_case, DSL_OA_CASES, label="dsl oa")
    if not only or "docex" in only:
        chk.pmap(docex_case, [{"fn": f} for f in DSL_FUNCS + ["sparkline"]], label="docex")
    if not only or "docreplay" in only:
        chk.pmap(docreplay_case, [{"verb": v} for v in DOC_VERBS], label="docreplay")
    st = chk.stats
    chk.extra["verbs_covered"] = ["count", "count-distinct", "count-similar", "uniq", "stats1", "merge-fields", "step", "top", "fraction",
                                  "histogram", "most-frequent", "least-frequent", "fill-down"]
    chk.extra["accumulators_checked"] = sorted(st.get("accs_seen", []))
    chk.extra["steppers_checked"] = sorted(st.get("steppers_seen", []))
    chk.extra["dsl_functions_checked"] = sorted(st.get("dsl_functions_seen", []))
    chk.extra["cells_checked"] = st.get("cells_checked", 0)
    chk.extra["cells_declined"] = st.get("cells_declined", 0)
    chk.extra["cells_checked_weakly"] = st.get("cells_checked_weakly", 0)
    chk.extra["int_type_cells_checked"] = st.get("int_type_cells_checked", 0)
    chk.extra["runs_with_small_batches"] = st.get("runs_with_small_batches", 0)
    chk.extra["mlr_runs"] = st.get("runs", 0)
    chk.extra["doc_blocks_reproduced"] = st.get("doc_blocks_reproduced", 0)
    chk.extra["doc_examples_reproduced"] = st.get("doc_examples_reproduced", 0)
    chk.extra["pn_rounding_boundaries_checked"] = st.get("pn_rounding_boundaries_checked", 0)
    chk.extra["percentile_route_sizes"] = {k[len("route_n_seen_"):]: sorted(v) for k, v in st.items() if k.startswith("route_n_seen_")}
    chk.extra["not_modelled"] = ["stats2", "bootstrap-ci", "summary", "sparkline", "bar", "histogram -s", "typed JSON input other than null_count on null",
                                 "empty/text values in the value field of step, top, fraction, histogram", "percentiles outside 0..100",
                                 "merge-fields -c with a collapse substring occurring twice in a name (help does not say which occurrence is removed)"]
