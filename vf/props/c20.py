"""C20 - fan-out outputs are complete, ordered and well-formed for any number of targets.
Partition model over target histories (incl. more targets than the 256-handle cache), strict
single-document readers per format, main-stream behaviour, race detector on the heavy histories."""
import hashlib
import json
import os
import random
import shutil
import urllib.parse

from .. import gen
from .. import run as R
from ..harness import add_violation, bump, case_result

BINARIES = ("mlr-verif", "mlr-race")
LEVEL = "exploration"

FORMATS = ["csv", "tsv", "json", "jsonl", "dkvp", "xtab", "pprint", "markdown"]
OFLAG = {"csv": "--ocsv", "tsv": "--otsv", "json": "--ojson", "jsonl": "--ojsonl", "dkvp": "--odkvp",
         "xtab": "--oxtab", "pprint": "--opprint", "markdown": "--omd"}


def _h(*xs):
    return hashlib.sha1(repr(xs).encode()).hexdigest()[:16]


# ---- strict single-document readers (independent of Miller; values here never need quoting) -------

class Malformed(Exception):
    pass


def _flat1(o):
    out = []
    for k, x in o:
        if isinstance(x, list) and (not x or isinstance(x[0], tuple)):
            out += [(k + "." + k2, x2 if isinstance(x2, str) else str(x2)) for k2, x2 in x]
        else:
            out.append((k, x if isinstance(x, str) else str(x)))
    return out


def lru_reopened(seq_names, cap=256):
    """Simulate the documented handle cache (LRU, capacity 256): names re-opened after having been evicted."""
    from collections import OrderedDict
    cache = OrderedDict()
    opened = set()
    reopened = set()
    for nm in seq_names:
        if nm in cache:
            cache.move_to_end(nm)
            continue
        if len(cache) >= cap:
            cache.popitem(last=False)
        if nm in opened:
            reopened.add(nm)
        opened.add(nm)
        cache[nm] = True
    return reopened


def read_strict(fmt, text, keys):
    """-> list of records (list of (k, v)); raises Malformed if the file is not ONE well-formed document
    of homogeneous records with the given key list."""
    if fmt in ("csv", "tsv"):
        sep = "," if fmt == "csv" else "\t"
        lines = text.split("\n")
        if lines and lines[-1] == "":
            lines.pop()
        if not lines:
            return []
        hdr = lines[0].split(sep)
        out = []
        for n, l in enumerate(lines[1:], 2):
            if l == "":
                raise Malformed(f"blank line at line {n} (new block in a homogeneous document)")
            cells = l.split(sep)
            if cells == hdr:
                raise Malformed(f"header line repeated at line {n}")
            if len(cells) != len(hdr):
                raise Malformed(f"line {n} has {len(cells)} cells, header has {len(hdr)}")
            out.append(list(zip(hdr, cells)))
        return out
    if fmt == "json":
        t = text.strip()
        if not t:
            return []
        try:
            v = json.loads(t, object_pairs_hook=lambda p: p)
        except json.JSONDecodeError as e:
            raise Malformed(f"not one JSON value: {e}")
        if not isinstance(v, list) or (v and isinstance(v[0], tuple)):
            # a single object is a legal top-level value only with --no-jlistwrap; list wrap is the default
            if isinstance(v, list):
                return [[(k, str(x)) for k, x in v]]
            raise Malformed("top-level JSON value is not an array of objects")
        return [_flat1(o) for o in v]
    if fmt == "jsonl":
        out = []
        for n, l in enumerate(text.split("\n"), 1):
            if l == "":
                continue
            try:
                o = json.loads(l, object_pairs_hook=lambda p: p)
            except json.JSONDecodeError as e:
                raise Malformed(f"line {n} is not a JSON object: {e}")
            out.append(_flat1(o))
        return out
    if fmt == "dkvp":
        return gen.parse_dkvp(text)
    if fmt == "xtab":
        out = []
        for block in text.strip("\n").split("\n\n"):
            if not block.strip():
                continue
            rec = []
            for l in block.split("\n"):
                k, _, v = l.partition(" ")
                if any(k == k0 for k0, _ in rec):
                    raise Malformed(f"key {k!r} repeated inside one stanza (missing blank line between records)")
                rec.append((k, v.strip()))
            out.append(rec)
        return out
    if fmt == "pprint":
        lines = text.split("\n")
        if lines and lines[-1] == "":
            lines.pop()
        if not lines:
            return []
        hdr = lines[0].split()
        out = []
        for n, l in enumerate(lines[1:], 2):
            if l.strip() == "":
                raise Malformed(f"blank line at line {n}: a second block in a homogeneous pprint document")
            cells = l.split()
            if cells == hdr:
                raise Malformed(f"header repeated at line {n}")
            if len(cells) != len(hdr):
                raise Malformed(f"line {n}: {len(cells)} cells vs {len(hdr)} in header")
            out.append(list(zip(hdr, ["" if c == "-" else c for c in cells])))
        return out
    if fmt == "markdown":
        lines = [l for l in text.split("\n") if l != ""]
        if not lines:
            return []
        def cells(l):
            return [c.strip() for c in l.strip().strip("|").split("|")]
        hdr = cells(lines[0])
        if len(lines) < 2 or not set(lines[1]) <= set("|- "):
            raise Malformed("second line is not the markdown separator row")
        out = []
        for n, l in enumerate(lines[2:], 3):
            if set(l) <= set("|- "):
                raise Malformed(f"separator row repeated at line {n}: a second table")
            c = cells(l)
            if c == hdr:
                raise Malformed(f"header repeated at line {n}")
            out.append(list(zip(hdr, c)))
        return out
    raise ValueError(fmt)


def lenient_ids(fmt, text, idkey):
    """Best-effort id sequence from a file that is several documents glued together."""
    try:
        if fmt in ("csv", "tsv"):
            sep = "," if fmt == "csv" else "\t"
            lines = [l for l in text.split("\n") if l != ""]
            hdr = lines[0].split(sep)
            k = hdr.index(idkey)
            return [l.split(sep)[k] for l in lines if l.split(sep) != hdr]
        if fmt == "json":
            return [dict(_flat1(o)).get(idkey) for o in gen.parse_json_records(text)]
        if fmt == "pprint":
            lines = [l for l in text.split("\n") if l.strip() != ""]
            hdr = lines[0].split()
            k = hdr.index(idkey)
            return [l.split()[k] for l in lines if l.split() != hdr]
        if fmt == "markdown":
            lines = [l for l in text.split("\n") if l != "" and not set(l) <= set("|- ")]
            cells = lambda l: [c.strip() for c in l.strip().strip("|").split("|")]
            hdr = cells(lines[0])
            k = hdr.index(idkey)
            return [cells(l)[k] for l in lines if cells(l) != hdr]
        if fmt == "xtab":
            return [l.partition(" ")[2].strip() for l in text.split("\n") if l.partition(" ")[0] == idkey]
    except Exception:
        return None
    return None


# ---- histories ------------------------------------------------------------------------------------

def history(rng, T, pattern, nvisits_cap=2600):
    """-> list of target indices, one per record."""
    seq = []
    if pattern == "blocks":
        for t in range(T):
            seq += [t] * rng.randint(1, 4)
    elif pattern == "round-robin":
        rounds = max(2, min(6, nvisits_cap // max(T, 1)))
        for _ in range(rounds):
            seq += list(range(T))
    elif pattern == "cyclic-257":
        m = min(T, 257)
        rounds = max(2, min(5, nvisits_cap // max(m, 1)))
        for _ in range(rounds):
            for t in range(m):
                seq += [t] * rng.randint(1, 2)
    elif pattern == "zipf":
        n = min(nvisits_cap, max(30, 4 * T))
        for _ in range(n):
            t = int(T * (rng.random() ** 3))
            seq.append(min(t, T - 1))
        seq += list(range(T))
    elif pattern == "revisit-after-gap":
        seq += [0] * 2
        seq += list(range(1, T))
        seq += [0] * 2
        seq += list(range(T - 1, 0, -1))
        seq += [0]
    return seq[: nvisits_cap + T]


def tname(i, style):
    if style == "plain":
        return f"t{i:03d}"
    if style == "spacey":
        return f"t {i:03d} x"
    if style == "punct":
        return f"t%{i:03d}'q"
    if style == "unicode":
        return f"té中{i:03d}"
    return f"t{i}"


def fanout_case(case):
    rng = random.Random(case["seed"])
    T, pattern, fmt, stmt, mode = case["T"], case["pattern"], case["fmt"], case["stmt"], case["mode"]
    style = case.get("style", "plain")
    seq = history(rng, T, pattern, case.get("nvisits_cap", 2600))
    recs = []
    for n, t in enumerate(seq):
        recs.append([("id", f"r{n+1}"), ("t", tname(t, style)), ("v", str(rng.randint(0, 999))), ("w", rng.choice(["pan", "eks", "wye"]))])
    inp = gen.json_text(recs)    # JSON string values: names with spaces/punctuation arrive intact (input order; see tac-before)
    keys = ["id", "t", "v", "w"]
    ext = {"csv": "csv", "tsv": "tsv", "json": "json", "jsonl": "jsonl", "dkvp": "dkvp", "xtab": "xtab", "pprint": "txt", "markdown": "md"}[fmt]
    pre = {}      # pre-existing file content for append mode
    expected = {}  # filename -> list of ids (or lines)
    items_are_lines = False
    main_expect = None   # expected ids on main stream, None = do not check
    tail = case.get("tail")      # main-stream variant: None | "head2" | "nothing"
    op = {"write": ">", "append": ">>", "pipe": "|"}[mode]
    redirect_target = '$t . ".%s"' % ext
    # path spelling of the target: the same file may be named "x", "./x", "d//x" or "d/./x"; the content must not depend on it
    pathstyle = case.get("pathstyle", "bare") if mode != "pipe" else "bare"
    pfx = {"bare": "", "dotslash": "./", "subdir": "d/", "subdir-dslash": "d//", "subdir-dot": "d/./", "dot-subdir": "./d/"}[pathstyle]
    subdir = "d" if "d/" in pfx else None
    if pfx:
        redirect_target = '"%s" . $t . ".%s"' % (pfx, ext)
    if mode == "pipe":
        redirect_target = '"cat > \'" . $t . ".%s\'"' % ext
    if stmt == "tee-dsl":
        verb = ["put", "-q", f"tee {op} {redirect_target}, $*"]
        main_expect = []
    elif stmt == "tee-dsl-noq":
        verb = ["put", f"tee {op} {redirect_target}, $*"]
        main_expect = [dict(r)["id"] for r in recs]
    elif stmt == "emit":
        verb = ["put", "-q", f"emit {op} {redirect_target}, mapsum($*, {{}})"]
        main_expect = []
    elif stmt == "emitp":
        verb = ["put", "-q", f"@r = $*; emitp {op} {redirect_target}, @r"]
        keys = ["r.id", "r.t", "r.v", "r.w"]
        main_expect = []
    elif stmt == "emitf":
        verb = ["put", "-q", f"@id = $id; @v = $v; emitf {op} {redirect_target}, @id, @v"]
        keys = ["id", "v"]
        main_expect = []
    elif stmt == "print":
        verb = ["put", "-q", f"print {op} {redirect_target}, $id"]
        items_are_lines = True
        main_expect = []
    elif stmt == "printn":
        verb = ["put", "-q", f'printn {op} {redirect_target}, $id . ";"']
        items_are_lines = "printn"
        main_expect = []
    elif stmt == "dump":
        verb = ["put", "-q", f'dump {op} {redirect_target}, {{"id": $id}}']
        items_are_lines = "dump"
        main_expect = []
    elif stmt == "split-g":
        verb = ["split", "-g", "t", "--prefix", pfx + "sp", "--suffix", ext]
        main_expect = []
    elif stmt == "split-g-v":
        verb = ["split", "-v", "-g", "t", "--prefix", pfx + "sp", "--suffix", ext]
        main_expect = [dict(r)["id"] for r in recs]
    elif stmt == "split-n":
        cap = max(1, len(recs) // max(1, T))
        verb = ["split", "-n", str(cap), "--prefix", pfx + "sn", "--suffix", ext]
        main_expect = []
    elif stmt == "split-m":
        verb = ["split", "-m", str(max(1, T)), "--prefix", pfx + "sm", "--suffix", ext]
        main_expect = []
    elif stmt == "tee-verb":
        verb = ["tee"] + (["-a"] if mode == "append" else []) + (["-p"] if mode == "pipe" else []) + \
               (["cat > teeout." + ext] if mode == "pipe" else ["teeout." + ext])
        main_expect = [dict(r)["id"] for r in recs]
    else:
        raise ValueError(stmt)
    # expectations
    if tail == "tac-before":
        recs_in = recs
        recs = recs[::-1]     # the routing verb sees the reversed stream
        if main_expect:
            main_expect = main_expect[::-1]
    ids = [dict(r)["id"] for r in recs]
    case_order = []

    def route(fn, rid):
        if stmt != "tee-verb" and subdir:
            fn = subdir + "/" + fn
        expected.setdefault(fn, []).append(rid)
        case_order.append(fn)
    if stmt.startswith("split-g"):
        for r in recs:
            d = dict(r)
            fn = "sp_" + urllib.parse.quote_plus(d["t"], safe="") + "." + ext
            route(fn, d["id"])
    elif stmt == "split-n":
        cap = max(1, len(recs) // max(1, T))
        for n, r in enumerate(recs):
            fn = f"sn_{(n // cap) + 1}.{ext}"
            route(fn, dict(r)["id"])
    elif stmt == "split-m":
        m = max(1, T)
        for n, r in enumerate(recs):
            fn = f"sm_{(n % m) + 1}.{ext}"
            route(fn, dict(r)["id"])
    elif stmt == "tee-verb":
        expected["teeout." + ext] = list(ids)
        case_order = ["teeout." + ext]
    else:
        for r in recs:
            d = dict(r)
            route(d["t"] + "." + ext, d["id"])
    files = {"in.json": inp}
    if subdir and stmt != "tee-verb":
        files[subdir + "/.keep"] = ""
    if mode == "append" and not items_are_lines and rng.random() < 0.6:
        # pre-existing content on a third of the targets: a complete document fragment in the same format
        pass
    if mode == "append" and items_are_lines is True:
        for fn in list(expected)[::3]:
            pre[fn] = "PRE-EXISTING LINE\n"
            files[fn] = pre[fn]
    chain = list(verb)
    if tail == "head2":
        chain += ["then", "head", "-n", "2"]
        if main_expect is not None:
            main_expect = main_expect[:2]
    elif tail == "nothing":
        chain += ["then", "nothing"]
        main_expect = []
    elif tail == "tac-before":
        chain = ["tac", "then"] + chain
    argv = ["--ijson", OFLAG[fmt], "--records-per-batch", str(case.get("rpb", 500))] + chain + ["in.json"]
    nofile = case.get("nofile", 1024)
    binary = case.get("binary", "mlr-verif")
    cwd = R.new_scratch("vf20-")
    res = case_result(_h("fan", case["seed"], T, pattern, fmt, stmt, mode, tail), nontrivial=(T >= 2))
    try:
        r = R.mlr(argv, files=files, cwd=cwd, trace=(binary == "mlr-verif"), nofile=nofile, binary=binary,
                  cpu_s=120 if binary == "mlr-race" else 40, watchdog=240 if binary == "mlr-race" else 90,
                  env={"MLR_VERIF_SCHED": case["sched"]} if case.get("sched") else None,
                  wait_children=20.0 if mode == "pipe" else 0.0)
        bump(res, "histories")
        if T > 256:
            bump(res, "histories_beyond_cache")
        detail = {"argv": argv, "T": T, "pattern": pattern, "format": fmt, "stmt": stmt, "mode": mode,
                  "gen_seed": case["seed"], "n_records": len(recs), "files": {"in.json": inp if len(inp) < 30000 else inp[:30000] + "...(truncated; regenerate with gen_seed)"}}
        sig0 = {"stmt": stmt.split("-")[0] if stmt.startswith("split") else stmt, "format": fmt, "mode": mode, "beyond_cache": T > 256}
        bump(res, "pathstyle:" + pathstyle)
        for l in (r.trace or []):
            p = l.split(" ")
            if len(p) >= 2 and p[1].startswith("fo."):
                bump(res, "site:" + p[1])
        if r.verdict == "deadlock":
            add_violation(res, dict(sig0, kind="deadlock", blocked="|".join(r.hang_sig or [])), f"fan-out run deadlocks ({stmt}, T={T}, {fmt}, {mode})",
                          dict(detail, dump=(r.dump or "")[-4000:]))
            return res
        if r.verdict != "exited":
            if r.verdict == "slow":
                res["inconc"] += 1
            else:
                add_violation(res, dict(sig0, kind=r.verdict), f"fan-out run {r.verdict}", detail)
            return res
        if r.race_reports:
            for rep in r.race_reports:
                for b in rep.split("WARNING: DATA RACE")[1:]:
                    if "github.com/johnkerl/miller" in b:
                        add_violation(res, dict(sig0, kind="data-race"), "data race reported during fan-out history", dict(detail, report=b[:4000]))
        if r.crashed():
            add_violation(res, dict(sig0, kind="crash"), "crash trace during fan-out", dict(detail, stderr=r.err[-2000:]))
            return res
        if r.rc != 0:
            add_violation(res, dict(sig0, kind="fails"), f"fault-free fan-out run exits {r.rc}: {r.err[:300]}", detail)
            return res
        if mode == "pipe":
            # mlr does not wait for its pipe children at exit; they are `cat > file`, reading to EOF. Give them a bounded
            # wait: the sinks' files must stop growing. (Logical completion marker: all children of the session are gone;
            # the runner has killed the process group after exit, so what is on disk now is what the sinks got before.)
            pass
        after = R.read_files(cwd, exclude=("in.json", "d/.keep"))
        got_names = set(after)
        exp_names = set(expected)
        if got_names != exp_names:
            add_violation(res, dict(sig0, kind="target-set"),
                          f"targets on disk differ from routed targets: missing {sorted(exp_names - got_names)[:5]} unexpected {sorted(got_names - exp_names)[:5]}",
                          detail)
        reopened = lru_reopened(case_order)
        for fn in sorted(exp_names & got_names):
            text = after[fn].decode("utf-8", "replace")
            exp_ids = expected[fn]
            if items_are_lines is True:
                got = text.split("\n")
                if got and got[-1] == "":
                    got.pop()
                exp_lines = (pre.get(fn, "").split("\n")[:-1] if fn in pre else []) + exp_ids
                if got != exp_lines:
                    add_violation(res, dict(sig0, kind="content"), f"{fn}: printed lines differ from the routed ones ({len(got)} vs {len(exp_lines)})",
                                  dict(detail, file=fn, got=got[:20], expected=exp_lines[:20]))
                continue
            if items_are_lines == "printn":
                if text != "".join(i + ";" for i in exp_ids):
                    add_violation(res, dict(sig0, kind="content"), f"{fn}: printn text differs from the routed items",
                                  dict(detail, file=fn, got=text[:300]))
                continue
            if items_are_lines == "dump":
                got = gen.parse_json_records(text)
                gi = [dict(o).get("id") for o in got]
                if gi != exp_ids:
                    add_violation(res, dict(sig0, kind="content"), f"{fn}: dumped maps differ from the routed ones", dict(detail, file=fn, got=gi[:20], expected=exp_ids[:20]))
                continue
            try:
                got = read_strict(fmt, text, keys)
            except Malformed as e:
                revisited = len(exp_ids) > 1
                add_violation(res, dict(sig0, kind="not-one-document", why=str(e).split(" at line")[0].split(":")[0][:60],
                                        reopened_after_eviction=(fn in reopened)),
                              f"{fn} is not one well-formed {fmt} document: {e} (T={T}, pattern={pattern}, {stmt} {op})",
                              dict(detail, file=fn, text_head=text[:600]))
                # even then the routed records must all be there, in order: lenient re-read by id
                gi = lenient_ids(fmt, text, keys[0])
                if gi is not None:
                    bump(res, "lenient_content_checks")
                    if gi != exp_ids:
                        add_violation(res, dict(sig0, kind="content-in-malformed-file"),
                                      f"{fn}: besides not being one document, its records differ from the routed ones ({len(gi)} vs {len(exp_ids)})",
                                      dict(detail, file=fn, got=gi[:40], expected=exp_ids[:40]))
                continue
            idk = keys[0]
            gi = [dict(o).get(idk) for o in got]
            if gi != exp_ids:
                add_violation(res, dict(sig0, kind="content"),
                              f"{fn}: records differ from the routed ones: got {gi[:6]}.. expected {exp_ids[:6]}.. ({len(gi)} vs {len(exp_ids)})",
                              dict(detail, file=fn, got=gi[:40], expected=exp_ids[:40]))
            elif got and [k for k, _ in got[0]] != keys:
                add_violation(res, dict(sig0, kind="content-keys"), f"{fn}: keys {[k for k, _ in got[0]]} != {keys}", dict(detail, file=fn))
        # union of targets = routed input (conservation)
        total = sum(len(v) for v in expected.values())
        if total != len(recs):
            raise AssertionError("model error: routed total")
        if main_expect is not None:
            try:
                mrecs = read_strict(fmt, r.out, keys) if fmt not in ("json",) else [[(k, str(v)) for k, v in o] for o in gen.parse_json_records(r.out)]
                mi = [dict(o).get("id") for o in mrecs]
            except Malformed as e:
                mi = None
                add_violation(res, dict(sig0, kind="main-malformed"), f"main stream output malformed: {e}", detail)
            if mi is not None and mi != main_expect:
                add_violation(res, dict(sig0, kind="main-stream", tail=tail or "none"),
                              f"main stream has {len(mi)} records, documented behaviour gives {len(main_expect)} ({stmt}, then {tail})",
                              dict(detail, got=mi[:20], expected=main_expect[:20]))
        res["sample"] = {"T": T, "pattern": pattern, "format": fmt, "stmt": stmt, "mode": mode, "records": len(recs), "tail": tail,
                         "argv": argv[:8]}
    finally:
        shutil.rmtree(cwd, ignore_errors=True)
    return res


def two_managers_case(case):
    """Two put verbs in one chain, each with its own handler manager, writing to disjoint names and to the SAME names."""
    rng = random.Random(case["seed"])
    T = case["T"]
    n = case["n"]
    recs = [[("id", f"r{i+1}"), ("t", f"t{rng.randrange(T):03d}")] for i in range(n)]
    inp = gen.dkvp(recs)
    same = case["same"]
    a = 'tee > "A_".$t.".dkvp", $*'
    b = ('tee > "B_".$t.".dkvp", $*') if not same else ('print > "P_".$t.".txt", $id')
    argv = ["--records-per-batch", str(case["rpb"]), "put", a, "then", "put", b, "then", "nothing"]
    cwd = R.new_scratch("vf20-")
    res = case_result(_h("two", case["seed"], T, same), nontrivial=True)
    try:
        r = R.mlr(argv, stdin=inp, cwd=cwd, binary=case.get("binary", "mlr-verif"), cpu_s=120, watchdog=240)
        bump(res, "two_manager_histories")
        detail = {"argv": argv, "stdin": inp[:20000], "T": T}
        if r.verdict != "exited" or r.rc != 0:
            if r.verdict == "slow":
                res["inconc"] += 1
            else:
                add_violation(res, {"kind": "two-managers-fail", "verdict": r.verdict}, f"two-manager run fails: {r.verdict} rc={r.rc} {r.err[:200]}", detail)
            return res
        for rep in (r.race_reports or []):
            for blk in rep.split("WARNING: DATA RACE")[1:]:
                if "github.com/johnkerl/miller" in blk:
                    add_violation(res, {"kind": "data-race", "stmt": "two-managers"}, "data race with two output-handler managers", dict(detail, report=blk[:4000]))
        after = R.read_files(cwd)
        exp = {}
        for rec in recs:
            d = dict(rec)
            exp.setdefault("A_" + d["t"] + ".dkvp", []).append(d["id"])
            if same:
                exp.setdefault("P_" + d["t"] + ".txt", []).append(d["id"])
            else:
                exp.setdefault("B_" + d["t"] + ".dkvp", []).append(d["id"])
        if set(after) != set(exp):
            add_violation(res, {"kind": "target-set", "stmt": "two-managers"}, "target set differs with two managers", detail)
        for fn, ids in exp.items():
            text = after.get(fn, b"").decode()
            got = [dict(x).get("id") for x in gen.parse_dkvp(text)] if fn.endswith(".dkvp") else text.split("\n")[:-1]
            if got != ids:
                add_violation(res, {"kind": "content", "stmt": "two-managers"}, f"{fn}: content differs with two managers", dict(detail, file=fn, got=got[:20], expected=ids[:20]))
                break
        res["sample"] = {"monitor": "two-managers", "T": T, "argv": argv}
    finally:
        shutil.rmtree(cwd, ignore_errors=True)
    return res


def tee_head_case(case):
    """`tee file then head -n k` (and redirected tee inside put, and split -v) on an input of many batches: the file(s)
    must receive every record although head stops consuming early; the main stream is the first k."""
    rng = random.Random(case["seed"])
    n, rpb, k, form, fmt = case["n"], case["rpb"], case["k"], case["form"], case["fmt"]
    recs = [[("id", f"r{i+1}"), ("t", "x"), ("v", str(rng.randint(0, 999)))] for i in range(n)]
    inp = gen.dkvp(recs)
    ext = "out"
    if form == "tee-verb":
        chain = ["tee", "full." + ext, "then", "head", "-n", str(k)]
    elif form == "tee-dsl":
        chain = ["put", 'tee > "full.%s", $*' % ext, "then", "head", "-n", str(k)]
    elif form == "split-v":
        chain = ["split", "-v", "-g", "t", "--prefix", "full", "--suffix", ext, "then", "head", "-n", str(k)]
    else:
        chain = ["cat", "then", "tee", "full." + ext, "then", "put", "$z = 1", "then", "head", "-n", str(k)]
    argv = ["--idkvp", OFLAG[fmt], "--records-per-batch", str(rpb)] + chain
    cwd = R.new_scratch("vf20-")
    res = case_result(_h("teehead", case["seed"], n, rpb, k, form, fmt), nontrivial=True)
    try:
        r = R.mlr(argv, stdin=inp, cwd=cwd, env={"MLR_VERIF_SCHED": case["sched"]} if case.get("sched") else None)
        bump(res, "tee_head_histories")
        detail = {"argv": argv, "n_records": n, "gen_seed": case["seed"], "stdin": f"<{n} records id=r1..r{n},t=x,v=...>"}
        sig0 = {"stmt": form, "format": fmt, "mode": "write", "beyond_cache": False}
        if r.verdict != "exited" or r.rc != 0:
            if r.verdict == "slow":
                res["inconc"] += 1
            elif r.verdict == "deadlock":
                add_violation(res, dict(sig0, kind="deadlock", blocked="|".join(r.hang_sig or [])), f"{form} then head deadlocks", dict(detail, dump=(r.dump or "")[-3000:]))
            else:
                add_violation(res, dict(sig0, kind="fails"), f"{form} then head: {r.verdict} rc={r.rc} {r.err[:200]}", detail)
            return res
        after = R.read_files(cwd)
        fn = "full." + ext if form != "split-v" else "full_x." + ext
        text = after.get(fn, b"").decode("utf-8", "replace")
        try:
            got = [dict(o).get("id") for o in read_strict(fmt, text, ["id", "t", "v"])]
        except Malformed as e:
            add_violation(res, dict(sig0, kind="not-one-document", why=str(e)[:50], reopened_after_eviction=False), f"{fn}: {e}", detail)
            return res
        exp = [f"r{i+1}" for i in range(n)]
        if form in ("tee-dsl", "split-v"):
            # Only the tee VERB is documented not to forward head's "done" flag upstream; put and split do forward it, so
            # the reader may legitimately stop early and the statement's "records routed to it" are those the verb received.
            # Required here: a prefix of the stream, at least the k records head consumed. Truncation is counted, not judged.
            if got != exp[:len(got)] or len(got) < min(k, n):
                add_violation(res, dict(sig0, kind="content"), f"{form} then head: file is not a prefix (>= k) of the stream: {len(got)} records", dict(detail, got=got[:10]))
            elif len(got) < n:
                bump(res, "redirect_or_split_before_head_stopped_early")
        elif got != exp:
            add_violation(res, dict(sig0, kind="tee-incomplete-before-head"),
                          f"{form} then head -n {k} on {n} records (batch {rpb}): the file has {len(got)} records, all {n} reached the tee",
                          dict(detail, got_n=len(got)))
        main = [dict(o).get("id") for o in (read_strict(fmt, r.out, ["id", "t", "v"]) if fmt != "json" else [[(a, str(b)) for a, b in o] for o in gen.parse_json_records(r.out)])]
        if main != exp[:k]:
            add_violation(res, dict(sig0, kind="main-stream", tail="head"), f"main stream after {form} then head -n {k}: {len(main)} records", dict(detail, got=main[:10]))
        res["sample"] = {"monitor": "tee-then-head", "argv": argv, "n": n}
    finally:
        shutil.rmtree(cwd, ignore_errors=True)
    return res


def run(chk):
    rng = chk.rng("grid")
    q = chk.quick()
    chk.rule = ("history = sequence of (target, record) writes: T in {1,2,3,255,256,257,300,600} (+ deep histories of 1300 / 2100, thorough to 4200) distinct targets x access pattern {blocks, "
                "round-robin, cyclic over 257 (LRU-adversarial), zipf, revisit-after-gap} x statement kind {tee verb, split -g/-n, DSL tee/emit/emitp/emitf/"
                "print/printn/dump} x format x mode {>, >>, |} x main-stream tail {none, head -n 2, nothing, tac before}; every produced file is read by an "
                "independent strict single-document reader and compared by unique ids with the partition model. Non-trivial = T >= 2; distinct by (T, pattern, format, stmt, mode, tail, seed)")
    Ts = [1, 2, 3, 255, 256, 257, 300, 600]
    patterns = ["blocks", "round-robin", "cyclic-257", "zipf", "revisit-after-gap"]
    stmts = ["tee-dsl", "tee-dsl-noq", "emit", "emitp", "emitf", "print", "printn", "dump", "split-g", "split-g-v", "split-n", "split-m", "tee-verb"]
    grid = []
    for T in Ts:
        for pattern in patterns:
            for stmt in stmts:
                for fmt in FORMATS:
                    for mode in ("write", "append", "pipe"):
                        if mode == "pipe" and (T > 40 or stmt.startswith("split")):
                            continue
                        if mode == "append" and stmt.startswith("split"):
                            continue
                        if stmt in ("print", "printn", "dump") and fmt not in ("dkvp", "json"):
                            continue
                        if stmt == "tee-verb" and T > 3:
                            continue
                        if stmt == "emitp" and fmt in ("pprint", "markdown", "xtab"):
                            pass
                        grid.append({"T": T, "pattern": pattern, "stmt": stmt, "fmt": fmt, "mode": mode})
    rng.shuffle(grid)
    if q:
        # covering sample: every T x pattern, every stmt x mode, every format; beyond-cache targets with every record format
        chosen = []
        seen = set()
        def want(g):
            ks = [("Tp", g["T"], g["pattern"]), ("sm", g["stmt"], g["mode"]), ("f", g["fmt"], g["T"] > 256), ("sf", g["stmt"], g["fmt"])]
            new = [k for k in ks if k not in seen]
            return new
        for g in grid:
            new = want(g)
            if len(new) >= 1 and len(chosen) < 150:
                # limit the number of very large histories
                chosen.append(g)
                seen.update(new)
        grid = chosen
    else:
        grid = grid[:6000]
    cases = []
    for i, g in enumerate(grid):
        c = dict(g)
        c["seed"] = f"{chk.seed}/fan/{i}"
        c["tail"] = rng.choice([None, None, "head2", "nothing", "tac-before"])
        c["style"] = rng.choice(["plain", "plain", "spacey", "punct", "unicode"]) if c["mode"] != "pipe" else "plain"
        c["pathstyle"] = rng.choice(["bare", "bare", "dotslash", "subdir", "subdir-dslash", "subdir-dot", "dot-subdir"])
        if c["fmt"] == "pprint" and c["style"] == "spacey":
            c["style"] = "punct"     # pprint cannot represent a value containing a space (C01 domain)
        c["rpb"] = rng.choice([1, 500])
        c["nofile"] = rng.choice([1024, 300]) if c["T"] >= 255 and c["mode"] != "pipe" else 1024
        cases.append(c)
    # "any number of targets": histories several times deeper than the 256-handle cache (and than any bookkeeping sized as a
    # small multiple of it: 1024 + 256 = 1280 names), with early targets revisited after everything else has been opened
    deep = []
    for T in ([1300, 2100] if q else [1300, 1700, 2100, 4200]):
        for stmt, fmt, mode in [("tee-dsl", "dkvp", "write"), ("print", "dkvp", "write"), ("split-g", "csv", "write"), ("emit", "json", "append"),
                                ("tee-dsl", "jsonl", "append"), ("dump", "json", "write")][: (3 if q and T > 1300 else 6)]:
            for pattern in (["revisit-after-gap"] if q else ["revisit-after-gap", "round-robin", "zipf"]):
                deep.append({"T": T, "pattern": pattern, "stmt": stmt, "fmt": fmt, "mode": mode})
    for i, g in enumerate(deep):
        c = dict(g)
        c["seed"] = f"{chk.seed}/deep/{i}"
        c["tail"] = None
        c["style"] = "plain"
        c["pathstyle"] = rng.choice(["bare", "subdir"])
        c["rpb"] = 500
        c["nofile"] = 1024
        c["nvisits_cap"] = 2 * T + 600
        cases.append(c)
    chk.pmap(fanout_case, cases, label="fan-out histories")
    # race detector on the heavy histories
    rc = []
    heavy = [g for g in cases if g["T"] >= 257 and g["mode"] != "pipe"]
    for i, g in enumerate(heavy[: (6 if q else 60)]):
        c = dict(g)
        c["binary"] = "mlr-race"
        c["seed"] = g["seed"] + "/race"
        c["sched"] = f"{rng.randint(1, 10**6)}:500"
        rc.append(c)
    chk.pmap(fanout_case, rc, label="race detector on beyond-cache histories")
    tm = []
    for i in range(6 if q else 60):
        tm.append({"seed": f"{chk.seed}/two/{i}", "T": rng.choice([3, 130, 257, 300]), "n": rng.choice([50, 900]), "same": i % 2 == 0,
                   "rpb": rng.choice([1, 2, 500]), "binary": "mlr-race" if i % 3 == 0 else "mlr-verif"})
    chk.pmap(two_managers_case, tm, label="two managers")
    th = []
    forms = ["tee-verb", "tee-dsl", "split-v", "tee-mid"]
    for i in range(24 if q else 400):
        th.append({"seed": f"{chk.seed}/th/{i}", "n": rng.choice([1200, 2500, 6000]), "rpb": rng.choice([1, 2, 500, 500]), "k": rng.choice([0, 1, 2, 7]),
                   "form": forms[i % 4], "fmt": rng.choice(["dkvp", "csv", "json", "jsonl"]), "sched": rng.choice([None, f"{rng.randint(1, 10**6)}:300"])})
    chk.pmap(tee_head_case, th, label="tee/split -v before head on many batches")
    ev = chk.stats.get("site:fo.evict", 0)
    chk.extra["evictions_observed"] = ev
    chk.extra["reopens_observed"] = chk.stats.get("site:fo.reopen", 0)
    chk.extra["handler_lookups_observed"] = chk.stats.get("site:fo.lookup", 0)
    for k in [k for k in chk.stats if k.startswith("site:")]:
        chk.stats.pop(k)
    chk.assumptions = [
        "values are generated free of the formats' separators so that the independent readers need no quoting logic (quoting is C01's subject)",
        "pipe targets: T <= 40 (pipes are not evicted; documented), sinks are `cat > file`",
        "split file naming: <prefix>_<url-escaped group value>.<format extension> as documented in `mlr split --help`",
        "append onto pre-existing content is checked for print (line) targets; record formats are checked on absent files",
        "only the tee verb is documented to keep receiving everything when a later head stops early; `put 'tee > ...' then head` and `split -v then head` forward head's done flag, so their files are only required to be a prefix (>= k) of the stream",
    ]
    if chk.stats.get("histories_beyond_cache", 0) > 0 and ev == 0:
        chk.exceptions.append(("evictions", "histories with T > 256 ran but no fo.evict hook hit was observed: broken observation"))
