"""C12 - field-restructuring verbs do exactly their rearrangement and invert cleanly.

Layers (DESIGN.md section 3, C12):
  v  per verb x option set x record stream: (1) the model-free BYSTANDER invariant - every field the
     options do not name keeps name, value text and relative order (never relaxed); (2) ordered-dict
     model per verb written from the usage text (vf/model/fieldverbs.py), which declines where the
     docs are silent; (3) documented DSL equivalents where the help gives one.
  i  metamorphic inverse pairs: nest explode/implode, reshape wide<->long, flatten/unflatten,
     json-stringify/json-parse, rename a,b then b,a (b fresh), cut -f + cut -x -f complement,
     reorder then reorder -e.
  d  doc-replay of the verbs' examples in reference-verbs.md and friends.
"""
import hashlib
import json
import random
import re

from .. import gen
from .. import run as R
from ..harness import add_violation, bump, case_result
from ..model import docblocks as docreplay
from ..model import fieldverbs as M
from ..model.fieldverbs import Decline

BINARIES = ("mlr-verif",)
LEVEL = "exploration"


def _h(*xs):
    return hashlib.sha1(repr(xs).encode()).hexdigest()[:16]


# ==========================================================================================
# record streams

NAMES = ["a", "b", "c", "ab", "abc", "a.b", "a*", "x[1]", "(y)", "p|q", "^s", "t$", "sp ace", "A", "B",
         "x", "y", "z", "n1", "n2", "n10", "é", "aa", "ba"]
WNAMES = [f"w{i}" for i in range(16)]
VALS = ["", "1", "x", "hello world", "0x1F", "1.500", "-3", "Abc Def", " ", "1e5", "007", "true", "é", "a b",
        "xyz", "banana", "", "lol", "foo.bar", "12", "UPPER lower"]


def gen_stream(rng, n=None, names=None, vals=None, wide_share=0.25, homog=False, with_id=True, min_fields=1,
               max_fields=9):
    """n heterogeneous records; a fixed share has >= 12 fields (Miller builds a hash index at 12)."""
    n = n if n is not None else rng.randint(6, 12)
    names = names or NAMES
    vals = vals or VALS
    layout = None
    if homog:
        layout = rng.sample(names, rng.randint(min_fields, min(max_fields, len(names))))
    recs = []
    for i in range(n):
        wide = rng.random() < wide_share
        if layout is not None:
            ks = list(layout)
        else:
            k = rng.randint(min_fields, min(max_fields, len(names)))
            ks = rng.sample(names, k)
        if wide:
            # total width (incl. _id) exactly at / next to the hash-index threshold of 12, or well beyond it
            target = rng.choice([11, 12, 12, 12, 13, rng.randint(14, 20)]) - (1 if with_id else 0)
            extra = [w for w in rng.sample(WNAMES, len(WNAMES)) if w not in ks]
            if len(ks) > target:
                ks = ks[:target]
            ks = ks + extra[:max(0, target - len(ks))]
            if layout is None:
                rng.shuffle(ks)
        rec = [(k, rng.choice(vals)) for k in ks]
        if with_id:
            rec.insert(rng.randint(0, len(rec)), ("_id", f"r{i+1}"))
        recs.append(rec)
    return recs


def pick_names(rng, recs, kmin=1, kmax=4, absent=True, pool=None):
    """A field list mixing present names, absent names, names that are prefixes of others."""
    present = []
    for r in recs:
        for k, _ in r:
            if k != "_id" and k not in present:
                present.append(k)
    pool = pool or NAMES
    k = rng.randint(kmin, kmax)
    out = []
    for _ in range(k):
        if present and rng.random() < 0.75:
            c = rng.choice(present)
        elif absent:
            c = rng.choice(["nosuch", "zz", "a_", "abcd"] + pool)
        else:
            continue
        if c not in out:
            out.append(c)
    if not out and present:
        out = [rng.choice(present)]
    return out


# ==========================================================================================
# running

FLAT_OUT = ["--ojson", "--jvquoteall", "--no-auto-flatten", "--no-auto-unflatten"]


def main_flags(rng):
    fl = []
    x = rng.random()
    if x < 0.15:
        fl += ["--hash-records"]
    elif x < 0.22:
        fl += ["--no-hash-records"]
    if rng.random() < 0.12:
        fl += ["--records-per-batch", rng.choice(["1", "2"])]
    return fl


def run_flat(res, main, verb_argv, recs, files=None, sigbase=None, expect_fail=False):
    """DKVP in, JSON strings out.  -> list of records, or None after recording the problem."""
    argv = main + FLAT_OUT + verb_argv
    stdin = gen.dkvp(recs)
    r = R.mlr(argv, stdin=stdin, files=files or {})
    bump(res, "runs")
    return _digest(res, r, argv, stdin, files, sigbase, structured=False)


def run_json(res, main, verb_argv, recs, sigbase=None, raw_text=None):
    """JSON in, JSON out, structured values kept (numbers as source text)."""
    argv = main + ["--ijson", "--ojson"] + verb_argv
    stdin = raw_text if raw_text is not None else render_json(recs)
    r = R.mlr(argv, stdin=stdin)
    bump(res, "runs")
    return _digest(res, r, argv, stdin, None, sigbase, structured=True)


def render_json(recs):
    return "[\n" + ",\n".join("{" + ", ".join(json.dumps(k, ensure_ascii=False) + ": " + M.json_encode(v)
                                                for k, v in r) + "}" for r in recs) + "\n]\n"


def _digest(res, r, argv, stdin, files, sigbase, structured):
    sig = dict(sigbase or {})
    detail = {"argv": argv, "stdin": stdin, "files": files or {}}
    if r.verdict == "slow":
        res["inconc"] += 1
        return None
    if r.verdict != "exited":
        add_violation(res, dict(sig, layer="hang", sub=r.verdict), f"mlr {' '.join(argv)} does not terminate ({r.verdict})",
                      dict(detail, dump=(r.dump or "")[-3000:]))
        return None
    if r.crashed():
        add_violation(res, dict(sig, layer="crash"), f"mlr {' '.join(argv)} crashes", dict(detail, stderr=r.err[-3000:]))
        return None
    if r.rc != 0:
        e1 = (r.err.strip().split("\n") or [""])[0]
        e1 = re.sub(r"^mlr( [a-z0-9-]+)?: ", "", e1)[:90]
        add_violation(res, dict(sig, layer="status", err=e1),
                      f"documented option form rejected / run fails (rc={r.rc}): mlr {' '.join(argv[-8:])}: {r.err.strip()[:160]}",
                      dict(detail, stderr=r.err[-2000:]))
        return None
    try:
        if structured:
            return M.parse_structured_records(r.out)
        got = [list(x) for x in gen.parse_json_records(r.out)]
        for g in got:
            for kv in g:
                if not (isinstance(kv, tuple) and isinstance(kv[1], str)):
                    raise ValueError(f"non-string value {kv!r}")
        return got
    except Exception as ex:   # noqa: BLE001
        add_violation(res, dict(sig, layer="output-unparseable"), f"output of mlr {' '.join(argv[-8:])} is not a record list: {ex}",
                      dict(detail, got=r.out[:3000]))
        return None


# ==========================================================================================
# bystander helpers (model-free)

def _classify(bi, bo):
    if bi == bo:
        return "value-type-or-key-order-changed"      # equal for Python's ==: number vs string, or key order inside a map
    if sorted(map(repr, bi)) == sorted(map(repr, bo)):
        return "reordered"
    si, so = list(bi), list(bo)
    if all(x in si for x in so) and len(so) < len(si):
        return "dropped"
    if all(x in so for x in si) and len(so) > len(si):
        return "duplicated-or-invented"
    if [k for k, _ in bi] == [k for k, _ in bo]:
        return "value-changed"
    return "changed"


def by11(recs, outs, named_in, named_out=None):
    """1:1 verbs: the bystander subsequence of record i must be identical in output i.
    named_in(name, rec) / named_out(name, rec) say which names the options touch."""
    if len(recs) != len(outs):
        return [("record-count", f"{len(recs)} records in, {len(outs)} out")]
    named_out = named_out or named_in
    for i, (r, o) in enumerate(zip(recs, outs)):
        bi = [(k, v) for k, v in r if not named_in(k, r)]
        bo = [(k, v) for k, v in o if not named_out(k, r)]
        if not M.same_fields(bi, bo):
            return [(_classify(bi, bo), f"record {i+1}: bystander fields {bi} became {bo} (input {r}, output {o})")]
    return []


def is_subseq(small, big):
    it = iter(big)
    return all(any(x == y for y in it) for x in small)


# ==========================================================================================
# per-case context and verdict helpers

class Ctx:
    def __init__(self, res, rng, verb):
        self.res, self.rng, self.verb = res, rng, verb
        self.main = main_flags(rng)
        self.opt = ""
        self.nontrivial = False

    def sig(self, **kw):
        return dict({"verb": self.verb, "opt": self.opt}, **kw)

    def flat(self, argv, recs, files=None):
        return run_flat(self.res, self.main, argv, recs, files=files, sigbase=self.sig())

    def structured(self, argv, recs, raw_text=None):
        return run_json(self.res, self.main, argv, recs, sigbase=self.sig(), raw_text=raw_text)

    def violation(self, layer, sub, what, argv, recs, expected=None, got=None, structured=False, extra=None):
        if structured:
            det = {"argv": self.main + ["--ijson", "--ojson"] + argv, "stdin": render_json(recs)}
        else:
            det = {"argv": self.main + FLAT_OUT + argv, "stdin": gen.dkvp(recs)}
        det["expected"] = expected
        det["got"] = got
        add_violation(self.res, self.sig(layer=layer, sub=sub, **(extra or {})), f"{self.verb} [{self.opt}]: {what}", det)

    def judge(self, argv, recs, outs, byv, exp, one_to_one=True, structured=False, as_multiset=False):
        """byv: bystander findings (model-free); exp: model output (list, entries None = declined record)
        or None = model declined the case.  -> True if nothing was violated."""
        if byv:
            sub, msg = byv[0]
            self.violation("bystander", sub, "a field the options do not name was not left intact: " + msg[:600],
                           argv, recs, got=outs[:50], structured=structured)
            return False
        bump(self.res, "bystander_checks")
        if exp is None:
            self.res["skipped"] += 1
            bump(self.res, "model_declined_cases")
            return True
        if one_to_one:
            if len(exp) != len(outs):
                self.violation("model", "record-count", f"{len(outs)} records out, model expects {len(exp)}", argv, recs,
                               expected=exp[:50], got=outs[:50], structured=structured)
                return False
            for i, (e, g) in enumerate(zip(exp, outs)):
                if e is None:
                    bump(self.res, "model_declined_records")
                    continue
                if not M.same_fields(e, g):
                    sub = "field-order" if sorted(map(repr, e)) == sorted(map(repr, g)) and e != g else (
                        "names" if [k for k, _ in e] != [k for k, _ in g] else
                        "values" if e != g else "nested-key-order")
                    self.violation("model", sub, f"record {i+1}: input {recs[i] if i < len(recs) else '?'} expected {e} got {g}",
                                   argv, recs, expected=exp[:50], got=outs[:50], structured=structured)
                    return False
                bump(self.res, "model_records_checked")
        else:
            a, b = (sorted(map(repr, exp)), sorted(map(repr, outs))) if as_multiset else (exp, outs)
            if a != b:
                self.violation("model", "stream", f"output stream differs from the model: expected {exp[:6]} got {outs[:6]}",
                               argv, recs, expected=exp[:50], got=outs[:50], structured=structured)
                return False
            bump(self.res, "model_records_checked", len(outs))
        return True


def lst(xs):
    return ",".join(xs)


def named_share(recs, F):
    """Non-triviality per DESIGN: the options name >= 1 present and >= 1 absent field, and some record has a
    bystander on each side of a named field."""
    any_present = any_absent = sided = False
    for r in recs:
        ns = [k for k, _ in r]
        for f in F:
            if f in ns:
                any_present = True
                i = ns.index(f)
                if any(x not in F for x in ns[:i]) and any(x not in F for x in ns[i + 1:]):
                    sided = True
            else:
                any_absent = True
    return any_present and any_absent and sided


# ==========================================================================================
# verb handlers, part 1.  Each: generate options + stream, run, bystander + model.  Sets cx.opt / cx.nontrivial.

def pick_regexes(rng, k=None):
    return rng.sample(M.REGEXES, k or rng.randint(1, 2))


def v_cut_orf(cx):
    """cut -o -r (added after seeded change C12r2-b): the selected fields come out grouped in the order of the -f list (usage
    text of -o) and, inside the fields taken by one regex, in record order with names and values intact (the property's
    'relative order intact'); records up to 40 fields wide with interleaved name families, so that one regex selects more
    fields than any small-slice special case of a sort routine covers."""
    rng = cx.rng
    fams = rng.sample(["a", "b", "c", "w", "n", "zz"], rng.randint(2, 4))
    recs = []
    for i in range(rng.randint(3, 8)):
        width = rng.choice([4, 8, 11, 12, 13, 14, 16, 24, 30, 40])
        ks = [f"{fams[j % len(fams)]}{j + 1}" for j in range(width)]
        if rng.random() < 0.4:
            rng.shuffle(ks)
        rec = [(k, rng.choice(VALS)) for k in ks]
        rec.insert(rng.randint(0, len(rec)), ("_id", f"r{i+1}"))
        recs.append(rec)
    use = rng.sample(fams, rng.randint(1, len(fams)))
    regexes = [("^" + f, "^" + f, 0) for f in use]
    if rng.random() < 0.3:
        regexes.append(rng.choice([("[0-9]$", "[0-9]$", 0), ("1", "1", 0), ("^_", "^_", 0)]))    # may overlap the others
    argv = ["cut", "-o", "-r", "-f", lst(r[0] for r in regexes)]
    cx.opt = "orf"
    outs = cx.flat(argv, recs)
    if outs is None:
        return
    cx.nontrivial = any(sum(1 for k, _ in r if any(M.rx_match(x, k) for x in regexes)) >= 13 for r in recs)
    if len(outs) != len(recs):
        cx.violation("bystander", "record-count", f"{len(recs)} in, {len(outs)} out", argv, recs, got=outs)
        return
    for i, (r, o) in enumerate(zip(recs, outs)):
        claims = [[j for j, x in enumerate(regexes) if M.rx_match(x, k)] for k, _ in r]
        sel = [kv for kv, c in zip(r, claims) if c]
        if sorted(o) != sorted(sel):
            cx.violation("bystander", "changed", f"record {i+1}: cut -o -r output {o} is not the selected fields {sel} with names and values intact",
                         argv, recs, expected=sel, got=o)
            return
        if any(len(c) > 1 for c in claims):
            bump(cx.res, "orf_records_with_doubly_matched_field_order_unjudged")
            continue
        want = [kv for j in range(len(regexes)) for kv, c in zip(r, claims) if c == [j]]
        if o != want:
            cx.violation("model", "order", f"record {i+1} ({len(sel)} selected fields): cut -o -r does not keep the -f order of the groups and "
                         f"record order inside each group: expected {want} got {o}", argv, recs, expected=want, got=o)
            return
        bump(cx.res, "orf_records_judged")
    bump(cx.res, "verb_cases_ok")


def v_cut(cx):
    rng = cx.rng
    if rng.random() < 0.2:
        return v_cut_orf(cx)
    recs = gen_stream(rng)
    mode = rng.choice(["f", "f", "of", "xf", "xf", "rf", "xrf", "complement-long"])
    F = pick_names(rng, recs, 1, 5)
    if rng.random() < 0.2 and mode in ("f", "xf"):
        F.append(F[0])                 # repeated name in the list
    if rng.random() < 0.3:
        F = F[::-1]
    cx.opt = mode
    regexes = None
    if mode in ("rf", "xrf"):
        regexes = pick_regexes(rng, rng.randint(1, 3))
        argv = ["cut"] + (["-x"] if mode == "xrf" else []) + ["-r", "-f", lst(r[0] for r in regexes)]
        sel = lambda k: any(M.rx_match(r, k) for r in regexes)      # noqa: E731
    else:
        flag = {"f": [], "of": ["-o"], "xf": [rng.choice(["-x", "--complement"])], "complement-long": ["--complement"]}[mode]
        argv = ["cut"] + flag + ["-f", lst(F)]
        sel = lambda k: k in F                                      # noqa: E731
    compl = mode in ("xf", "xrf", "complement-long")
    outs = cx.flat(argv, recs)
    if outs is None:
        return
    byv = []
    if len(outs) != len(recs):
        byv = [("record-count", f"{len(recs)} in, {len(outs)} out")]
    else:
        for i, (r, o) in enumerate(zip(recs, outs)):
            if compl:
                # bystanders = everything not selected: all of them, in order, and nothing else
                want = [(k, v) for k, v in r if not sel(k)]
                if o != want:
                    byv = [(_classify(want, o), f"record {i+1}: unselected fields {want} became {o}")]
                    break
            else:
                # every output field is an intact input field; relative order kept unless -o
                if not all(x in r for x in o) or len(set(k for k, _ in o)) != len(o) or (mode != "of" and not is_subseq(o, r)):
                    byv = [("changed", f"record {i+1}: output {o} is not an intact sub-record of {r}")]
                    break
    try:
        exp = [M.cut(r, F, ordered=(mode == "of"), complement=compl, regexes=regexes) for r in recs]
    except Decline:
        exp = None
    cx.nontrivial = outs != recs and (regexes is not None or named_share(recs, F))
    if not cx.judge(argv, recs, outs, byv, exp):
        return
    # complement law: cut -f F and cut -x -f F split each record into complementary parts
    if not compl and mode != "of":
        argv2 = ["cut", "-x"] + argv[1:]
        outs2 = cx.flat(argv2, recs)
        if outs2 is None:
            return
        for i, r in enumerate(recs):
            if i >= len(outs2) or sorted(outs[i] + outs2[i]) != sorted(r) or set(dict(outs[i])) & set(dict(outs2[i])):
                cx.violation("inverse", "cut-complement", f"record {i+1}: cut -f part {outs[i]} and cut -x -f part "
                             f"{outs2[i] if i < len(outs2) else None} do not recombine to {r}", argv2, recs)
                return
        bump(cx.res, "complement_checks")


def v_template(cx):
    rng = cx.rng
    recs = gen_stream(rng)
    F = pick_names(rng, recs, 1, 6)
    fill = rng.choice([None, None, "X", "0", "N/A", " "])
    via_file = rng.random() < 0.3
    cx.opt = ("t" if via_file else "f") + ("+fill" if fill is not None else "")
    files = {}
    if via_file:
        files["tpl.csv"] = lst(F) + "\n" + ("1" * 1 + "\n" if rng.random() < 0.5 else "")
        argv = ["template", "-t", "tpl.csv"]
    else:
        argv = ["template", "-f", lst(F)]
    if fill is not None:
        argv += ["--fill-with", fill]
    outs = cx.flat(argv, recs, files=files)
    if outs is None:
        return
    byv = []
    if len(outs) != len(recs):
        byv = [("record-count", f"{len(recs)} in, {len(outs)} out")]
    else:
        for i, (r, o) in enumerate(zip(recs, outs)):
            d = dict(r)
            bad = [(k, v) for k, v in o if k in d and d[k] != v]
            if bad:
                byv = [("value-changed", f"record {i+1}: fields {bad} do not carry the input's value ({r})")]
                break
    try:
        exp = [M.template(r, F, fill if fill is not None else "") for r in recs]
    except Decline:
        exp = None
    cx.nontrivial = outs != recs and named_share(recs, F)
    cx.judge(argv, recs, outs, byv, exp)


def v_reorder(cx):
    rng = cx.rng
    recs = gen_stream(rng)
    mode = rng.choice(["f", "f", "ef", "ef", "r", "er", "before", "after"])
    F = pick_names(rng, recs, 1, 4)
    cx.opt = mode
    regexes = None
    kw = {}
    if mode in ("r", "er"):
        regexes = pick_regexes(rng, rng.randint(1, 3))
        argv = ["reorder"] + (["-e"] if mode == "er" else []) + ["-r", lst(r[0] for r in regexes)]
        kw = {"regexes": regexes, "end": mode == "er"}
        named = lambda k, r: any(M.rx_match(x, k) for x in regexes)     # noqa: E731
    elif mode in ("before", "after"):
        present = [k for k, _ in recs[0] if k not in F]
        pivot = rng.choice(present + ["nosuch"]) if present else "nosuch"
        argv = ["reorder", "-f", lst(F), "-b" if mode == "before" else "-a", pivot]
        kw = {"before": pivot} if mode == "before" else {"after": pivot}
        named = lambda k, r: k in F                                     # noqa: E731
    else:
        argv = ["reorder"] + (["-e"] if mode == "ef" else []) + ["-f", lst(F)]
        kw = {"end": mode == "ef"}
        named = lambda k, r: k in F                                     # noqa: E731
    outs = cx.flat(argv, recs)
    if outs is None:
        return
    byv = by11(recs, outs, named)
    if not byv:
        for i, (r, o) in enumerate(zip(recs, outs)):
            if sorted(r) != sorted(o):
                byv = [("changed", f"record {i+1}: reorder changed the field set: {r} -> {o}")]
                break
    try:
        exp = [M.reorder(r, F, **kw) for r in recs]
    except Decline:
        exp = None
    cx.nontrivial = outs != recs and (regexes is not None or named_share(recs, F))
    cx.judge(argv, recs, outs, byv, exp)


def v_rename(cx):
    rng = cx.rng
    recs = gen_stream(rng)
    mode = rng.choice(["plain", "plain", "plain", "self", "r", "r", "gr", "chain"])
    cx.opt = mode
    fresh = ["N1", "N2", "new name", "n.w", "Z*", "a_new", "b2"]
    exp_lit = None
    if mode in ("plain", "self", "chain"):
        olds = pick_names(rng, recs, 1, 3)
        news = rng.sample(fresh, len(olds))
        if mode == "plain" and rng.random() < 0.25:
            # a new name that exists in some records: the model declines those records, bystanders still checked
            news[0] = rng.choice(NAMES)
            if news[0] in olds:
                news[0] = fresh[0]
        pairs = list(zip(olds, news))
        if mode == "self":
            pairs[0] = (olds[0], olds[0])         # renaming a field to its own name must be the identity
        if mode == "chain":
            argv = ["rename", lst(x for p in pairs for x in p), "then", "rename", lst(x for p in pairs for x in p[::-1])]
        else:
            argv = ["rename", lst(x for p in pairs for x in p)]
        touched = set(olds) | set(news)
        named = lambda k, r: k in touched                              # noqa: E731
        if mode == "chain":
            exp = [list(r) if not (set(news) & {k for k, _ in r}) else None for r in recs]
        else:
            exp = [M.rename(r, pairs) for r in recs]
        F = olds
    else:
        rx = rng.choice(M.REGEXES)
        repl = rng.choice(["X", "N_", "_new", "Y"])
        if rng.random() < 0.3:
            # capture groups in the new name (documented for -r; -g is "global replacement within each field name")
            rx, repl = rng.choice([(("^(.)(.*)$", "^(.)(.*)$", 0), "R_\\1\\2"), (("(b)", "(b)", 0), "<\\1>"),
                                   (("^(.)", "^(.)", 0), "\\1\\1_"), (('"(B)"i', "(B)", re.I), "<\\1>"),
                                   (('"^(a)(.*)$"i', "^(a)(.*)$", re.I), "\\2_\\1")])
            cx.opt = mode + "+capture"
        argv = ["rename"] + (["-g"] if mode == "gr" else []) + ["-r", rx[0] + "," + repl]
        exp = [M.rename_regex(r, rx, repl, gsub=(mode == "gr")) for r in recs]
        if mode == "gr" and "\\" in repl:
            # what the listed defect (capture groups not interpolated with -g) would print: the replacement taken literally
            exp_lit = [M.rename_regex(r, rx, lambda m, repl=repl: repl, gsub=True) for r in recs]

        def named(k, r, rx=rx, exp=exp, recs=recs):
            if M.rx_match(rx, k):
                return True
            # names the renaming produces are touched too
            j = recs.index(r) if r in recs else -1
            return j >= 0 and exp[j] is not None and k not in dict(r)
        F = None
    outs = cx.flat(argv, recs)
    if outs is None:
        return
    if F is None:
        # output-side: a name is a bystander iff it is an unmatched input name
        byv = by11(recs, outs, lambda k, r: M.rx_match(rx, k), lambda k, r: M.rx_match(rx, k) or k not in dict(r))
    else:
        byv = by11(recs, outs, named)
    cx.nontrivial = outs != recs and (F is None or named_share(recs, F))
    if exp_lit is not None and not byv and len(outs) == len(recs):
        # narrow signature for exactly that wrong result, judged on each record; those records are then compared with the
        # literal-replacement expectation so that positions, values and all other records stay under the model
        # (where the literal new names collide with each other the outcome of renaming onto an existing name is not
        # documented: the record is recognised by its SET of names and then declined)
        def lit_names(r):
            return {re.sub(rx[1], lambda m: repl, k, flags=rx[2]) if M.rx_match(rx, k) else k for k, _ in r}
        hit = [i for i, (e, l, g) in enumerate(zip(exp, exp_lit, outs))
               if e is not None and e != g and {k for k, _ in g} == lit_names(recs[i]) and (l is None or l == g)]
        if hit:
            i = hit[0]
            cx.violation("model", "capture-not-interpolated", f"record {i+1}: input {recs[i]} expected {exp[i]} got {outs[i]}: "
                         f"rename -g -r copies the replacement {repl!r} literally instead of interpolating the capture groups",
                         argv, recs, expected=exp[:50], got=outs[:50])
            exp = [exp_lit[i] if i in hit else e for i, e in enumerate(exp)]
    cx.judge(argv, recs, outs, byv, exp)


def v_label(cx):
    rng = cx.rng
    recs = gen_stream(rng)
    n = rng.randint(1, 6)
    pool = ["L1", "L2", "l 3", "L.4", "L5", "L6"]
    new = rng.sample(pool, n)
    if rng.random() < 0.3:
        # may collide with a later field: the model declines that record, but both model-free checks stay on (the later
        # fields that are NOT named by a label keep name, value and order; the first n values stay in place)
        new[rng.randrange(n)] = rng.choice(NAMES + ["_id"])
    if len(set(new)) != len(new):
        new = rng.sample(pool, n)
    cx.opt = f"n{min(n, 3)}"
    argv = ["label", lst(new)]
    outs = cx.flat(argv, recs)
    if outs is None:
        return
    byv = []
    if len(outs) != len(recs):
        byv = [("record-count", f"{len(recs)} in, {len(outs)} out")]
    else:
        for i, (r, o) in enumerate(zip(recs, outs)):
            bi = [(k, v) for k, v in r[n:] if k not in new]
            bo = [(k, v) for k, v in o[min(n, len(r)):] if k not in new] if len(o) >= min(n, len(r)) else None
            vals_in = [v for _, v in r[:n]]
            vals_out = [v for _, v in o[:min(n, len(r))]]
            if bo is None or bi != bo:
                byv = [(_classify(bi, bo or []), f"record {i+1}: fields past the {n} labelled ones changed: {r} -> {o}")]
                break
            if vals_in != vals_out:
                byv = [("value-changed", f"record {i+1}: values of the labelled fields changed: {r} -> {o}")]
                break
    try:
        exp = [M.label(r, new) for r in recs]
    except Decline:
        exp = None
    cx.nontrivial = outs != recs and any(len(r) > n for r in recs)
    if not cx.judge(argv, recs, outs, byv, exp):
        return
    # usage text, also where the model declines the record: "renames the first n fields ... to have the respective name"
    for i, (r, o) in enumerate(zip(recs, outs)):
        m = min(n, len(r))
        if [k for k, _ in o[:m]] != new[:m]:
            cx.violation("model", "first-n-names", f"record {i+1}: the first {m} fields of {o} are not named {new[:m]} (input {r})", argv, recs, got=outs[:30])
            return
    bump(cx.res, "property_checks")


def v_regularize(cx):
    rng = cx.rng
    # few names so that key sets repeat in different orders
    pool = rng.sample(NAMES, 4)
    recs = []
    for i in range(rng.randint(6, 14)):
        ks = rng.sample(pool, rng.randint(1, 4))
        if rng.random() < 0.2:
            ks += rng.sample(WNAMES, 13)
            rng.shuffle(ks)
        recs.append([(k, rng.choice(VALS)) for k in ks] + [("_id", f"r{i+1}")])
        rng.shuffle(recs[-1])
    cx.opt = "-"
    argv = ["regularize"]
    outs = cx.flat(argv, recs)
    if outs is None:
        return
    byv = []
    if len(outs) != len(recs):
        byv = [("record-count", f"{len(recs)} in, {len(outs)} out")]
    else:
        for i, (r, o) in enumerate(zip(recs, outs)):
            if sorted(r) != sorted(o):
                byv = [("changed", f"record {i+1}: field set changed {r} -> {o}")]
                break
    try:
        exp = M.regularize(recs)
    except Decline:
        exp = None
    cx.nontrivial = outs != recs
    cx.judge(argv, recs, outs, byv, exp)


def _natural_violation(sub):
    """-n: 'Sort field names naturally (e.g. 2 before 12)'.  Judged only where that sentence decides: two names with the same
    non-digit prefix and an all-digit rest must come in numeric order; two names without any digit in lexical order."""
    for i in range(len(sub)):
        for j in range(i + 1, len(sub)):
            a, b = re.fullmatch(r"([^0-9]*)([0-9]*)", sub[i]), re.fullmatch(r"([^0-9]*)([0-9]*)", sub[j])
            if not a or not b:
                continue
            if a.group(2) and b.group(2) and a.group(1) == b.group(1) and int(a.group(2)) > int(b.group(2)):
                return (sub[i], sub[j])
            if not a.group(2) and not b.group(2) and sub[i] > sub[j]:
                return (sub[i], sub[j])
    return None


def v_sort_within_records_sel(cx):
    """Option forms of the usage text that select the keys to sort: -f {names}, -r {regex}, -r -f {regex} ('combines with -f to
    treat names as regexes'), each alone or with -n ('Combines with -f/-r').  Where the sorted keys are placed is not
    documented, so: the other keys keep record order (bystander), the field set is unchanged, the selected keys are ascending."""
    rng = cx.rng
    how = rng.choice(["f", "r", "r", "rf"])
    natural = rng.random() < 0.5
    cx.opt = how + ("+n" if natural else "")
    if natural:
        # numbered name families in which lexical and natural order differ (n10 < n2, w12 < w3 lexically)
        pool = ["n1", "n2", "n10", "n3", "n20", "n100", "n9", "a", "b", "ab", "x", "é", "A", "sp ace"] + WNAMES
        recs = gen_stream(rng, names=pool, min_fields=4, max_fields=11, wide_share=0.3)
    else:
        recs = gen_stream(rng, wide_share=0.4)
    if how == "f":
        F = pick_names(rng, recs, 2, 8, pool=(pool if natural else None))
        sel = lambda k: k in F                                      # noqa: E731
        argv = ["sort-within-records", "-f", lst(F)]
    else:
        rx = rng.choice([("^n", "^n", 0), ("^w", "^w", 0), ("^[nw]", "^[nw]", 0), ("[0-9]$", "[0-9]$", 0), ("^n[0-9]+$", "^n[0-9]+$", 0),
                         ('"^W"i', "^W", re.I)] if natural else
                        [r for r in M.REGEXES if r[0] not in ("^_", "^a$", "^.$")] + [("^w", "^w", 0), ("^[nw]", "^[nw]", 0)])
        sel = lambda k: M.rx_match(rx, k)                            # noqa: E731
        argv = ["sort-within-records"] + (["-r", rx[0]] if how == "r" else ["-r", "-f", rx[0]])
    if natural:
        argv.insert(rng.choice([1, len(argv)]), "-n")
    outs = cx.flat(argv, recs)
    if outs is None:
        return
    byv = by11(recs, outs, lambda k, r: sel(k))
    if not byv:
        for i, (r, o) in enumerate(zip(recs, outs)):
            if sorted(r) != sorted(o):
                byv = [("changed", f"record {i+1}: field set changed {r} -> {o}")]
                break
    cx.nontrivial = outs != recs and any(sum(1 for k, _ in r if sel(k)) >= 2 and any(not sel(k) for k, _ in r) for r in recs)
    if byv:
        cx.judge(argv, recs, outs, byv, None)
        return
    bump(cx.res, "bystander_checks")
    for i, o in enumerate(outs):
        sub = [k for k, _ in o if sel(k)]
        bad = _natural_violation(sub) if natural else next(((x, y) for x, y in zip(sub, sub[1:]) if x > y), None)
        if bad:
            cx.violation("model", "named-not-sorted", f"record {i+1}: selected keys {sub} are not in ascending {'natural' if natural else 'lexical'} "
                         f"order ({bad[0]} before {bad[1]}): {o}", argv, recs, got=outs[:30])
            return
    bump(cx.res, "property_checks")


def v_sort_within_records(cx):
    rng = cx.rng
    if rng.random() < 0.5:
        return v_sort_within_records_sel(cx)
    mode = rng.choice(["plain", "plain", "plain", "f", "natural"])
    cx.opt = mode
    if mode == "natural":
        pool = ["n1", "n2", "n10", "n3", "n20", "n100", "n9"]
        recs = [[(k, rng.choice(VALS)) for k in rng.sample(pool, rng.randint(2, 7))] for _ in range(8)]
        argv = ["sort-within-records", "-n"]
        exp = [sorted(r, key=lambda kv: int(kv[0][1:])) for r in recs]
        named = lambda k, r: True                                   # noqa: E731
    elif mode == "f":
        recs = gen_stream(rng)
        F = pick_names(rng, recs, 1, 4)
        argv = ["sort-within-records", "-f", lst(F)]
        exp = None      # where the sorted block goes is not documented; checked as properties below
        named = lambda k, r: k in F                                 # noqa: E731
    else:
        recs = gen_stream(rng)
        argv = ["sort-within-records"]
        exp = [M.sort_within_records(r) for r in recs]
        named = lambda k, r: True                                   # noqa: E731
    outs = cx.flat(argv, recs)
    if outs is None:
        return
    byv = by11(recs, outs, named)
    if not byv:
        for i, (r, o) in enumerate(zip(recs, outs)):
            if sorted(r) != sorted(o):
                byv = [("changed", f"record {i+1}: field set changed {r} -> {o}")]
                break
            if mode == "f":
                sub = [k for k, _ in o if k in F]
                if sub != sorted(sub):
                    cx.violation("model", "named-not-sorted", f"record {i+1}: keys named by -f are not in ascending order: {o}", argv, recs)
                    return
    cx.nontrivial = outs != recs
    if exp is None and not byv:
        bump(cx.res, "bystander_checks")
        bump(cx.res, "property_checks")
        return
    cx.judge(argv, recs, outs, byv, exp)


# ==========================================================================================
# verb handlers, part 2

def _permuted_stream(rng):
    """Small key pool: many records hold the COMPLETE key union, in their own order; others lack keys."""
    pool = rng.sample(NAMES + ["_id"], rng.randint(2, 6))
    if rng.random() < 0.25:
        pool += rng.sample(WNAMES, rng.choice([6, 7, 8, 10]))      # union of 11/12/13+ keys
    recs = []
    for i in range(rng.randint(3, 10)):
        x = rng.random()
        ks = list(pool)
        if x < 0.45:
            rng.shuffle(ks)                                    # complete, permuted
        elif x < 0.55:
            pass                                               # complete, pool order
        else:
            ks = rng.sample(pool, rng.randint(1, len(pool)))    # sparse, own order
        recs.append([(k, rng.choice(VALS)) for k in ks])
    return recs


def v_unsparsify(cx):
    rng = cx.rng
    permuted = rng.random() < 0.5
    recs = _permuted_stream(rng) if permuted else gen_stream(rng, wide_share=0.15)
    mode = rng.choice(["all", "all", "all", "f"]) if permuted else rng.choice(["all", "all", "f", "f"])
    fill = rng.choice([None, None, "X", "0", "-"])
    cx.opt = mode + ("+fill" if fill is not None else "") + ("+permuted" if permuted else "")
    fv = fill if fill is not None else ""
    argv = ["unsparsify"] + (["--fill-with", fill] if fill is not None else [])
    if mode == "f":
        F = pick_names(rng, recs, 1, 5)
        argv += ["-f", lst(F)]
    outs = cx.flat(argv, recs)
    if outs is None:
        return
    byv = []
    if len(outs) != len(recs):
        byv = [("record-count", f"{len(recs)} in, {len(outs)} out")]
    else:
        for i, (r, o) in enumerate(zip(recs, outs)):
            d = dict(o)
            if any(d.get(k) != v for k, v in r) or len(d) != len(o):
                byv = [("value-changed", f"record {i+1}: input fields not all carried intact: {r} -> {o}")]
                break
            if mode == "f" and o[:len(r)] != r:
                byv = [("reordered", f"record {i+1}: -f mode must append to the unmodified record: {r} -> {o}")]
                break
    try:
        exp = M.unsparsify(recs, fv) if mode == "all" else [M.unsparsify_f(r, F, fv) for r in recs]
    except Decline:
        exp = None
    cx.nontrivial = outs != recs
    if cx.judge(argv, recs, outs, byv, exp) and mode == "all" and outs:
        hdr = [k for k, _ in outs[0]]
        union = [k for k, _ in M.unsparsify(recs, fv)[0]]
        if any([k for k, _ in o] != hdr for o in outs) or hdr != union:
            cx.violation("model", "not-rectangular", f"unsparsify output is not rectangular in first-seen key order {union}", argv, recs, got=outs[:20])
            return
        if rng.random() < 0.5:
            # the same stream as a CSV consumer sees it: one header line = the first-seen union, one row per record
            r = R.mlr(cx.main + ["--ocsv", "--quote-all"] + argv, stdin=gen.dkvp(recs))
            bump(cx.res, "runs")
            want_hdr = ",".join('"' + k.replace('"', '""') + '"' for k in union)
            lines = r.out.split("\n")
            if r.verdict == "slow":
                cx.res["inconc"] += 1
            elif not r.ok or lines[0] != want_hdr or len(lines) != len(recs) + 2:
                cx.violation("model", "csv-not-one-rectangular-block",
                             f"--ocsv unsparsify does not give one header {want_hdr} + {len(recs)} rows: rc={r.rc} {r.err.strip()[:150]} {r.out[:200]!r}",
                             ["--ocsv", "--quote-all"] + argv, recs)
            else:
                bump(cx.res, "csv_block_checks")


def v_sparsify(cx):
    rng = cx.rng
    recs = gen_stream(rng)
    filler = rng.choice([None, None, "x", "1", " "])
    F = pick_names(rng, recs, 1, 4) if rng.random() < 0.5 else None
    cx.opt = ("f" if F else "all") + ("+s" if filler is not None else "")
    argv = ["sparsify"] + (["-s", filler] if filler is not None else []) + (["-f", lst(F)] if F else [])
    fv = filler if filler is not None else ""
    outs = cx.flat(argv, recs)
    if outs is None:
        return
    byv = by11(recs, outs, lambda k, r: dict(r).get(k) == fv and (F is None or k in F))
    exp = [M.sparsify(r, fv, F) for r in recs]
    cx.nontrivial = outs != recs and (F is None or named_share(recs, F))
    cx.judge(argv, recs, outs, byv, exp)


def v_fill_empty(cx):
    rng = cx.rng
    recs = gen_stream(rng)
    fill = rng.choice([None, "X", "0", "filler text", "-1.5"])
    S = rng.random() < 0.3
    cx.opt = ("v" if fill is not None else "default") + ("+S" if S else "")
    argv = ["fill-empty"] + (["-v", fill] if fill is not None else []) + (["-S"] if S else [])
    outs = cx.flat(argv, recs)
    if outs is None:
        return
    byv = by11(recs, outs, lambda k, r: dict(r).get(k) == "")
    if not byv:
        for i, (r, o) in enumerate(zip(recs, outs)):
            if [k for k, _ in r] != [k for k, _ in o]:
                byv = [("reordered", f"record {i+1}: names/order changed {r} -> {o}")]
                break
    exp = [M.fill_empty(r, fill if fill is not None else "N/A") for r in recs]
    cx.nontrivial = outs != recs
    if cx.judge(argv, recs, outs, byv, exp) and fill is not None and '"' not in fill:
        # DSL equivalent (DESIGN C12 (3))
        alt = ["put", 'for (k,v in $*) { if (is_empty(v)) {$[k]="' + fill + '"} }']
        outs2 = cx.flat(alt, recs)
        if outs2 is not None:
            if outs2 != outs:
                cx.violation("equiv", "fill-empty-vs-put", f"fill-empty -v differs from the put loop with is_empty: {outs[:3]} vs {outs2[:3]}", argv, recs)
            else:
                bump(cx.res, "equivalence_checks")


SEP_ALIAS = {";": "semicolon", "|": "pipe", "/": "slash", ":": "colon"}     # mlr help list-separator-aliases


def _sep_arg(rng, sep):
    """The separator as typed on the command line: itself, or (a fixed share) its documented alias name."""
    return SEP_ALIAS[sep] if sep in SEP_ALIAS and rng.random() < 0.3 else sep


NEST_VALS = ["a;b;c", "solo", "", "x;y", ";;", "a|b", "p/q/r", "1;2;3;4;5;6;7;8;9;10;11;12;13", "a;", ";z"]


def _nest_stream(rng, f, fs, with_id=True):
    recs = gen_stream(rng, names=[n for n in NAMES if n != f])
    for r in recs:
        if rng.random() < 0.8:
            v = rng.choice(NEST_VALS).replace(";", fs) if rng.random() < 0.8 else rng.choice(VALS)
            r.insert(rng.randint(0, len(r)), (f, v))
    return recs


def v_nest_explode_values(cx):
    rng = cx.rng
    across = rng.choice(["records", "fields"])
    f = rng.choice(["x", "n.f", "a*", "sp ace", "ab"])
    fs = rng.choice([";", ";", "|", "/", "::"])
    recs = _nest_stream(rng, f, fs)
    short = across == "records" and rng.random() < 0.4
    cx.opt = across + ("+evar" if short else "") + ("+fs" if fs != ";" else "")
    if short:
        argv = ["nest", "--evar", _sep_arg(rng, fs), "-f", f]
    else:
        argv = ["nest", "--explode", "--values", f"--across-{across}", "-f", f] + (["--nested-fs", _sep_arg(rng, fs)] if fs != ";" or rng.random() < 0.3 else [])
    outs = cx.flat(argv, recs)
    if outs is None:
        return
    fn = M.nest_explode_values_records if across == "records" else M.nest_explode_values_fields
    groups = [fn(r, f, fs) for r in recs]
    byv = _by_groups(recs, outs, lambda k, r: k == f or (across == "fields" and re.fullmatch(re.escape(f) + r"_\d+", k) is not None))
    exp = None if any(g is None for g in groups) else [o for g in groups for o in g]
    cx.nontrivial = outs != recs
    cx.judge(argv, recs, outs, byv, exp, one_to_one=False)


def _by_groups(recs, outs, named):
    """1:N verbs: output records are matched to inputs by the unique _id (a bystander); every input must
    yield >= 1 output, in input order, each carrying the input's bystanders intact."""
    ids = [dict(r)["_id"] for r in recs]
    pos = {x: i for i, x in enumerate(ids)}
    last = -1
    seen = set()
    for j, o in enumerate(outs):
        oid = dict(o).get("_id")
        if oid not in pos:
            return [("changed", f"output record {j+1} {o} carries no known _id")]
        i = pos[oid]
        if i < last:
            return [("record-order", f"output record {j+1} (from input {i+1}) comes after output of input {last+1}")]
        last = i
        seen.add(i)
        r = recs[i]
        bi = [(k, v) for k, v in r if not named(k, r)]
        bo = [(k, v) for k, v in o if not named(k, r)]
        if bi != bo:
            return [(_classify(bi, bo), f"input {i+1}: bystander fields {bi} became {bo} in output {o}")]
    missing = [i + 1 for i in range(len(recs)) if i not in seen]
    if missing:
        return [("record-vanished", f"input record(s) {missing} produce no output record at all, e.g. {recs[missing[0]-1]}")]
    return []


def v_nest_explode_pairs(cx):
    rng = cx.rng
    across = rng.choice(["records", "fields"])
    f = rng.choice(["x", "n.f", "ab"])
    fs = rng.choice([";", ";", "|"])
    ps = rng.choice([":", ":", "~"])
    recs = gen_stream(rng, names=[n for n in NAMES if n != f])
    empties = False
    for r in recs:
        if rng.random() < 0.8:
            ks = rng.sample(["k1", "k2", "k 3", "k.4", "K5"], rng.randint(1, 4))
            v = fs.join(k + ps + rng.choice(["1", "v", "", "a b"]) for k in ks)
            if rng.random() < 0.12:
                v = ""
                empties = True
            r.insert(rng.randint(0, len(r)), (f, v))
    cx.opt = across + ("+seps" if (fs, ps) != (";", ":") else "") + ("+empty" if empties else "")
    argv = ["nest", "--explode", "--pairs", f"--across-{across}", "-f", f]
    if (fs, ps) != (";", ":") or rng.random() < 0.2:
        argv += ["--nested-fs", _sep_arg(rng, fs), "--nested-ps", _sep_arg(rng, ps)]
    outs = cx.flat(argv, recs)
    if outs is None:
        return
    cx.nontrivial = outs != recs
    jrecs = recs
    if across == "records":
        # the witness decides, not the stream: an input record that yields NO output record although its field is the empty
        # string is the listed defect; it is recorded once and taken out, and the bystander + model comparison goes on with
        # the remaining records.  A vanished record whose value is not empty keeps the general sub 'record-vanished'.
        got_ids = {dict(o).get("_id") for o in outs}
        gone = [r for r in recs if dict(r)["_id"] not in got_ids]
        if gone and all(dict(r).get(f) == "" for r in gone):
            cx.violation("bystander", "record-vanished-empty-value",
                         f"{len(gone)} input record(s) whose {f} is the empty string produce no output record at all (all other "
                         f"fields lost), e.g. {gone[0]}", argv, recs, got=outs[:50])
            jrecs = [r for r in recs if dict(r)["_id"] in got_ids]
    fn = M.nest_explode_pairs_records if across == "records" else M.nest_explode_pairs_fields
    groups = [fn(r, f, fs, ps) for r in jrecs]
    byv = _by_groups(jrecs, outs, lambda k, r: k == f or k not in dict(r))
    exp = None if any(g is None for g in groups) else [o for g in groups for o in g]
    cx.judge(argv, jrecs, outs, byv, exp, one_to_one=False)


NEST_FAMILIES = [(["x", "y"], ("^[xy]$", "^[xy]$", 0)), (["n.f", "n.g", "n.h"], ("^n\\.", "^n\\.", 0)),
                 (["ab", "abc"], ("^ab", "^ab", 0)), (["x", "Y", "y"], ('"^y"i', "^y", re.I))]


def v_nest_explode_regex(cx):
    """nest --explode ... -r {regex}: 'Like -f but treat arguments as a regular expression. Match all field names and operate on
    each in record order.'  Model = the -f model applied to every matching field of the input record, in record order."""
    rng = cx.rng
    kind = rng.choice(["values", "pairs"])
    across = rng.choice(["records", "fields"])
    fam, rx = rng.choice(NEST_FAMILIES)
    fs = rng.choice([";", ";", "|"])
    ps = rng.choice([":", ":", "~"])
    recs = gen_stream(rng, names=[n for n in NAMES if not M.rx_match(rx, n) and n not in fam])
    for r in recs:
        for j, f in enumerate(rng.sample(fam, len(fam))):
            if rng.random() < 0.6:
                if kind == "values":
                    v = rng.choice(NEST_VALS).replace(";", fs) if rng.random() < 0.85 else rng.choice(VALS)
                else:
                    ks = rng.sample([f"k{j}1", f"k{j}2", f"k {j}3", f"K{j}.4"], rng.randint(1, 3))     # key pools disjoint between fields
                    v = fs.join(k + ps + rng.choice(["1", "v", "", "a b"]) for k in ks)
                r.insert(rng.randint(0, len(r)), (f, v))
    cx.opt = f"{kind}+{across}+r"
    argv = ["nest", "--explode", f"--{kind}", f"--across-{across}", "-r", rx[0]]
    if fs != ";" or (kind == "pairs" and ps != ":"):
        argv += ["--nested-fs", _sep_arg(rng, fs)] + (["--nested-ps", _sep_arg(rng, ps)] if kind == "pairs" else [])
    outs = cx.flat(argv, recs)
    if outs is None:
        return
    fn = {("values", "records"): lambda r, f: M.nest_explode_values_records(r, f, fs),
          ("values", "fields"): lambda r, f: M.nest_explode_values_fields(r, f, fs),
          ("pairs", "records"): lambda r, f: M.nest_explode_pairs_records(r, f, fs, ps),
          ("pairs", "fields"): lambda r, f: M.nest_explode_pairs_fields(r, f, fs, ps)}[(kind, across)]

    def model(r, limit=None):
        cur = [list(r)]
        for f in [k for k, _ in r if M.rx_match(rx, k)][:limit]:
            nxt = []
            for x in cur:
                g = fn(x, f)
                if g is None:
                    return None
                nxt += g
            cur = nxt
        return cur
    groups = [model(r) for r in recs]
    matched = lambda k: M.rx_match(rx, k) or any(re.fullmatch(re.escape(f) + r"_[0-9]+", k) for f in fam)      # noqa: E731
    byv = _by_groups(recs, outs, lambda k, r: (matched(k) if kind == "values" else (M.rx_match(rx, k) or k not in dict(r))))
    exp = None if any(g is None for g in groups) else [o for g in groups for o in g]
    cx.nontrivial = outs != recs and any(sum(1 for k, _ in r if M.rx_match(rx, k)) >= 2 for r in recs)
    if exp is not None and not byv and across == "records" and outs != exp:
        # narrow signature, decided on the output itself: exactly the stream in which only the FIRST matching field of each
        # record was exploded (the others left as they were); the comparison then continues against that stream
        g1 = [model(r, limit=1) for r in recs]
        alt = None if any(g is None for g in g1) else [o for g in g1 for o in g]
        if alt == outs:
            bad = next(r for r, g, h in zip(recs, groups, g1) if g != h)
            cx.violation("model", "only-first-matching-field-exploded",
                         f"nest --explode --{kind} --across-records -r {rx[0]}: only the first matching field of a record is exploded, the "
                         f"other matching fields are left as they are, e.g. input {bad}", argv, recs, expected=exp[:50], got=outs[:50])
            exp = alt
    cx.judge(argv, recs, outs, byv, exp, one_to_one=False)


def v_nest_implode(cx):
    rng = cx.rng
    f = rng.choice(["x", "n.f", "ab"])
    fs = rng.choice([";", ";", "|"])
    # few distinct "other fields" so that groups form; no unique id here (it would make every group a singleton)
    shapes = []
    for _ in range(rng.randint(1, 4)):
        ks = rng.sample([n for n in NAMES if n != f], rng.randint(0, 3))
        shapes.append([(k, rng.choice(["1", "2", "", "u v"])) for k in ks])
    recs = []
    for i in range(rng.randint(5, 14)):
        sh = list(rng.choice(shapes))
        if rng.random() < 0.85:
            sh.insert(rng.randint(0, len(sh)) if rng.random() < 0.3 else 0, (f, rng.choice(["a", "b", "c", "", "d e", "7"])))
        if not sh:
            sh = [("only", "1")]
        recs.append(sh)
    short = rng.random() < 0.4
    cx.opt = ("ivar" if short else "long") + ("+fs" if fs != ";" else "")
    argv = ["nest", "--ivar", _sep_arg(rng, fs), "-f", f] if short else ["nest", "--implode", "--values", "--across-records", "-f", f] + (["--nested-fs", _sep_arg(rng, fs)] if fs != ";" else [])
    outs = cx.flat(argv, recs)
    if outs is None:
        return
    # bystander: the multiset of distinct "other fields" tuples is preserved exactly
    def others(r):
        return tuple((k, v) for k, v in r if k != f)
    seenf = set()
    want = []
    for r in recs:
        if f not in dict(r):
            want.append(("pass", others(r)))
        elif others(r) not in seenf:
            seenf.add(others(r))
            want.append(("grp", others(r)))
    got = [("pass" if f not in dict(o) else "grp", others(o)) for o in outs]
    byv = []
    if sorted(map(repr, want)) != sorted(map(repr, got)):
        byv = [("changed", f"the other fields of the records are not preserved group by group: expected groups {want[:6]} got {got[:6]}")]
    exp = M.nest_implode_values_records(recs, f, fs)
    cx.nontrivial = outs != recs and len(outs) < len(recs)
    # emission order across groups whose other fields have different NAMES is not documented: multiset then
    shapes_n = {tuple(k for k, _ in r if k != f) for r in recs if f in dict(r)}
    cx.judge(argv, recs, outs, byv, exp, one_to_one=False, as_multiset=len(shapes_n) > 1)


def v_reshape_w2l(cx):
    rng = cx.rng
    recs = gen_stream(rng)
    mode = rng.choice(["i", "i", "r", "rr"])
    kname, vname = rng.choice([("key", "value"), ("k.n", "v n"), ("item", "price")])
    cx.opt = mode
    if mode == "i":
        F = pick_names(rng, recs, 1, 4)
        argv = ["reshape", "-i", lst(F), "-o", f"{kname},{vname}"]
        sel = lambda k: k in F                                           # noqa: E731
    else:
        rxs = pick_regexes(rng, 1 if mode == "r" else 2)
        rxs = [r for r in rxs if r[0] not in ("^_", "^.$")] or [M.REGEXES[0]]
        argv = ["reshape"] + [x for r in rxs for x in ("-r", r[0])] + ["-o", f"{kname},{vname}"]
        sel = lambda k: k != "_id" and any(M.rx_match(r, k) for r in rxs)  # noqa: E731
        if any(M.rx_match(r, "_id") for r in rxs):
            cx.res["skipped"] += 1
            return
    outs = cx.flat(argv, recs)
    if outs is None:
        return
    byv = _by_groups(recs, outs, lambda k, r: sel(k) or (k in (kname, vname) and k not in dict(r)))
    groups = [M.reshape_wide_to_long(r, sel, kname, vname) for r in recs]
    ok = True
    if byv:
        ok = cx.judge(argv, recs, outs, byv, None, one_to_one=False)
    else:
        bump(cx.res, "bystander_checks")
        # per input: the group of outputs, as a sequence.  The usage example emits the pairs of one input in record order, which
        # there is also the -i / -r argument order; the docs do not say which of the two rules it is, so either is accepted -
        # but one and the same rule for every record of the stream (hash order or any other permutation is neither).
        by_id = {}
        for o in outs:
            by_id.setdefault(dict(o)["_id"], []).append(o)

        def arg_rank(k):
            if mode == "i":
                return F.index(k)
            return next(j for j, x in enumerate(rxs) if M.rx_match(x, k))
        rules_alive = {"record-order", "argument-order"}
        for r, g in zip(recs, groups):
            if g is None:
                bump(cx.res, "model_declined_records")
                continue
            got = by_id.get(dict(r)["_id"], [])
            if sorted(map(repr, g)) != sorted(map(repr, got)):
                cx.violation("model", "stream", f"input {r}: expected long records {g} got {got}", argv, recs, expected=g, got=got)
                ok = False
                break
            if len(g) > 1:
                alts = {"record-order": g, "argument-order": sorted(g, key=lambda o: arg_rank(dict(o)[kname]))}
                rules_alive = {x for x in rules_alive if alts[x] == got}
                if not rules_alive:
                    cx.violation("model", "pair-order", f"input {r}: the long records come neither in record order nor in -i/-r argument "
                                 f"order (consistently over the stream): got {got}", argv, recs, expected=g, got=got)
                    ok = False
                    break
            bump(cx.res, "model_records_checked", len(got))
    cx.nontrivial = outs != recs and (mode != "i" or named_share(recs, F))


def v_reshape_l2w(cx):
    rng = cx.rng
    kname, vname = rng.choice([("key", "value"), ("k.n", "v n")])
    nid = rng.randint(1, 5)
    keys = rng.sample(["X", "Y", "Z", "k 1", "k.2"], rng.randint(1, 4))
    complete = rng.random() < 0.6
    other_layouts = [[("id", None)], [("id", None), ("g", "1")], [("g", "2"), ("id", None)]]
    recs = []
    for i in range(nid):
        lay = rng.choice(other_layouts)
        for k in keys:
            if not complete and rng.random() < 0.25:
                continue
            r = [(n, (f"i{i}" if v is None else v)) for n, v in lay]
            pos = rng.randint(0, len(r)) if rng.random() < 0.3 else len(r)
            r[pos:pos] = [(kname, k), (vname, rng.choice(VALS))]
            recs.append(r)
    if rng.random() < 0.5:
        rng.shuffle(recs)
    for _ in range(rng.randint(0, 2)):
        recs.insert(rng.randint(0, len(recs)), [("id", "lonely"), (rng.choice([kname, vname, "u"]), "1")])
    if not recs:
        recs = [[("id", "i0"), (kname, "X"), (vname, "1")]]
    cx.opt = "complete" if complete else "missing-cells"
    argv = ["reshape", "-s", f"{kname},{vname}"]
    outs = cx.flat(argv, recs)
    if outs is None:
        return

    def others(r):
        return tuple((k, v) for k, v in r if k not in (kname, vname))
    want, seen = [], set()
    for r in recs:
        d = dict(r)
        if kname not in d or vname not in d:
            want.append(tuple(r))
        elif others(r) not in seen:
            seen.add(others(r))
            want.append(others(r))
    keys = {dict(r)[kname] for r in recs if kname in dict(r) and vname in dict(r)}
    got = []
    for o in outs:
        if tuple(o) in want and tuple(o) not in seen:
            got.append(tuple(o))
        else:
            got.append(tuple((k, v) for k, v in o if k not in keys))
    byv = []
    if sorted(map(repr, want)) != sorted(map(repr, got)):
        byv = [("changed", f"the other fields are not preserved bucket by bucket: expected {want[:5]} got {got[:5]}")]
    passed = wide = None
    try:
        passed, wide = M.reshape_long_to_wide(recs, kname, vname)
        exp = passed + wide
    except Decline:
        exp = None
    cx.nontrivial = outs != recs and len(outs) < len(recs)
    # emission order across buckets with different other-key NAMES is not documented: multiset comparison then.  With one
    # shape of other keys the buckets come in first-appearance order (usage example; same reading as nest --implode), and the
    # records passed through unchanged keep their own order; how the two interleave is not documented.
    if not cx.judge(argv, recs, outs, byv, exp, one_to_one=False, as_multiset=True) or exp is None:
        return
    shapes_n = {tuple(k for k, _ in r if k not in (kname, vname)) for r in recs if kname in dict(r) and vname in dict(r)}
    if not is_subseq(passed, outs) or (len(shapes_n) == 1 and not is_subseq(wide, outs)):
        cx.violation("model", "record-order", f"reshape long-to-wide: buckets (one other-key shape: first-appearance order) {wide[:6]} / passed-through "
                     f"records {passed[:6]} do not keep their order in the output {outs[:8]}", argv, recs, expected=exp[:50], got=outs[:50])
    else:
        bump(cx.res, "order_checks")


# ==========================================================================================
# verb handlers, part 3

def v_altkv(cx):
    rng = cx.rng
    pool = ["a", "b", "c", "d", "e", "k 1", "k.2", "x", "y", "1", "2", "", "v"]
    recs = []
    for i in range(rng.randint(5, 10)):
        n = rng.randint(1, 9) if rng.random() < 0.85 else rng.randint(12, 17)
        ks = rng.sample(NAMES + WNAMES, n)
        vals = [rng.choice(pool) for _ in range(n)]
        if rng.random() < 0.7:
            # distinct keys in the odd positions
            odd = rng.sample(["k1", "k2", "k 3", "k.4", "K5", "k6", "k7", "k8", "k9"], (n + 1) // 2)
            for j in range(0, n - 1, 2):
                vals[j] = odd[j // 2]
        recs.append(list(zip(ks, vals)))
    cx.opt = "-"
    argv = ["altkv"]
    outs = cx.flat(argv, recs)
    if outs is None:
        return
    exp = [M.altkv(r) for r in recs]
    byv = [] if len(outs) == len(recs) else [("record-count", f"{len(recs)} in, {len(outs)} out")]
    cx.nontrivial = True
    cx.judge(argv, recs, outs, byv, exp)


CASE_VALS = ["hello world", "HELLO", "mIxEd Case words", "", "abc", "x", "Ab Cd", "12", "éa bc", "z"]
CASE_NAMES = ["alpha", "Beta", "GAMMA", "de lta", "x", "Y", "mIx", "two words", "é1"]


def v_case(cx):
    rng = cx.rng
    recs = gen_stream(rng, names=CASE_NAMES, vals=CASE_VALS, max_fields=6, with_id=False)
    how = rng.choice(["-u", "-l", "-s", "-t"])
    kv = rng.choice(["both", "-k", "-v"])
    F = pick_names(rng, recs, 1, 3, pool=CASE_NAMES) if rng.random() < 0.6 else None
    cx.opt = how + ("" if kv == "both" else kv) + ("+f" if F else "")
    argv = ["case", how] + ([] if kv == "both" else [kv]) + (["-f", lst(F)] if F else [])
    outs = cx.flat(argv, recs)
    if outs is None:
        return
    exp = [M.case(r, how, keys=kv != "-v", values=kv != "-k", F=F) for r in recs]
    if F is None:
        byv = [] if len(outs) == len(recs) else [("record-count", f"{len(recs)} in, {len(outs)} out")]
    else:
        byv = by11(recs, outs, lambda k, r: k in F, lambda k, r: k not in dict(r) or k in F)
    cx.nontrivial = outs != recs and (F is None or named_share(recs, F))
    cx.judge(argv, recs, outs, byv, exp)


def v_unspace(cx):
    rng = cx.rng
    recs = gen_stream(rng, names=NAMES + ["two words", "a b c", " lead", "trail "], vals=VALS + ["a  b", " x "])
    filler = rng.choice([None, None, ".", "XY", "-"])
    kv = rng.choice(["both", "-k", "-v"])
    cx.opt = kv + ("+f" if filler is not None else "")
    argv = ["unspace"] + (["-f", filler] if filler is not None else []) + ([] if kv == "both" else [kv])
    outs = cx.flat(argv, recs)
    if outs is None:
        return
    fv = filler if filler is not None else "_"
    exp = [M.unspace(r, fv, keys=kv != "-v", values=kv != "-k") for r in recs]
    # bystanders: fields with no space in the part being rewritten
    def touched(k, r):
        v = dict(r).get(k, "")
        return (kv != "-v" and " " in k) or (kv != "-k" and " " in v)
    byv = by11(recs, outs, touched, lambda k, r: k not in dict(r) or touched(k, r))
    cx.nontrivial = outs != recs
    cx.judge(argv, recs, outs, byv, exp)


# (Miller regex text, python pattern), (Miller replacement text, python replacement, literal replacement for ssub)
SUB_OLD = [("a", "a"), ("l+", "l+"), ("^.", "^."), ("o$", "o$"), ("[0-9]+", "[0-9]+"), ("a(.)", "a(.)"), ("(b)(a)", "(b)(a)"),
           ("an", "an"), ("x|z", "x|z"), (" ", " ")]
SUB_NEW = [("X", "X", "X"), ("", "", ""), ("<\\1>", "<\\1>", None), ("__", "__", "__"), ("\\t", "\t", "\t"), ("a", "a", "a")]
SUB_VALS = ["banana", "hello world", "lol", "xyz", "", "foo.bar", "a", "abab", "Abc Def", "llama", "no"]


def _looks_numeric(v):
    return re.fullmatch(r"[-+]?(0x[0-9a-fA-F]+|0b[01]+|0o[0-7]+|[0-9]*\.?[0-9]+([eE][-+]?[0-9]+)?|[0-9]+\.)|[-+]?(Inf|NaN|inf|nan|infinity|Infinity)", v) is not None


def v_subs(cx):
    rng = cx.rng
    which = cx.verb
    recs = gen_stream(rng, vals=SUB_VALS)
    old = rng.choice(SUB_OLD)
    new = rng.choice(SUB_NEW)
    if "\\1" in new[0] and "(" not in old[0]:
        new = SUB_NEW[0]
    if which == "ssub":
        old = rng.choice([("a", "a"), ("l", "l"), (".", "\\."), ("an", "an"), (" ", " "), ("ab", "ab")])
        new = rng.choice([n for n in SUB_NEW if n[2] is not None])
    mode = rng.choice(["f", "f", "a", "r"])
    cx.opt = mode
    rx = None
    if mode == "f":
        F = pick_names(rng, recs, 1, 4)
        sel = lambda k: k in F                                       # noqa: E731
        argv = [which, "-f", lst(F), old[0], new[0]]
    elif mode == "a":
        F = None
        sel = lambda k: True                                         # noqa: E731
        argv = [which, "-a", old[0], new[0]]
    else:
        F = None
        rx = rng.choice([r for r in M.REGEXES if r[0] not in ("^_",)])
        sel = lambda k: M.rx_match(rx, k)                            # noqa: E731
        argv = [which, "-r", rx[0], old[0], new[0]]                  # the documented form: -r {regex}
    outs = cx.flat(argv, recs)
    if outs is None:
        if mode == "r" and cx.res["viol"] and cx.res["viol"][-1]["sig"].get("layer") == "status":
            # the documented form was rejected (recorded above); still exercise the semantics through the
            # form the parser accepts, so that the bystander invariant is observed for regex selection too
            argv = [which, "-r", "-f", rx[0], old[0], new[0]]
            cx.opt = "r-via-f"
            outs = cx.flat(argv, recs)
        if outs is None:
            return
    byv = by11(recs, outs, lambda k, r: sel(k))
    exp = []
    for r in recs:
        if any(sel(k) and _looks_numeric(v) for k, v in r):
            exp.append(None)          # number-typed values: verb vs DSL function behaviour is not documented
        else:
            exp.append(M.subs(r, which, sel, old, new))
    cx.nontrivial = outs != recs and (F is None or named_share(recs, F))
    if not cx.judge(argv, recs, outs, byv, exp):
        return
    if mode == "f" and "\\t" not in new[0] and not any(sel(k) and _looks_numeric(v) for r in recs for k, v in r):
        # documented DSL equivalent: "like the sub/gsub/ssub DSL function"
        def q(s):
            return s.replace('"', '\\"')
        prog = "".join('if (haskey($*, "%s")) { $["%s"] = %s($["%s"], "%s", "%s"); }'
                       % (q(f), q(f), which, q(f), q(old[0]), q(new[0])) for f in F)
        outs2 = cx.flat(["put", prog], recs)
        if outs2 is not None:
            if outs2 != outs:
                bad = next((i for i in range(len(outs)) if i >= len(outs2) or outs[i] != outs2[i]), 0)
                cx.violation("equiv", "verb-vs-dsl-function", f"{which} verb and the {which}() function disagree on record {recs[bad]}: "
                             f"verb {outs[bad]} function {outs2[bad] if bad < len(outs2) else None}", argv, recs)
            else:
                bump(cx.res, "equivalence_checks")


_TS = re.compile(r"(-?[0-9]+)-([0-9]{2})-([0-9]{2})T([0-9]{2}):([0-9]{2}):([0-9]{2})(?:\.([0-9]{1,9}))?Z")


def _ts_ns(text):
    """ISO-8601 GMT timestamp -> nanoseconds since the epoch (proleptic Gregorian, any year), or None."""
    m = _TS.fullmatch(text)
    if not m:
        return None
    y, mo, d, hh, mi, ss = (int(x) for x in m.groups()[:6])
    y2 = y - (1 if mo <= 2 else 0)
    era = y2 // 400
    yoe = y2 - era * 400
    doy = (153 * (mo + (-3 if mo > 2 else 9)) + 2) // 5 + d - 1
    days = era * 146097 + yoe * 365 + yoe // 4 - yoe // 100 + doy - 719468
    return ((days * 86400 + hh * 3600 + mi * 60 + ss) * 10**9) + int((m.group(7) or "0").ljust(9, "0"))


def _float_rounding_class(r, e, g, F, unit, ndec):
    """e (exact model) and g (mlr) differ.  -> 'inside-int64ns' / 'outside-int64ns' when the ONLY difference is that named
    timestamp fields are off by no more than a float64 rounding of the scaled input (4 ulp of the value in seconds, plus one
    unit of the last printed digit); None for any other difference (wrong day/hour, unit flag ignored, field dropped...).
    The range says whether the input's nanosecond count fits an int64 (inside: exact integer arithmetic is available)."""
    if [k for k, _ in e] != [k for k, _ in g] or len(r) != len(e):
        return None
    cls = None
    for (k0, v0), (k, ve), (_, vg) in zip(r, e, g):
        if ve == vg:
            continue
        if k0 != k or k not in F or not re.fullmatch(r"-?[0-9]+", v0):
            return None
        a, b = _ts_ns(ve), _ts_ns(vg)
        if a is None or b is None or len(ve.partition(".")[2]) != len(vg.partition(".")[2]):
            return None
        t_ns = int(v0) * (10**9 // unit)
        if abs(a - b) > 4 * abs(t_ns) * 2.0**-52 + 10**(9 - ndec):
            return None
        c = "outside-int64ns" if abs(t_ns) >= 2**63 else "inside-int64ns"
        cls = c if cls in (None, "outside-int64ns") else cls
    return cls


def v_sec2gmt(cx):
    rng = cx.rng
    unit_flag = rng.choice([None, None, None, "--millis", "--micros", "--nanos"])
    unit = {None: 1, "--millis": 10**3, "--micros": 10**6, "--nanos": 10**9}[unit_flag]
    ndec = rng.choice([0, 0, 1, 3, 6, 9, rng.randint(1, 9)])
    tnames = ["t", "t2", "time.x", "u v"]
    secs = [0, 1, 59, 86399, 86400, 951782400, 1500000000, 1700000000, 2147483647, 2147483648, 4102444800, -1, -86401,
            1234567890, 253402300799, 9223372036, 9223372037, -9223372036, -9223372038]     # +-2^63 ns = +-9223372036.85 s
    recs = gen_stream(rng, names=[n for n in NAMES if n not in tnames])
    ints_only = True
    for r in recs:
        for tn in tnames:
            if rng.random() < 0.6:
                x = rng.random()
                if x < 0.7:
                    s = rng.choice(secs)
                    frac = rng.choice([0, 0, 1, 7, 123, 999, 500, 122, 1001, unit - 1, unit // 2 + 1, 123456789 % unit]) if unit > 1 else 0
                    v = str(s * unit + (frac % unit if unit > 1 else 0))
                elif x < 0.8:
                    v = rng.choice(["abc", "", "2017-07-14", "x1"])
                elif x < 0.9 and unit == 1:
                    v = f"{rng.choice(secs)}.{rng.choice(['5', '25', '125', '0'])}"
                    ints_only = False
                else:
                    v = ""
                r.insert(rng.randint(0, len(r)), (tn, v))
    F = rng.sample(tnames, rng.randint(1, 3)) + (["nosuch"] if rng.random() < 0.5 else [])
    cx.opt = (unit_flag or "sec") + (f"+dec" if ndec else "")
    argv = ["sec2gmt"] + ([f"-{ndec}"] if ndec else []) + ([unit_flag] if unit_flag else []) + [lst(F)]
    outs = cx.flat(argv, recs)
    if outs is None:
        return
    byv = by11(recs, outs, lambda k, r: k in F)
    exp = []
    for r in recs:
        o = []
        ok = True
        for k, v in r:
            if k in F and re.fullmatch(r"-?[0-9]+", v) and abs(int(v)) >= 2**63:
                ok = False            # beyond int64: read as a float, precision loss is inherent
            elif k in F and re.fullmatch(r"-?[0-9]+", v):
                o.append((k, M.sec2gmt_int(v, ndec, unit)))
            elif k in F and _looks_numeric(v):
                ok = False            # float seconds: compared with the DSL function below, not with the integer model
            else:
                o.append((k, v))
        exp.append(o if ok else None)
    cx.nontrivial = outs != recs and named_share(recs, F)
    # A named timestamp that is off by no more than a float64 rounding of the scaled integer gets its own narrow signature
    # (with the magnitude class of the input); it is recorded once per class, the exact text is put in its place and the
    # comparison of everything else (other fields, other records, equivalence) goes on.  Any other difference goes to judge().
    if not byv and unit > 1 and len(exp) == len(outs):
        seen_cls = set()
        outs = list(outs)
        for i, (e, g) in enumerate(zip(exp, outs)):
            if e is None or e == g:
                continue
            cls = _float_rounding_class(recs[i], e, g, F, unit, ndec)
            if cls is None:
                continue
            if cls not in seen_cls:
                seen_cls.add(cls)
                cx.violation("model", "scaled-integer-float-rounding",
                             f"sec2gmt {unit_flag} -{ndec}: record {recs[i]} expected {e} got {g} (exact integer arithmetic; input {cls})",
                             argv, recs, expected=exp[:30], got=outs[:30], extra={"range": cls})
            outs[i] = e
    if not cx.judge(argv, recs, outs, byv, exp):
        return
    if unit == 1:
        # documented equivalent: mlr sec2gmt t1,t2 == put '$t1 = sec2gmt($t1); $t2 = sec2gmt($t2)'
        prog = "".join('if (haskey($*, "%s")) { $["%s"] = sec2gmt($["%s"]%s); }' % (f, f, f, f", {ndec}" if ndec else "") for f in F)
        outs2 = cx.flat(["put", prog], recs)
        if outs2 is not None:
            if outs2 != outs:
                bad = next((i for i in range(len(outs)) if i >= len(outs2) or outs[i] != outs2[i]), 0)
                only_err = len(outs) == len(outs2) and all(
                    len(a) == len(b) and all(x == y or (y[1] == "(error)" and x == rin and not _looks_numeric(x[1]))
                                             for x, y, rin in zip(a, b, r0))
                    for a, b, r0 in zip(outs, outs2, recs))
                cx.violation("equiv", "function-errors-on-non-number-with-ndec" if only_err and ndec else "verb-vs-dsl-function",
                             f"sec2gmt verb and its documented put equivalent disagree on {recs[bad]}: "
                             f"verb {outs[bad]} put {outs2[bad] if bad < len(outs2) else None}", argv, recs)
            else:
                bump(cx.res, "equivalence_checks")


# ==========================================================================================
# structured verbs (JSON in / JSON out)

SKEYS = ["a", "b", "c", "k 1", "x", "y", "é", "n"]


def gen_value(rng, depth=0, allow_null=False, allow_empty=True):
    x = rng.random()
    if depth >= 3 or x < 0.5:
        c = rng.random()
        if c < 0.4:
            return rng.choice(["s", "a b", "é", "hello", "0xff_not", "x;y", "true?"])
        if c < 0.75:
            return M.Num(rng.choice(["1", "0", "-3", "1.50", "2.0", "17", "1e3", "0.25"]))
        if c < 0.9:
            return rng.choice([True, False])
        if allow_null and c < 0.95:
            return None
        return ""
    if x < 0.8:
        n = rng.randint(0 if allow_empty else 1, 3)
        return {k: gen_value(rng, depth + 1, allow_null, allow_empty) for k in rng.sample(SKEYS, n)}
    n = rng.randint(0 if allow_empty else 1, 3)
    return [gen_value(rng, depth + 1, allow_null, allow_empty) for _ in range(n)]


def gen_structured(rng, n=None, allow_null=False, allow_empty=True):
    recs = []
    for i in range(n or rng.randint(4, 9)):
        ks = rng.sample(SKEYS + ["m", "arr", "deep"], rng.randint(1, 6))
        rec = [(k, gen_value(rng, 0, allow_null, allow_empty)) for k in ks]
        if rng.random() < 0.25:
            # top-level width (incl. _id) at / next to the key-index threshold of 12, so that -f selection by name runs on
            # indexed records too; the pads are scalars of every type, placed among the other fields
            target = rng.choice([11, 12, 12, 12, 13, rng.randint(14, 18)]) - 1
            for w in rng.sample(WNAMES, max(0, target - len(rec))):
                rec.insert(rng.randint(0, len(rec)), (w, rng.choice(["p", "", M.Num("7"), M.Num("0.50"), True, "1"])))
        rec.insert(rng.randint(0, len(rec)), ("_id", f"r{i+1}"))
        recs.append(rec)
    return recs


def _is_coll(v):
    return isinstance(v, (dict, list))


def v_flatten(cx):
    rng = cx.rng
    recs = gen_structured(rng)
    sep = rng.choice([None, None, ":", "__", "/"])
    F = pick_names(rng, recs, 1, 3, pool=SKEYS) if rng.random() < 0.5 else None
    cx.opt = ("f" if F else "all") + ("+s" if sep else "")
    argv = ["flatten"] + (["-s", sep] if sep else []) + (["-f", lst(F)] if F else [])
    outs = cx.structured(argv, recs)
    if outs is None:
        return
    sp = sep or "."
    hit = lambda k, r: (F is None or k in F) and _is_coll(dict(r).get(k))      # noqa: E731
    byv = by11(recs, outs, hit, lambda k, r: k not in dict(r) or hit(k, r))
    exp = [M.flatten(r, sp, F) for r in recs]
    cx.nontrivial = outs != recs and (F is None or named_share(recs, F))
    cx.judge(argv, recs, outs, byv, exp, structured=True)


def v_unflatten(cx):
    rng = cx.rng
    sep = rng.choice([None, None, ":", "/"])
    sp = sep or "."
    src = gen_structured(rng, allow_empty=True)
    recs = []
    for r in src:
        fr = M.flatten(r, sp)
        if fr is None:
            continue
        if rng.random() < 0.2:
            fr.append((rng.choice([sp + "lead", "trail" + sp, "dou" + sp + sp + "ble"]), M.Num("1")))
        recs.append(fr)
    if not recs:
        cx.res["skipped"] += 1
        return
    tops = sorted({k.split(sp)[0] for r in recs for k, _ in r if sp in k})
    F = (rng.sample(tops, min(len(tops), rng.randint(1, 2))) + (["nosuch"] if rng.random() < 0.4 else [])) if tops and rng.random() < 0.5 else None
    cx.opt = ("f" if F else "all") + ("+s" if sep else "")
    argv = ["unflatten"] + (["-s", sep] if sep else []) + (["-f", lst(F)] if F else [])
    outs = cx.structured(argv, recs)
    if outs is None:
        return
    hit = lambda k, r: (sp in k and (F is None or k.split(sp)[0] in F)) or (dict(r).get(k) in ("{}", "[]") and (F is None or k in F))   # noqa: E731
    byv = by11(recs, outs, hit, lambda k, r: k not in dict(r) or hit(k, r))
    if byv and F is not None and len(outs) == len(recs):
        # narrower class: the only damage is "{}" / "[]" strings of fields NOT named by -f turned into empty collections
        conv = lambda v: {} if v == "{}" else ([] if v == "[]" else v)      # noqa: E731
        alt = [[(k, conv(v) if k.split(sp)[0] not in F else v) for k, v in r] for r in recs]
        if not by11(alt, outs, hit, lambda k, r: k not in dict(r) or hit(k, r)):
            byv = [("empty-collection-string-of-unnamed-field-converted", byv[0][1])]
    exp = [M.unflatten(r, sp, F) for r in recs]
    cx.nontrivial = outs != recs
    cx.judge(argv, recs, outs, byv, exp, structured=True)


def v_json_stringify(cx):
    rng = cx.rng
    recs = gen_structured(rng, allow_null=True)
    F = pick_names(rng, recs, 1, 3, pool=SKEYS) if rng.random() < 0.6 else None
    cx.opt = "f" if F else "all"
    argv = ["json-stringify"] + (["-f", lst(F)] if F else []) + (["--no-jvstack"] if rng.random() < 0.3 else [])
    outs = cx.structured(argv, recs)
    if outs is None:
        return
    byv = by11(recs, outs, lambda k, r: F is None or k in F)
    exp = [[(k, M.json_encode(v) if (F is None or k in F) else v) for k, v in r] for r in recs]
    cx.nontrivial = outs != recs and (F is None or named_share(recs, F))
    cx.judge(argv, recs, outs, byv, exp, structured=True)


JUNK = ["abc", "{abc", "[1,2", "tru", "{\"a\":}", "'x'", "-", "{", "nul"]
GARBAGE = ["12abc", "[1,2]xyz", "{\"b\":1} trailing", "1 2", "true false", "\"s\"x", "3,4"]


def v_json_parse(cx):
    rng = cx.rng
    keep = rng.random() < 0.6
    F = (rng.sample(SKEYS, rng.randint(1, 3)) + (["nosuch"] if rng.random() < 0.4 else [])) if rng.random() < 0.5 else None
    recs, exp = [], []
    klass = "valid"
    for i in range(rng.randint(4, 9)):
        r, e = [("_id", '"r%d"' % (i + 1))], [("_id", ("r%d" if F is None else '"r%d"') % (i + 1))]
        for k in rng.sample(SKEYS, rng.randint(1, 5)):
            sel = F is None or k in F
            x = rng.random()
            if keep and x < 0.15:
                t = rng.choice(JUNK)
                v = t
                if sel and klass == "valid":
                    klass = "junk"
            elif keep and x < 0.25:
                t = rng.choice(GARBAGE)
                v = t
                if sel:
                    klass = "trailing-garbage"
            else:
                v = gen_value(rng, 0, allow_null=True)
                t = M.json_encode(v)
                if rng.random() < 0.15:
                    t = " " + t + " "
            r.append((k, t))
            e.append((k, v if sel else t))
        recs.append(r)
        exp.append(e)
    cx.opt = ("k" if keep else "strict") + ("+f" if F else "") + ":" + klass
    argv = ["json-parse"] + (["-k"] if keep else []) + (["-f", lst(F)] if F else [])
    outs = cx.structured(argv, recs)
    if outs is None:
        return
    byv = by11(recs, outs, lambda k, r: F is None or k in F)
    cx.nontrivial = outs != recs
    cx.judge(argv, recs, outs, byv, exp, structured=True)


def _sort_rec(v):
    if isinstance(v, dict):
        return {k: _sort_rec(v[k]) for k in sorted(v)}
    return v


def v_sort_within_records_r(cx):
    rng = cx.rng
    recs = []
    for i in range(rng.randint(4, 8)):
        rec = [(k, rng.choice(["1", "x"]) if rng.random() < 0.5 else
                {k2: ({k3: "z" for k3 in rng.sample(SKEYS, rng.randint(1, 3))} if rng.random() < 0.4 else "v")
                 for k2 in rng.sample(SKEYS, rng.randint(1, 4))}) for k in rng.sample(SKEYS + ["_id"], rng.randint(2, 6))]
        recs.append(rec)
    cx.opt = "recursive"
    argv = ["sort-within-records", "-r"]
    outs = cx.structured(argv, recs)
    if outs is None:
        return
    exp = [[(k, _sort_rec(v)) for k, v in sorted(r, key=lambda kv: kv[0])] for r in recs]
    # dict equality ignores key order: compare rendered text
    byv = [] if len(outs) == len(recs) else [("record-count", f"{len(recs)} in, {len(outs)} out")]
    if not byv:
        for r, o in zip(recs, outs):
            if dict(r) != dict(o):
                byv = [("changed", f"contents changed: {r} -> {o}")]
                break
    if byv:
        cx.judge(argv, recs, outs, byv, None, structured=True)
        return
    bump(cx.res, "bystander_checks")
    if [render_json([e]) for e in exp] != [render_json([o]) for o in outs]:
        cx.violation("model", "field-order", f"recursive key sort: expected {render_json(exp[:2])} got {render_json(outs[:2])}", argv, recs, structured=True)
    else:
        bump(cx.res, "model_records_checked", len(outs))
    cx.nontrivial = True


# ==========================================================================================
# inverse pairs (metamorphic, Miller vs Miller)

def i_nest_records(cx):
    rng = cx.rng
    f, fs = rng.choice(["x", "n.f", "ab"]), rng.choice([";", "|"])
    recs = _nest_stream(rng, f, fs)
    all_have = all(f in dict(r) for r in recs)
    cx.opt = "explode-implode-records"
    argv = ["nest", "--explode", "--values", "--across-records", "--nested-fs", fs, "-f", f, "then",
            "nest", "--implode", "--values", "--across-records", "--nested-fs", fs, "-f", f]
    outs = cx.flat(argv, recs)
    if outs is None:
        return
    # implode's emission order across records whose other fields have different names is not documented
    one_shape = len({tuple(k for k, _ in r if k != f) for r in recs}) == 1
    ok = (outs == recs) if (all_have and one_shape) else (sorted(map(repr, outs)) == sorted(map(repr, recs)))
    cx.nontrivial = any(fs in dict(r).get(f, "") for r in recs)
    if not ok:
        cx.violation("inverse", "nest-records", f"explode then implode across records is not the identity: {recs[:3]} -> {outs[:3]}", argv, recs, expected=recs, got=outs)
    else:
        bump(cx.res, "inverse_checks")


def i_nest_fields(cx):
    rng = cx.rng
    f, fs = rng.choice(["x", "n.f", "ab"]), rng.choice([";", "|"])
    recs = _nest_stream(rng, f, fs)
    cx.opt = "explode-implode-fields"
    argv = ["nest", "--explode", "--values", "--across-fields", "--nested-fs", fs, "-f", f, "then",
            "nest", "--implode", "--values", "--across-fields", "--nested-fs", fs, "-f", f]
    outs = cx.flat(argv, recs)
    if outs is None:
        return
    cx.nontrivial = any(fs in dict(r).get(f, "") for r in recs)
    if outs != recs:
        bad = next((i for i in range(len(recs)) if i >= len(outs) or outs[i] != recs[i]), 0)
        cx.violation("inverse", "nest-fields", f"explode then implode across fields is not the identity: {recs[bad]} -> {outs[bad] if bad < len(outs) else None}",
                     argv, recs, expected=recs, got=outs)
    else:
        bump(cx.res, "inverse_checks")


def i_reshape(cx):
    rng = cx.rng
    recs = gen_stream(rng, homog=rng.random() < 0.5)
    F = pick_names(rng, recs, 1, 3, absent=False)
    kname, vname = "key", "value"
    cx.opt = "wide-long-wide"
    argv = ["reshape", "-i", lst(F), "-o", f"{kname},{vname}", "then", "reshape", "-s", f"{kname},{vname}"]
    outs = cx.flat(argv, recs)
    if outs is None:
        return
    cx.nontrivial = named_share(recs, F + ["_absent_"]) or any(k in F for r in recs for k, _ in r)
    by_id = {dict(o).get("_id"): o for o in outs}
    for r in recs:
        o = by_id.get(dict(r)["_id"])
        if o is None or len(outs) != len(recs) or dict(o) != dict(r) or \
                [(k, v) for k, v in o if k not in F] != [(k, v) for k, v in r if k not in F]:
            cx.violation("inverse", "reshape", f"wide-to-long then long-to-wide does not restore {r}: got {o}", argv, recs, expected=recs, got=outs)
            return
    bump(cx.res, "inverse_checks")


def _flatten_domain(v):
    """flatten/unflatten is documented to invert only when no map has keys "1","2",... (array heuristic)
    and no string value is the text {} or []."""
    if isinstance(v, dict):
        ks = list(v)
        if ks and ks == [str(i + 1) for i in range(len(ks))]:
            return False
        return all(_flatten_domain(x) for x in v.values())
    if isinstance(v, list):
        return all(_flatten_domain(x) for x in v)
    return v not in ("{}", "[]")


def i_flatten(cx):
    rng = cx.rng
    recs = gen_structured(rng)
    sep = rng.choice([None, ":", "__"])
    cx.opt = "flatten-unflatten" + ("+s" if sep else "")
    s = ["-s", sep] if sep else []
    argv = ["flatten"] + s + ["then", "unflatten"] + s
    outs = cx.structured(argv, recs)
    if outs is None:
        return
    cx.nontrivial = any(_is_coll(v) for r in recs for _, v in r)
    if outs != recs or [render_json([o]) for o in outs] != [render_json([r]) for r in recs]:
        bad = next((i for i in range(len(recs)) if i >= len(outs) or render_json([outs[i]]) != render_json([recs[i]])), 0)
        cx.violation("inverse", "flatten-unflatten", f"flatten then unflatten is not the identity: {recs[bad]} -> {outs[bad] if bad < len(outs) else None}",
                     argv, recs, expected=recs, got=outs, structured=True)
    else:
        bump(cx.res, "inverse_checks")


def i_json(cx):
    rng = cx.rng
    recs = gen_structured(rng, allow_null=True)
    F = pick_names(rng, recs, 1, 3, pool=SKEYS) if rng.random() < 0.5 else None
    stack = rng.random() < 0.3
    cx.opt = "stringify-parse" + ("+f" if F else "") + ("+jvstack" if stack else "")
    f = ["-f", lst(F)] if F else []
    argv = ["json-stringify"] + (["--jvstack"] if stack else []) + f + ["then", "json-parse"] + f
    outs = cx.structured(argv, recs)
    if outs is None:
        return
    cx.nontrivial = True
    if [render_json([o]) for o in outs] != [render_json([r]) for r in recs]:
        bad = next((i for i in range(len(recs)) if i >= len(outs) or render_json([outs[i]]) != render_json([recs[i]])), 0)
        cx.violation("inverse", "json-stringify-parse", f"json-stringify then json-parse is not the identity: {recs[bad]} -> {outs[bad] if bad < len(outs) else None}",
                     argv, recs, expected=recs, got=outs, structured=True)
    else:
        bump(cx.res, "inverse_checks")


def i_reorder(cx):
    rng = cx.rng
    recs = gen_stream(rng)
    F = pick_names(rng, recs, 1, 4)
    cx.opt = "reorder-f-then-e"
    a1 = ["reorder", "-f", lst(F), "then", "reorder", "-e", "-f", lst(F)]
    a2 = ["reorder", "-e", "-f", lst(F)]
    o1 = cx.flat(a1, recs)
    o2 = cx.flat(a2, recs)
    if o1 is None or o2 is None:
        return
    cx.nontrivial = o1 != recs
    if o1 != o2:
        cx.violation("inverse", "reorder", f"reorder -f F then reorder -e -f F differs from reorder -e -f F: {o1[:2]} vs {o2[:2]}", a1, recs, expected=o2, got=o1)
    else:
        bump(cx.res, "inverse_checks")


# ==========================================================================================
# chains: restructuring verb THEN a verb that looks fields up BY NAME (old and new names), on records
# whose width sits exactly at / next to the hash-index threshold, in DKVP / CSV / CSV-lite / NIDX / JSON
# input.  Model-free: the chain must print the same bytes with the lazily built key index (default), with
# --hash-records and with --no-hash-records (linear search only).

CH_VALS = ["1", "x", "x;y", "pk1:1;pk2:2", "hello world", "", "0x1F", "17", "a b", "banana", "1500000000", "é", "-3", "Abc"]


def _chain_stream(rng, fmt):
    homog = fmt in ("csv", "nidx") or rng.random() < 0.3
    n = rng.randint(3, 8)

    def width():
        return rng.choice([11, 12, 12, 12, 12, 13, 13, rng.choice([3, 8, 20])])
    pool = NAMES + WNAMES if fmt != "nidx" else [str(i + 1) for i in range(24)]
    vals = CH_VALS if fmt != "nidx" else [v for v in CH_VALS if v and " " not in v]
    recs = []
    w0 = width()
    layout = rng.sample(pool, w0) if fmt != "nidx" else pool[:w0]
    for i in range(n):
        if homog:
            ks = list(layout)
        else:
            ks = rng.sample(pool, width())
            # share names with the first record so that the probes hit
            for j, k in enumerate(layout[:4]):
                if k not in ks and rng.random() < 0.8:
                    ks[rng.randrange(len(ks))] = k
            ks = list(dict.fromkeys(ks))
        recs.append([(k, rng.choice(vals)) for k in ks])
    return recs


def _render_chain_input(recs, fmt):
    if fmt == "dkvp":
        return [], gen.dkvp(recs)
    if fmt == "json":
        return ["--ijson"], gen.json_text(recs)
    if fmt == "nidx":
        return ["--inidx", "--ifs", " "], "".join(" ".join(v for _, v in r) + "\n" for r in recs)
    if fmt == "csv":
        return ["--icsv"], ",".join(k for k, _ in recs[0]) + "\n" + "".join(",".join(v for _, v in r) + "\n" for r in recs)
    # csvlite: schema change = blank line + new header
    lines, prev = [], None
    for r in recs:
        hdr = [k for k, _ in r]
        if hdr != prev:
            if prev is not None:
                lines.append("")
            lines.append(",".join(hdr))
            prev = hdr
        lines.append(",".join(v for _, v in r))
    return ["--icsvlite"], "\n".join(lines) + "\n"


def _dq(name):
    return "${" + name + "}"


def _first_verbs(rng, names):
    a = rng.choice(names)
    b = rng.choice([x for x in names if x != a] or [a])
    c = rng.choice(names)
    NEW = rng.choice(["brandnew", "N.w", "new name", "Z9", "b_"])
    plain = [x for x in names if re.fullmatch(r"[A-Za-z0-9_]+", x)]
    cat = [
        (["rename", f"{a},{NEW}"], [NEW]),
        (["rename", f"{a},{NEW}"], [NEW]),
        (["rename", f"{a},{NEW}"], [NEW]),
        (["rename", f"{a},{NEW},{b},{NEW}2"], [NEW, NEW + "2"]),
        (["rename", f"nosuch,zz,{a},{NEW}"], [NEW]),
        (["rename", "-r", "^(.)(.*)$,R_\\1\\2"], ["R_" + a, "R_" + b]),
        (["reorder", "-f", f"{a},{b}"], []),
        (["reorder", "-e", "-f", a], []),
        (["cut", "-x", "-f", b], []),
        (["cut", "-o", "-f", lst(rng.sample(names, max(1, len(names) - 1)))], []),
        (["label", "L1,L2"], ["L1", "L2"]),
        (["sort-within-records"], []),
        (["regularize"], []),
        (["template", "-f", lst(rng.sample(names, len(names)) + ["T_new"])], ["T_new"]),
        (["unsparsify", "-f", "U_new," + a], ["U_new"]),
        (["unsparsify"], []),
        (["sparsify", "-f", a], []),
        (["fill-empty", "-v", "F"], []),
        (["case", "-u", "-k", "-f", a], [a.upper()]),
        (["unspace"], [x.replace(" ", "_") for x in names if " " in x]),
        (["sub", "-f", a, "a", "X"], []),
        (["sec2gmt", a], []),
        (["nest", "--explode", "--values", "--across-fields", "--nested-fs", ";", "-f", a], [a + "_1", a + "_2"]),
        (["nest", "--evar", ";", "-f", a], []),
        (["nest", "--explode", "--pairs", "--across-fields", "-f", a], ["pk1", "pk2"]),
        (["nest", "--explode", "--pairs", "--across-records", "-f", a], ["pk1", "pk2"]),
        (["reshape", "-i", f"{a},{b}", "-o", "rk,rv"], ["rk", "rv"]),
        (["fill-down", "-f", a], []),
        (["json-stringify", "-f", a], []),
        (["put", f"{_dq(NEW)} = {_dq(a)}; unset {_dq(a)}"], [NEW]),
        (["sort-within-records", "-r"], []),
    ]
    if plain:
        p0 = rng.choice(plain)
        cat += [(["rename", "-r", f"^{p0}$,{NEW}"], [NEW]), (["rename", "-r", f"^{p0}$,{NEW}"], [NEW]),
                (["rename", "-g", "-r", f"{p0[0]},Q"], [p0.replace(p0[0], "Q")])]
    argv, news = rng.choice(cat)
    return argv, news, [a, b, c]


def _second_verbs(rng, P):
    p0 = P[0]
    progs = "; ".join(f'$["pr{i}"] = is_present({_dq(p)}); $["cp{i}"] = {_dq(p)}' for i, p in enumerate(P))
    cat = [
        ["cut", "-o", "-f", lst(P)], ["cut", "-o", "-f", lst(P)], ["cut", "-f", lst(P)], ["cut", "-x", "-f", lst(P)],
        ["rename", lst(x for i, p in enumerate(P) for x in (p, f"BK{i}"))], ["rename", f"{p0},BK"],
        ["reorder", "-f", lst(P)], ["reorder", "-e", "-f", lst(P)],
        ["put", progs], ["put", "-q", f"if (is_present({_dq(p0)})) {{ emit mapsum({{\"v\": {_dq(p0)}}}, {{\"n\": NF}}) }}"],
        ["sort", "-f", p0], ["sort", "-f", lst(P[:2])], ["having-fields", "--at-least", p0], ["having-fields", "--all-defined", lst(P)],
        ["unsparsify", "-f", lst(P)], ["template", "-f", lst(P)], ["sec2gmt", lst(P)], ["fill-down", "-a", "-f", p0],
        ["sparsify", "-f", lst(P)], ["sub", "-f", lst(P), "a", "X"], ["nest", "--evar", ";", "-f", p0],
        ["count-distinct", "-f", p0], ["head", "-n", "1", "-g", p0], ["fill-empty", "-v", "E"], ["json-stringify", "-f", lst(P)],
        ["nest", "--ivar", ";", "-f", p0], ["reshape", "-i", lst(P), "-o", "k2,v2"], ["count-similar", "-g", p0],
    ]
    return rng.choice(cat)


def chain_case(case):
    rng = random.Random(case["seed"])
    res = case_result(_h(case["seed"]), nontrivial=False)
    fmt = rng.choice(["dkvp", "dkvp", "csv", "csv", "nidx", "json", "csvlite"])
    recs = _chain_stream(rng, fmt)
    names = [k for k, _ in recs[0]]
    first, news, olds = _first_verbs(rng, names)
    P = list(dict.fromkeys(news[:2] + olds[:rng.randint(1, 3)] + (["nosuch"] if rng.random() < 0.3 else [])))
    if rng.random() < 0.5:
        rng.shuffle(P)
    second = _second_verbs(rng, P)
    iflags, text = _render_chain_input(recs, fmt)
    oflags = ["--ojson", "--jvquoteall", "--no-auto-flatten", "--no-auto-unflatten"]
    chain = first + ["then"] + second
    bump(res, f"chain_fmt:{fmt}")
    bump(res, f"chain_first:{first[0]}")
    widths = sorted({len(r) for r in recs})
    for w in widths:
        if w in (11, 12, 13):
            bump(res, f"chain_width:{w}")
    form = " ".join([first[0]] + [t for t in first[1:] if t.startswith("--") or t in ("-r", "-g", "-e", "-o", "-x", "-k", "-u", "-f", "-i", "-a")])
    sig = {"verb": "chain:" + first[0], "form": form, "opt": second[0], "layer": "chain"}
    outs = {}
    for variant, vflags in (("default", []), ("no-hash", ["--no-hash-records"]), ("hash", ["--hash-records"])):
        argv = vflags + iflags + oflags + chain
        r = R.mlr(argv, stdin=text)
        bump(res, "runs")
        if r.verdict == "slow":
            res["inconc"] += 1
            return res
        if r.verdict != "exited" or r.crashed():
            add_violation(res, dict(sig, sub="crash-or-hang", variant=variant), f"mlr {' '.join(chain)} ({variant}) crashes or hangs: {r.verdict}",
                          {"argv": argv, "stdin": text, "stderr": r.err[-2000:]})
            return res
        outs[variant] = (r.rc, r.stdout, argv)
    ref = outs["no-hash"]
    for variant in ("default", "hash"):
        if outs[variant][:2] != ref[:2]:
            w = ",".join(map(str, widths))
            add_violation(res, dict(sig, sub="key-index-vs-linear-search", variant=variant),
                          f"`{' '.join(chain)}` on {fmt} records of width {w} prints different output with the key index ({variant}) than with "
                          f"--no-hash-records: a field is not found (or still found) by name after the first verb. "
                          f"{variant}: {outs[variant][1][:300]!r} no-hash: {ref[1][:300]!r}",
                          {"argv": outs[variant][2], "stdin": text, "expected": ref[1][:4000], "got": outs[variant][1][:4000]})
            return res
    bump(res, "chain_index_equalities")
    res["nontrivial"] = ref[0] == 0 and any(w in (11, 12, 13) for w in widths) and len(ref[1]) > 5
    if case.get("want_sample"):
        res["sample"] = {"layer": "chain", "fmt": fmt, "chain": chain, "widths": widths}
    return res


# ==========================================================================================
# dispatch

VERBS = {
    "cut": v_cut, "template": v_template, "reorder": v_reorder, "rename": v_rename, "label": v_label,
    "regularize": v_regularize, "sort-within-records": v_sort_within_records, "sort-within-records-r": v_sort_within_records_r,
    "unsparsify": v_unsparsify, "sparsify": v_sparsify, "fill-empty": v_fill_empty,
    "nest-explode-values": v_nest_explode_values, "nest-explode-pairs": v_nest_explode_pairs, "nest-implode": v_nest_implode,
    "nest-explode-regex": v_nest_explode_regex,
    "reshape-wide-to-long": v_reshape_w2l, "reshape-long-to-wide": v_reshape_l2w,
    "flatten": v_flatten, "unflatten": v_unflatten, "json-stringify": v_json_stringify, "json-parse": v_json_parse,
    "sec2gmt": v_sec2gmt, "altkv": v_altkv, "case": v_case, "unspace": v_unspace,
    "sub": v_subs, "gsub": v_subs, "ssub": v_subs,
}
INVERSES = {"nest-records": i_nest_records, "nest-fields": i_nest_fields, "reshape": i_reshape, "flatten": i_flatten,
            "json": i_json, "reorder": i_reorder}


def verb_case(case):
    rng = random.Random(case["seed"])
    res = case_result(_h(case["seed"]), nontrivial=False)
    name = case["verb"]
    fn = VERBS[name] if case["layer"] == "v" else INVERSES[name]
    cx = Ctx(res, rng, name if case["layer"] == "v" else "inverse:" + name)
    fn(cx)
    res["nontrivial"] = bool(cx.nontrivial) and not res["viol"]
    bump(res, f"cases:{cx.verb}")
    bump(res, f"opt:{cx.verb}:{cx.opt}")
    if case.get("want_sample"):
        res["sample"] = {"verb": cx.verb, "opt": cx.opt, "main": cx.main, "nontrivial": res["nontrivial"]}
    return res


# ------------------------------------------------------------------------------------------
# doc-replay

DOC_VERBS = {"cut", "template", "reorder", "rename", "label", "regularize", "sort-within-records", "unsparsify", "sparsify",
             "fill-empty", "nest", "reshape", "flatten", "unflatten", "json-stringify", "json-parse", "sec2gmt", "altkv", "case",
             "unspace", "sub", "gsub", "ssub"}
DOC_PAGES = ["reference-verbs.md", "record-heterogeneity.md", "flatten-unflatten.md", "shapes-of-data.md", "10min.md",
             "operating-on-all-fields.md", "special-symbols-and-formatting.md", "questions-about-the-dsl.md",
             "reference-main-data-types.md", "csv-with-and-without-headers.md", "sorting.md"]


def doc_cases():
    cases = []
    for page in DOC_PAGES:
        for cmd, exp, head in docreplay.blocks(page):
            argv = docreplay.plain_argv(cmd)
            if argv is None or "--help" in argv or "-h" in argv or "--usage" in argv:
                continue
            if page == "reference-verbs.md":
                if head not in DOC_VERBS:
                    continue
            elif not any(a in DOC_VERBS for a in argv):
                continue
            if any(a in ("-I", "tee", "split", "--prepipe", "--ofmt") or a.startswith("seqgen") for a in argv):
                continue
            if "system" in cmd or "urand" in cmd or "hostname" in cmd or "os." in cmd:
                continue
            cases.append({"argv": argv, "expected": exp, "files": docreplay.needed_files(argv), "page": page, "head": head})
    return cases


def doc_case(case):
    argv, exp, files = case["argv"], case["expected"], case["files"]
    res = case_result(_h("d", argv), nontrivial=False)
    if any((not a.startswith("-")) and ("/" in a or a.endswith((".csv", ".json", ".dkvp", ".txt", ".tsv"))) and a not in files
           and not a.startswith("$") and " " not in a for a in argv if "." in a and "=" not in a and "(" not in a):
        res["skipped"] += 1       # a data file the docs tree does not ship
        return res
    r = R.mlr(argv, files=files)
    bump(res, "doc_blocks_replayed")
    if r.verdict == "slow":
        res["inconc"] += 1
        return res
    if not r.ok or r.out != exp:
        add_violation(res, {"verb": case["head"], "layer": "doc-replay", "page": case["page"], "cmd": " ".join(argv)[:120]},
                      f"{case['page']}: documented output of `mlr {' '.join(argv)}` is not reproduced",
                      {"argv": argv, "files": files, "stdin": "", "expected": exp, "got": r.out[:4000], "stderr": r.err[:1000]})
    return res


# ==========================================================================================

def run(chk):
    only = getattr(chk, "only", None)
    q = chk.quick()
    chk.rule = (f"v: for each of {len(VERBS)} verb forms, random option sets (present / absent / overlapping / repeated / reversed / regex field "
                "lists) x heterogeneous record streams (1-16+ fields, a fixed share >= 12 fields, names with regex metacharacters and "
                "prefixes of each other, empty values), one mlr process per (option set, stream); i: inverse-pair chains; d: doc examples. "
                "Non-trivial = output != input and (where the verb takes a field list) the list names >= 1 present and >= 1 absent field "
                "and some record has a bystander on each side of a named field; distinct = by generator seed")
    if not only or "v" in only:
        per = 60 if q else 1200
        cases = []
        for v in VERBS:
            for i in range(per):
                cases.append({"layer": "v", "verb": v, "seed": f"{chk.seed}/v/{v}/{i}", "want_sample": i == 0 and v in ("cut", "nest-implode", "rename")})
        chk.pmap(verb_case, cases, chunksize=8, label="v verbs")
    if not only or "c" in only:
        n = 700 if q else 12000
        chk.pmap(chain_case, [{"seed": f"{chk.seed}/c/{i}", "want_sample": i == 0} for i in range(n)], chunksize=8, label="c chains")
    if not only or "i" in only:
        per = 35 if q else 850
        cases = [{"layer": "i", "verb": v, "seed": f"{chk.seed}/i/{v}/{i}"} for v in INVERSES for i in range(per)]
        chk.pmap(verb_case, cases, chunksize=8, label="i inverse pairs")
    if not only or "d" in only:
        dc = doc_cases()
        chk.extra["doc_blocks"] = len(dc)
        chk.pmap(doc_case, dc, label="d doc-replay")
    st = chk.stats
    chk.extra["verb_forms_reached"] = sorted(k[6:] for k in st if k.startswith("cases:"))
    chk.extra["option_classes_reached"] = len([k for k in st if k.startswith("opt:")])
    chk.assumptions = [
        "the bystander invariant is never relaxed; the per-verb models decline (counted as skipped / model_declined_records) where the usage "
        "text does not determine the result: renaming or labelling onto a name that already exists elsewhere in the record, repeated names "
        "in -o/-f lists, a field matching two reorder regexes or two cut -o -r regexes, nest pair pieces without the pair separator, key "
        "collisions after case/unspace, reshape long-to-wide with missing cells, where sort-within-records -f/-r places the sorted block "
        "(label onto a later field's name: the full model declines the record, the model-free checks and 'first n names' stay on)",
        "structured (JSON) records are compared as typed text: a number never equals the string with the same digits, true never equals 1, "
        "and key order inside nested maps counts (bystanders and model alike)",
        "order laws: reshape wide-to-long pairs of one input come in record order or in -i/-r argument order, one rule per stream (the "
        "usage example does not separate the two); reshape long-to-wide buckets with ONE shape of other keys come in first-appearance order "
        "and passed-through records keep their order (how the two interleave is not documented); sort-within-records -n is judged only "
        "between names with the same non-digit prefix and an all-digit rest ('2 before 12') or without digits (lexical)",
        "nest -r: 'operate on each [matching field] in record order' = the -f model applied field after field; the matching names are "
        "those of the input record; unsparsify with several -f flags is not documented and not run",
        "a listed defect is recognised on the witness record/field itself and the comparison continues on the rest of the stream "
        "(sec2gmt float rounding outside the int64-ns range, nest pairs empty value, rename -g -r literal capture, nest -r first field only)",
        "regexes come from a catalogue whose meaning is identical in RE2 and Python re; case-insensitive regexes use the documented \"...\"i form",
        "case: values are words/digits/empty (title-case word boundaries other than the space are not documented); upper/lower use full Unicode mapping",
        "sub/gsub/ssub: values that look numeric are not judged (the verbs leave numbers alone, the DSL functions return an error; neither is documented)",
        "sec2gmt model covers integer inputs with exact integer arithmetic (floor); float seconds are compared with the documented put equivalent only",
        "flatten/unflatten inverse excludes maps keyed \"1\",\"2\",... and the string values {} and [] (flatten-unflatten.md: array heuristic, empty-collection encoding)",
        "output is read through --ojson --jvquoteall --no-auto-flatten --no-auto-unflatten (flat verbs) so names, order and value texts are observed exactly",
    ]
